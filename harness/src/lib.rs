//! Shared plumbing for the per-property correspondence harnesses (`src/bin/cXX.rs`).
//!
//! Every harness binary is invoked as `cXX --tier quick|thorough --seed N --out DIR` and writes
//!   DIR/shard_<k>.v   Coq files; compiling one prints `= [(i, code); ...]`, the failing cases of
//!                     that shard (`i` local to the shard; code 1 = model/implementation disagree,
//!                     code >= 2 = the verified checker rejects the implementation's output)
//!   DIR/cases.txt     one line per case, `<shard> <local index> <known-class or -> <description>`
//!   DIR/meta.json     counts, distribution, samples, process-level failures (panics, aborts)
use std::collections::HashSet;
use std::fmt::Write as _;
use std::fs;
use std::io::Write as _;
use std::path::{Path, PathBuf};

pub mod gallina;

/// splitmix64: every random choice of a run derives from one state seeded by VERIF_SEED.
#[derive(Clone)]
pub struct Rng(pub u64);

impl Rng {
    pub fn new(seed: u64) -> Self {
        Rng(seed ^ 0x9E37_79B9_7F4A_7C15)
    }
    pub fn next(&mut self) -> u64 {
        self.0 = self.0.wrapping_add(0x9E37_79B9_7F4A_7C15);
        let mut z = self.0;
        z = (z ^ (z >> 30)).wrapping_mul(0xBF58_476D_1CE4_E5B9);
        z = (z ^ (z >> 27)).wrapping_mul(0x94D0_49BB_1331_11EB);
        z ^ (z >> 31)
    }
    /// uniform in 0..n (n > 0)
    pub fn below(&mut self, n: usize) -> usize {
        (self.next() % (n as u64)) as usize
    }
    pub fn range(&mut self, lo: usize, hi_inclusive: usize) -> usize {
        lo + self.below(hi_inclusive - lo + 1)
    }
    pub fn chance(&mut self, num: usize, den: usize) -> bool {
        self.below(den) < num
    }
    pub fn pick<'a, T>(&mut self, items: &'a [T]) -> &'a T {
        &items[self.below(items.len())]
    }
}

pub fn fnv1a(s: &str) -> u64 {
    let mut h: u64 = 0xcbf2_9ce4_8422_2325;
    for b in s.as_bytes() {
        h ^= *b as u64;
        h = h.wrapping_mul(0x0000_0100_0000_01b3);
    }
    h
}

pub struct Args {
    pub tier: String,
    pub seed: u64,
    pub out: PathBuf,
    pub replay: Option<String>,
}

impl Args {
    pub fn parse() -> Self {
        let mut tier = std::env::var("VERIF_TIER").unwrap_or_else(|_| "quick".into());
        let mut seed: u64 = std::env::var("VERIF_SEED")
            .ok()
            .and_then(|s| s.parse().ok())
            .unwrap_or(1);
        let mut out = PathBuf::from("run");
        let mut replay = None;
        let argv: Vec<String> = std::env::args().collect();
        let mut i = 1;
        while i < argv.len() {
            match argv[i].as_str() {
                "--tier" => {
                    tier = argv[i + 1].clone();
                    i += 1
                }
                "--seed" => {
                    seed = argv[i + 1].parse().expect("seed");
                    i += 1
                }
                "--out" => {
                    out = PathBuf::from(&argv[i + 1]);
                    i += 1
                }
                "--replay" => {
                    replay = Some(argv[i + 1].clone());
                    i += 1
                }
                other => panic!("unknown argument {other}"),
            }
            i += 1;
        }
        Args { tier, seed, out, replay }
    }
    pub fn thorough(&self) -> bool {
        self.tier == "thorough"
    }
}

/// Collects cases into Coq shard files plus the bookkeeping the `check` driver needs.
pub struct Run {
    dir: PathBuf,
    header: String,
    /// Coq expression applied to the list `cases`, e.g. `failing None`
    eval: String,
    /// Coq type of one case (for the `Definition cases : list (...)` annotation)
    case_type: String,
    per_shard: usize,
    shard_cases: Vec<String>,
    shard_index: usize,
    cases_txt: fs::File,
    pub evaluations: u64,
    distinct: HashSet<u64>,
    pub distinct_nontrivial: u64,
    samples: Vec<serde_json::Value>,
    pub max_samples: usize,
    distribution: std::collections::BTreeMap<String, u64>,
    process_failures: Vec<serde_json::Value>,
    known_hits: std::collections::BTreeMap<String, u64>,
    notes: Vec<String>,
}

impl Run {
    pub fn new(dir: &Path, header: &str, case_type: &str, eval: &str, per_shard: usize) -> Self {
        let _ = fs::remove_dir_all(dir);
        fs::create_dir_all(dir).expect("create run dir");
        let cases_txt = fs::File::create(dir.join("cases.txt")).expect("cases.txt");
        Run {
            dir: dir.to_path_buf(),
            header: header.to_string(),
            eval: eval.to_string(),
            case_type: case_type.to_string(),
            per_shard,
            shard_cases: Vec::new(),
            shard_index: 0,
            cases_txt,
            evaluations: 0,
            distinct: HashSet::new(),
            distinct_nontrivial: 0,
            samples: Vec::new(),
            max_samples: 6,
            distribution: Default::default(),
            process_failures: Vec::new(),
            known_hits: Default::default(),
            notes: Vec::new(),
        }
    }

    /// Add one case.  `coq` is the Gallina literal of the case (input and the implementation's
    /// observed output); `desc` a one-line replayable description; `nontrivial` by the property's
    /// rule; `known` the known-finding class the case falls in, if any.
    pub fn case(&mut self, coq: String, desc: &str, nontrivial: bool, known: Option<&str>) {
        self.evaluations += 1;
        if self.distinct.insert(fnv1a(desc)) && nontrivial {
            self.distinct_nontrivial += 1;
            if self.samples.len() < self.max_samples && self.evaluations % 7 == 1 {
                self.samples.push(serde_json::Value::String(desc.to_string()));
            }
        }
        if let Some(k) = known {
            *self.known_hits.entry(k.to_string()).or_default() += 1;
        }
        let desc1 = desc.replace('\n', "\\n");
        writeln!(
            self.cases_txt,
            "{} {} {} {}",
            self.shard_index,
            self.shard_cases.len(),
            known.unwrap_or("-"),
            desc1
        )
        .unwrap();
        self.shard_cases.push(coq);
        if self.shard_cases.len() >= self.per_shard {
            self.flush();
        }
    }

    pub fn count(&mut self, key: &str) {
        *self.distribution.entry(key.to_string()).or_default() += 1;
    }
    pub fn count_n(&mut self, key: &str, n: u64) {
        *self.distribution.entry(key.to_string()).or_default() += n;
    }
    pub fn note(&mut self, s: &str) {
        self.notes.push(s.to_string());
    }
    pub fn sample(&mut self, v: serde_json::Value) {
        if self.samples.len() < self.max_samples + 4 {
            self.samples.push(v);
        }
    }

    /// A failure observed at process level (panic, abort, timeout, or an oracle that lives in the
    /// harness).  `known` = known-finding id if this input is in a listed class.
    pub fn process_failure(&mut self, what: &str, input: &str, known: Option<&str>) {
        self.process_failures.push(serde_json::json!({
            "what": what, "input": input, "known": known
        }));
    }

    fn flush(&mut self) {
        if self.shard_cases.is_empty() {
            return;
        }
        let mut s = String::new();
        s.push_str(&self.header);
        s.push('\n');
        let _ = writeln!(s, "Definition cases : list ({}) := [", self.case_type);
        for (i, c) in self.shard_cases.iter().enumerate() {
            s.push_str("  ");
            s.push_str(c);
            if i + 1 < self.shard_cases.len() {
                s.push(';');
            }
            s.push('\n');
        }
        s.push_str("].\n");
        let _ = writeln!(s, "Eval vm_compute in ({} cases).", self.eval);
        fs::write(self.dir.join(format!("shard_{}.v", self.shard_index)), s).unwrap();
        self.shard_index += 1;
        self.shard_cases.clear();
    }

    pub fn finish(mut self, rule: &str, exhaustive: bool, extra: serde_json::Value) {
        self.flush();
        let meta = serde_json::json!({
            "evaluations": self.evaluations,
            "distinct": self.distinct.len(),
            "distinct_nontrivial": self.distinct_nontrivial,
            "rule": rule,
            "exhaustive": exhaustive,
            "samples": self.samples,
            "distribution": self.distribution,
            "shards": self.shard_index,
            "process_failures": self.process_failures,
            "known_hits": self.known_hits,
            "notes": self.notes,
            "extra": extra,
        });
        fs::write(
            self.dir.join("meta.json"),
            serde_json::to_string_pretty(&meta).unwrap(),
        )
        .unwrap();
    }
}

/// Run `f`, converting a panic into `Err(message)`.  The panic hook is silenced once.
pub fn catch<T>(f: impl FnOnce() -> T + std::panic::UnwindSafe) -> Result<T, String> {
    static ONCE: std::sync::Once = std::sync::Once::new();
    ONCE.call_once(|| std::panic::set_hook(Box::new(|_| {})));
    std::panic::catch_unwind(f).map_err(|e| {
        if let Some(s) = e.downcast_ref::<&str>() {
            s.to_string()
        } else if let Some(s) = e.downcast_ref::<String>() {
            s.clone()
        } else {
            "panic".to_string()
        }
    })
}
