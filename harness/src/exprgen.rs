//! Shared expression generators / printers for the expression properties (C13, C12, C03).
//! Included with `#[path = "../exprgen.rs"] mod exprgen;` from the bins.
#![allow(dead_code)]
use num_complex::Complex64;
use quil_rs::expression::{
    Expression, ExpressionFunction, FunctionCallExpression, InfixExpression, InfixOperator,
    PrefixExpression, PrefixOperator,
};
use quil_rs::instruction::MemoryReference;

pub const VAR_NAMES: [&str; 4] = ["x", "y", "z", "w"];
pub const REGION_NAMES: [&str; 3] = ["a", "b", "theta"];

#[derive(Clone, Copy, Debug, PartialEq, Eq, Hash)]
pub enum F {
    Cis,
    Cos,
    Exp,
    Sin,
    Sqrt,
}
#[derive(Clone, Copy, Debug, PartialEq, Eq, Hash)]
pub enum Op {
    Caret,
    Plus,
    Minus,
    Slash,
    Star,
}
pub const ALL_F: [F; 5] = [F::Cis, F::Cos, F::Exp, F::Sin, F::Sqrt];
pub const ALL_OP: [Op; 5] = [Op::Caret, Op::Plus, Op::Minus, Op::Slash, Op::Star];

/// Mirror of the Coq type `expr`: seven constructors as in `Expression`, names interned.
#[derive(Clone, Debug, PartialEq)]
pub enum E {
    Num(f64, f64),
    Pi,
    Var(usize),
    Addr(usize, u64),
    Fn(F, Box<E>),
    /// `true` = minus, `false` = plus
    Prefix(bool, Box<E>),
    Infix(Box<E>, Op, Box<E>),
}

/// A one-child node kind, for the enumerators.
#[derive(Clone, Copy, Debug, PartialEq)]
pub enum U {
    Fn(F),
    Neg,
    Pos,
}

impl E {
    pub fn fnc(f: F, e: E) -> E {
        E::Fn(f, Box::new(e))
    }
    pub fn neg(e: E) -> E {
        E::Prefix(true, Box::new(e))
    }
    pub fn pos(e: E) -> E {
        E::Prefix(false, Box::new(e))
    }
    pub fn infix(l: E, o: Op, r: E) -> E {
        E::Infix(Box::new(l), o, Box::new(r))
    }
    pub fn unary(u: U, e: E) -> E {
        match u {
            U::Fn(f) => E::fnc(f, e),
            U::Neg => E::neg(e),
            U::Pos => E::pos(e),
        }
    }
    pub fn size(&self) -> usize {
        match self {
            E::Fn(_, a) | E::Prefix(_, a) => 1 + a.size(),
            E::Infix(l, _, r) => 1 + l.size() + r.size(),
            _ => 1,
        }
    }
    pub fn depth(&self) -> usize {
        match self {
            E::Fn(_, a) | E::Prefix(_, a) => 1 + a.depth(),
            E::Infix(l, _, r) => 1 + l.depth().max(r.depth()),
            _ => 0,
        }
    }
    pub fn vars(&self, out: &mut Vec<usize>) {
        match self {
            E::Var(x) => {
                if !out.contains(x) {
                    out.push(*x)
                }
            }
            E::Fn(_, a) | E::Prefix(_, a) => a.vars(out),
            E::Infix(l, _, r) => {
                l.vars(out);
                r.vars(out)
            }
            _ => {}
        }
    }
    pub fn addrs(&self, out: &mut Vec<(usize, u64)>) {
        match self {
            E::Addr(n, i) => out.push((*n, *i)),
            E::Fn(_, a) | E::Prefix(_, a) => a.addrs(out),
            E::Infix(l, _, r) => {
                l.addrs(out);
                r.addrs(out)
            }
            _ => {}
        }
    }
    pub fn any(&self, p: &dyn Fn(&E) -> bool) -> bool {
        if p(self) {
            return true;
        }
        match self {
            E::Fn(_, a) | E::Prefix(_, a) => a.any(p),
            E::Infix(l, _, r) => l.any(p) || r.any(p),
            _ => false,
        }
    }
    /// all subexpressions, pre-order
    pub fn subterms<'a>(&'a self, out: &mut Vec<&'a E>) {
        out.push(self);
        match self {
            E::Fn(_, a) | E::Prefix(_, a) => a.subterms(out),
            E::Infix(l, _, r) => {
                l.subterms(out);
                r.subterms(out)
            }
            _ => {}
        }
    }
}

pub fn f_impl(f: F) -> ExpressionFunction {
    match f {
        F::Cis => ExpressionFunction::Cis,
        F::Cos => ExpressionFunction::Cosine,
        F::Exp => ExpressionFunction::Exponent,
        F::Sin => ExpressionFunction::Sine,
        F::Sqrt => ExpressionFunction::SquareRoot,
    }
}
pub fn f_model(f: ExpressionFunction) -> F {
    match f {
        ExpressionFunction::Cis => F::Cis,
        ExpressionFunction::Cosine => F::Cos,
        ExpressionFunction::Exponent => F::Exp,
        ExpressionFunction::Sine => F::Sin,
        ExpressionFunction::SquareRoot => F::Sqrt,
    }
}
pub fn op_impl(o: Op) -> InfixOperator {
    match o {
        Op::Caret => InfixOperator::Caret,
        Op::Plus => InfixOperator::Plus,
        Op::Minus => InfixOperator::Minus,
        Op::Slash => InfixOperator::Slash,
        Op::Star => InfixOperator::Star,
    }
}
pub fn op_model(o: InfixOperator) -> Op {
    match o {
        InfixOperator::Caret => Op::Caret,
        InfixOperator::Plus => Op::Plus,
        InfixOperator::Minus => Op::Minus,
        InfixOperator::Slash => Op::Slash,
        InfixOperator::Star => Op::Star,
    }
}

/// Build the real `Expression`.
pub fn to_impl(e: &E) -> Expression {
    match e {
        E::Num(re, im) => Expression::Number(Complex64::new(*re, *im)),
        E::Pi => Expression::PiConstant(),
        E::Var(x) => Expression::Variable(VAR_NAMES[*x].to_string()),
        E::Addr(n, i) => Expression::Address(MemoryReference {
            name: REGION_NAMES[*n].to_string(),
            index: *i,
        }),
        E::Fn(f, a) => {
            Expression::FunctionCall(FunctionCallExpression::new(f_impl(*f), to_impl(a).into()))
        }
        E::Prefix(minus, a) => Expression::Prefix(PrefixExpression::new(
            if *minus { PrefixOperator::Minus } else { PrefixOperator::Plus },
            to_impl(a).into(),
        )),
        E::Infix(l, o, r) => Expression::Infix(InfixExpression::new(
            to_impl(l).into(),
            op_impl(*o),
            to_impl(r).into(),
        )),
    }
}

/// Abstract an `Expression` produced by the implementation.  Names outside the tables map to
/// index 99 (never generated, so a comparison with the model fails visibly).
pub fn from_impl(e: &Expression) -> E {
    match e {
        Expression::Number(c) => E::Num(c.re, c.im),
        Expression::PiConstant() => E::Pi,
        Expression::Variable(v) => E::Var(VAR_NAMES.iter().position(|n| n == v).unwrap_or(99)),
        Expression::Address(m) => E::Addr(
            REGION_NAMES.iter().position(|n| *n == m.name).unwrap_or(99),
            m.index,
        ),
        Expression::FunctionCall(fc) => E::fnc(f_model(fc.function), from_impl(&fc.expression)),
        Expression::Prefix(p) => E::Prefix(
            matches!(p.operator, PrefixOperator::Minus),
            Box::new(from_impl(&p.expression)),
        ),
        Expression::Infix(i) => {
            E::infix(from_impl(&i.left), op_model(i.operator), from_impl(&i.right))
        }
    }
}

// ---------------------------------------------------------------------------------------------
// exact numbers

/// A finite double as an exact fraction `num / 2^k`, if it is small enough to print
/// (|num| < 2^62, k <= 62).  `-0.0` maps to 0.
pub fn dyadic(v: f64) -> Option<(i64, u32)> {
    if !v.is_finite() {
        return None;
    }
    if v == 0.0 {
        return Some((0, 0));
    }
    let bits = v.to_bits();
    let sign = if (bits >> 63) != 0 { -1i64 } else { 1 };
    let exp = ((bits >> 52) & 0x7ff) as i64;
    let frac = bits & ((1u64 << 52) - 1);
    let (mut m, mut e) = if exp == 0 { (frac, -1074i64) } else { (frac | (1u64 << 52), exp - 1075) };
    while m & 1 == 0 {
        m >>= 1;
        e += 1;
    }
    if e >= 0 {
        // the value m * 2^e must fit the i64 numerator printed by `q` (it used to be cut at e <= 8,
        // which made exactly representable results such as 1024 = 2^10 "not printable" and produced
        // a false model/implementation disagreement in the C13 thorough tier)
        if e > 62 || m >= (1u64 << 53) || ((m as u128) << e) >= (1u128 << 62) {
            return None;
        }
        Some((sign * ((m << e) as i64), 0))
    } else {
        if -e > 62 {
            return None;
        }
        Some((sign * (m as i64), (-e) as u32))
    }
}

/// Coq `Q` literal of a double (must be `dyadic`).
pub fn q(v: f64) -> String {
    let (n, k) = dyadic(v).unwrap_or_else(|| panic!("not an exactly printable double: {v}"));
    let den: u64 = 1u64 << k;
    if n < 0 {
        format!("(({n}) # {den})%Q")
    } else {
        format!("({n} # {den})%Q")
    }
}
pub fn gq(re: f64, im: f64) -> String {
    format!("({}, {})", q(re), q(im))
}
/// `option gq`: `None` if a part is not exactly printable.
pub fn xc(c: Complex64) -> String {
    if dyadic(c.re).is_some() && dyadic(c.im).is_some() {
        format!("(Some {})", gq(c.re, c.im))
    } else {
        "None".to_string()
    }
}

pub fn f_coq(f: F) -> &'static str {
    match f {
        F::Cis => "Cis",
        F::Cos => "Cos",
        F::Exp => "Exp",
        F::Sin => "Sin",
        F::Sqrt => "Sqrt",
    }
}
pub fn op_coq(o: Op) -> &'static str {
    match o {
        Op::Caret => "Caret",
        Op::Plus => "Plus",
        Op::Minus => "Minus",
        Op::Slash => "Slash",
        Op::Star => "Star",
    }
}

/// Gallina literal of type `expr gq` (every literal must be exactly printable).
pub fn coq(e: &E) -> String {
    coq_with(e, &|re, im| gq(re, im))
}
/// Gallina literal of type `expr (option gq)`: literals that are not exactly printable are `None`.
pub fn coq_opt(e: &E) -> String {
    coq_with(e, &|re, im| xc(Complex64::new(re, im)))
}
pub fn coq_with(e: &E, lit: &dyn Fn(f64, f64) -> String) -> String {
    match e {
        E::Num(re, im) => format!("Num {}", lit(*re, *im)),
        E::Pi => "Pi".to_string(),
        E::Var(x) => format!("Var {x}"),
        E::Addr(n, i) => format!("Addr {n} {i}"),
        E::Fn(f, a) => format!("Fn {} ({})", f_coq(*f), coq_with(a, lit)),
        E::Prefix(m, a) => format!(
            "Prefix {} ({})",
            if *m { "PMinus" } else { "PPlus" },
            coq_with(a, lit)
        ),
        E::Infix(l, o, r) => format!(
            "Infix ({}) {} ({})",
            coq_with(l, lit),
            op_coq(*o),
            coq_with(r, lit)
        ),
    }
}

/// Replayable one-line rendering, fully parenthesised (independent of the Quil printer).
pub fn show(e: &E) -> String {
    match e {
        E::Num(re, im) => {
            if *im == 0.0 {
                format!("{re}")
            } else {
                format!("<{re},{im}>")
            }
        }
        E::Pi => "pi".to_string(),
        E::Var(x) => format!("%{}", VAR_NAMES.get(*x).unwrap_or(&"?")),
        E::Addr(n, i) => format!("{}[{i}]", REGION_NAMES.get(*n).unwrap_or(&"?")),
        E::Fn(f, a) => format!("{}({})", f_coq(*f).to_lowercase(), show(a)),
        E::Prefix(m, a) => format!("({}{})", if *m { "-" } else { "+" }, show(a)),
        E::Infix(l, o, r) => format!(
            "({}{}{})",
            show(l),
            match o {
                Op::Caret => "^",
                Op::Plus => "+",
                Op::Minus => "-",
                Op::Slash => "/",
                Op::Star => "*",
            },
            show(r)
        ),
    }
}

// ---------------------------------------------------------------------------------------------
// generators

pub struct Alphabet {
    pub leaves: Vec<E>,
    pub unary: Vec<U>,
    pub binary: Vec<Op>,
}

/// All trees over the alphabet with depth <= `max_depth` and at most `max_nodes` nodes, each
/// exactly once, smaller node counts first.
pub fn enumerate(al: &Alphabet, max_depth: usize, max_nodes: usize) -> Vec<E> {
    // by_size[n] = all trees with exactly n nodes and depth <= max_depth
    let mut by_size: Vec<Vec<E>> = vec![Vec::new(); max_nodes + 1];
    if max_nodes >= 1 {
        by_size[1] = al.leaves.clone();
    }
    for n in 2..=max_nodes {
        let mut cur = Vec::new();
        for u in &al.unary {
            for a in &by_size[n - 1] {
                if a.depth() + 1 <= max_depth {
                    cur.push(E::unary(*u, a.clone()));
                }
            }
        }
        for nl in 1..n - 1 {
            let nr = n - 1 - nl;
            if nr < 1 {
                continue;
            }
            for o in &al.binary {
                for l in &by_size[nl] {
                    if l.depth() + 1 > max_depth {
                        continue;
                    }
                    for r in &by_size[nr] {
                        if r.depth() + 1 > max_depth {
                            continue;
                        }
                        cur.push(E::infix(l.clone(), *o, r.clone()));
                    }
                }
            }
        }
        by_size[n] = cur;
    }
    by_size.into_iter().flatten().collect()
}

/// A random tree of depth <= `depth`; interior nodes are preferred while depth remains.
pub fn random(al: &Alphabet, rng: &mut qv::Rng, depth: usize) -> E {
    if depth == 0 || rng.chance(1, 5) {
        return rng.pick(&al.leaves).clone();
    }
    if !al.unary.is_empty() && rng.chance(1, 3) {
        let u = *rng.pick(&al.unary);
        E::unary(u, random(al, rng, depth - 1))
    } else {
        let o = *rng.pick(&al.binary);
        let l = random(al, rng, depth - 1);
        // repeat a subtree now and then: many rewrite rules need equal operands
        let r = if rng.chance(1, 6) { l.clone() } else { random(al, rng, depth - 1) };
        E::infix(l, o, r)
    }
}

pub fn mutant() -> u32 {
    std::env::var("QV_MUTANT").ok().and_then(|s| s.parse().ok()).unwrap_or(0)
}
