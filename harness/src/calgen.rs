//! Shared by the C17 and C19 harnesses: abstraction of quil-rs programs, instructions and
//! calibration source maps into Gallina literals of `Model/CalExpandFull.v`, and the generators of
//! calibration programs (Quil text).
#![allow(dead_code)]
use qv::{gallina as g, Rng};
use quil_rs::expression::{Expression, InfixOperator, PrefixOperator};
use quil_rs::instruction::{
    ArithmeticOperand, FrameIdentifier, Instruction, MemoryReference, PragmaArgument, Qubit,
    ScalarType, WaveformInvocation,
};
use quil_rs::program::{
    CalibrationExpansion, CalibrationSource, ExpansionResult, InstructionIndex, SourceMap,
};
use quil_rs::Program;
use std::collections::HashMap;

pub type Map = SourceMap<InstructionIndex, ExpansionResult<CalibrationExpansion>>;

/// Names are interned to numbers; `LOAD-MEMORY` is always 0 (the model's `load_memory`).
pub struct Interner {
    map: HashMap<String, u64>,
}

impl Interner {
    pub fn new() -> Self {
        let mut map = HashMap::new();
        map.insert("LOAD-MEMORY".to_string(), 0);
        Interner { map }
    }
    pub fn id(&mut self, s: &str) -> String {
        let n = self.map.len() as u64;
        let v = *self.map.entry(s.to_string()).or_insert(n);
        format!("{v}")
    }
}

type R = Result<String, String>;

fn opt(o: Option<String>) -> String {
    g::option(o)
}

impl Interner {
    pub fn qubit(&mut self, q: &Qubit) -> R {
        Ok(match q {
            Qubit::Fixed(n) => format!("QF {n}"),
            Qubit::Variable(v) => format!("QV {}", self.id(&format!("qvar:{v}"))),
            Qubit::Placeholder(_) => return Err("placeholder qubit".into()),
        })
    }
    pub fn qubits(&mut self, qs: &[Qubit]) -> R {
        let v: Result<Vec<_>, _> = qs.iter().map(|q| self.qubit(q)).collect();
        Ok(g::list(&v?))
    }
    pub fn memref(&mut self, m: &MemoryReference) -> String {
        format!("({}, {})", self.id(&format!("region:{}", m.name)), m.index)
    }
    pub fn expr(&mut self, e: &Expression) -> R {
        Ok(match e {
            Expression::Number(c) => {
                if c.im != 0.0 || c.re.fract() != 0.0 || c.re.abs() > 1e9 {
                    return Err(format!("non-integer number {c}"));
                }
                format!("ENum {}", g::z(c.re as i64))
            }
            Expression::PiConstant() => "EPi".to_string(),
            Expression::Variable(v) => format!("EVar {}", self.id(&format!("pvar:{v}"))),
            Expression::Address(m) => format!("EAddr {}", self.memref(m)),
            Expression::Prefix(p) => match p.operator {
                PrefixOperator::Minus => format!("ENeg ({})", self.expr(&p.expression)?),
                PrefixOperator::Plus => return Err("prefix plus".into()),
            },
            Expression::Infix(i) => {
                let op = match i.operator {
                    InfixOperator::Plus => 0,
                    InfixOperator::Minus => 1,
                    InfixOperator::Star => 2,
                    InfixOperator::Slash => 3,
                    InfixOperator::Caret => 4,
                };
                format!("EBin {op} ({}) ({})", self.expr(&i.left)?, self.expr(&i.right)?)
            }
            Expression::FunctionCall(f) => {
                format!("EFun {} ({})", self.id(&format!("fn:{}", f.function)), self.expr(&f.expression)?)
            }
        })
    }
    pub fn exprs(&mut self, es: &[Expression]) -> R {
        let v: Result<Vec<_>, _> = es.iter().map(|e| self.expr(e)).collect();
        Ok(g::list(&v?))
    }
    pub fn frame(&mut self, f: &FrameIdentifier) -> R {
        Ok(format!("({}, {})", self.qubits(&f.qubits)?, self.id(&format!("frame:{}", f.name))))
    }
    pub fn wform(&mut self, w: &WaveformInvocation) -> R {
        let mut ps = Vec::new();
        for (k, v) in w.parameters.iter() {
            ps.push(format!("({}, {})", self.id(&format!("wparam:{k}")), self.expr(v)?));
        }
        Ok(format!("({}, {})", self.id(&format!("wf:{}", w.name)), g::list(&ps)))
    }
    fn pdata(&mut self, s: &str) -> String {
        // a printed memory reference `name[i]`, or a bare word
        if let Some(open) = s.find('[') {
            if s.ends_with(']') {
                if let Ok(i) = s[open + 1..s.len() - 1].parse::<u64>() {
                    return format!("PRef ({}, {i})", self.id(&format!("region:{}", &s[..open])));
                }
            }
        }
        format!("PName {}", self.id(&format!("region:{s}")))
    }
    pub fn instr(&mut self, i: &Instruction) -> R {
        Ok(match i {
            Instruction::Gate(gt) => {
                if !gt.modifiers.is_empty() {
                    return Err("gate modifiers".into());
                }
                format!(
                    "IGate {} {} {}",
                    self.id(&format!("gate:{}", gt.name)),
                    self.exprs(&gt.parameters)?,
                    self.qubits(&gt.qubits)?
                )
            }
            Instruction::Measurement(m) => format!(
                "IMeasure {} ({}) {}",
                opt(m.name.as_ref().map(|n| self.id(&format!("mname:{n}")))),
                self.qubit(&m.qubit)?,
                opt(m.target.as_ref().map(|t| self.memref(t)))
            ),
            Instruction::Reset(r) => {
                let q = match &r.qubit {
                    Some(q) => Some(format!("({})", self.qubit(q)?)),
                    None => None,
                };
                format!("IReset {}", opt(q))
            }
            Instruction::Fence(f) => format!("IFence {}", self.qubits(&f.qubits)?),
            Instruction::Delay(d) => {
                let fs: Vec<String> = d.frame_names.iter().map(|n| self.id(&format!("frame:{n}"))).collect();
                format!("IDelay {} {} ({})", self.qubits(&d.qubits)?, g::list(&fs), self.expr(&d.duration)?)
            }
            Instruction::Pulse(p) => format!(
                "IPulse {} {} {}",
                g::boolean(p.blocking),
                self.frame(&p.frame)?,
                self.wform(&p.waveform)?
            ),
            Instruction::Capture(c) => format!(
                "ICapture {} {} {} {}",
                g::boolean(c.blocking),
                self.frame(&c.frame)?,
                self.memref(&c.memory_reference),
                self.wform(&c.waveform)?
            ),
            Instruction::RawCapture(c) => format!(
                "IRawCapture {} {} ({}) {}",
                g::boolean(c.blocking),
                self.frame(&c.frame)?,
                self.expr(&c.duration)?,
                self.memref(&c.memory_reference)
            ),
            Instruction::SetFrequency(s) => format!("IFrameSet 0 {} ({})", self.frame(&s.frame)?, self.expr(&s.frequency)?),
            Instruction::SetPhase(s) => format!("IFrameSet 1 {} ({})", self.frame(&s.frame)?, self.expr(&s.phase)?),
            Instruction::SetScale(s) => format!("IFrameSet 2 {} ({})", self.frame(&s.frame)?, self.expr(&s.scale)?),
            Instruction::ShiftFrequency(s) => format!("IFrameSet 3 {} ({})", self.frame(&s.frame)?, self.expr(&s.frequency)?),
            Instruction::ShiftPhase(s) => format!("IFrameSet 4 {} ({})", self.frame(&s.frame)?, self.expr(&s.phase)?),
            Instruction::SwapPhases(s) => format!("ISwapPhases {} {}", self.frame(&s.frame_1)?, self.frame(&s.frame_2)?),
            Instruction::Move(m) => {
                let src = match &m.source {
                    ArithmeticOperand::LiteralInteger(i) => format!("(OInt {})", g::z(*i)),
                    ArithmeticOperand::MemoryReference(r) => format!("(ORef {})", self.memref(r)),
                    ArithmeticOperand::LiteralReal(_) => return Err("real literal".into()),
                };
                format!("IMove {} {}", self.memref(&m.destination), src)
            }
            Instruction::Load(l) => format!(
                "ILoad {} {} {}",
                self.memref(&l.destination),
                self.id(&format!("region:{}", l.source)),
                self.memref(&l.offset)
            ),
            Instruction::Declaration(d) => {
                if d.sharing.is_some() {
                    return Err("sharing".into());
                }
                format!(
                    "IDeclare {} {} {}",
                    self.id(&format!("region:{}", d.name)),
                    scalar(&d.size.data_type),
                    d.size.length
                )
            }
            Instruction::Pragma(p) => {
                if p.name == "EXTERN" {
                    return Err("PRAGMA EXTERN".into());
                }
                let name = if p.name == "LOAD-MEMORY" { "0".to_string() } else { self.id(&format!("pragma:{}", p.name)) };
                let mut args = Vec::new();
                for a in &p.arguments {
                    args.push(match a {
                        PragmaArgument::Identifier(s) => self.id(&format!("parg:{s}")),
                        PragmaArgument::Integer(n) => self.id(&format!("pint:{n}")),
                    });
                }
                let data = p.data.as_ref().map(|s| format!("({})", self.pdata(s)));
                format!("IPragma {} {} {}", name, g::list(&args), opt(data))
            }
            Instruction::Nop() => "IOther 0".to_string(),
            Instruction::Halt() => "IOther 1".to_string(),
            Instruction::Wait() => "IOther 2".to_string(),
            other => return Err(format!("unsupported instruction {other:?}")),
        })
    }
    pub fn instrs<'a>(&mut self, is: impl IntoIterator<Item = &'a Instruction>) -> R {
        let v: Result<Vec<_>, _> = is.into_iter().map(|i| self.instr(i)).collect();
        Ok(g::list(&v?))
    }
    pub fn cals(&mut self, p: &Program) -> R {
        let mut gs = Vec::new();
        for c in p.calibrations.iter_calibrations() {
            if !c.identifier.modifiers.is_empty() {
                return Err("calibration modifiers".into());
            }
            gs.push(format!(
                "{{| gc_name := {}; gc_params := {}; gc_qubits := {}; gc_body := {} |}}",
                self.id(&format!("gate:{}", c.identifier.name)),
                self.exprs(&c.identifier.parameters)?,
                self.qubits(&c.identifier.qubits)?,
                self.instrs(&c.instructions)?
            ));
        }
        let mut ms = Vec::new();
        for c in p.calibrations.iter_measure_calibrations() {
            ms.push(format!(
                "{{| mc_name := {}; mc_qubit := {}; mc_target := {}; mc_body := {} |}}",
                opt(c.identifier.name.as_ref().map(|n| self.id(&format!("mname:{n}")))),
                self.qubit(&c.identifier.qubit)?,
                opt(c.identifier.target.as_ref().map(|n| self.id(&format!("region:{n}")))),
                self.instrs(&c.instructions)?
            ));
        }
        Ok(format!("{{| gcals := {}; mcals := {} |}}", g::list(&gs), g::list(&ms)))
    }
    /// memory regions (in `IndexMap` order) and body
    pub fn program(&mut self, p: &Program) -> R {
        let mut rs = Vec::new();
        for (name, r) in p.memory_regions.iter() {
            if r.sharing.is_some() {
                return Err("sharing".into());
            }
            rs.push(format!(
                "({}, ({}, {}))",
                self.id(&format!("region:{name}")),
                scalar(&r.size.data_type),
                r.size.length
            ));
        }
        Ok(format!(
            "{{| regions := {}; body := {} |}}",
            g::list(&rs),
            self.instrs(p.body_instructions())?
        ))
    }
    pub fn calsrc(&mut self, s: &CalibrationSource) -> R {
        Ok(match s {
            CalibrationSource::Calibration(c) => {
                if !c.modifiers.is_empty() {
                    return Err("calibration modifiers".into());
                }
                format!(
                    "(CSGate {} {} {})",
                    self.id(&format!("gate:{}", c.name)),
                    self.exprs(&c.parameters)?,
                    self.qubits(&c.qubits)?
                )
            }
            CalibrationSource::MeasureCalibration(c) => format!(
                "(CSMeas {} ({}) {})",
                opt(c.name.as_ref().map(|n| self.id(&format!("mname:{n}")))),
                self.qubit(&c.qubit)?,
                opt(c.target.as_ref().map(|n| self.id(&format!("region:{n}"))))
            ),
        })
    }
    pub fn tree(&mut self, m: &Map) -> Result<Vec<Ent>, String> {
        let mut v = Vec::new();
        for e in m.entries() {
            let s = e.source_location().0;
            v.push(match e.target_location() {
                ExpansionResult::Unmodified(t) => Ent::Unmod(s, t.0),
                ExpansionResult::Rewritten(x) => self.rewritten_tree(s, x)?,
            });
        }
        Ok(v)
    }
    pub fn rewritten_tree(&mut self, s: usize, x: &CalibrationExpansion) -> Result<Ent, String> {
        Ok(Ent::Rewr(
            s,
            self.calsrc(x.calibration_used())?,
            x.range().start.0,
            x.range().end.0,
            self.tree(x.expansions())?,
        ))
    }
    pub fn entries(&mut self, m: &Map) -> R {
        Ok(print_entries(&self.tree(m)?))
    }
    pub fn rewritten(&mut self, s: usize, x: &CalibrationExpansion) -> R {
        Ok(self.rewritten_tree(s, x)?.print())
    }
}

/// A source-map entry in the shape of the model's `entry`.
#[derive(Clone, Debug)]
pub enum Ent {
    Unmod(usize, usize),
    Rewr(usize, String, usize, usize, Vec<Ent>),
}

impl Ent {
    pub fn print(&self) -> String {
        match self {
            Ent::Unmod(s, t) => format!("EUnmod {s} {t}"),
            Ent::Rewr(s, src, lo, hi, sub) => format!("ERewr {s} {src} {lo} {hi} {}", print_entries(sub)),
        }
    }
}

pub fn print_entries(v: &[Ent]) -> String {
    g::list(&v.iter().map(|e| e.print()).collect::<Vec<_>>())
}

fn scalar(t: &ScalarType) -> u64 {
    match t {
        ScalarType::Bit => 0,
        ScalarType::Integer => 1,
        ScalarType::Octet => 2,
        ScalarType::Real => 3,
    }
}

/// Calibration identifiers used anywhere in a source map (depth first).
pub fn used_sources(m: &Map, out: &mut Vec<CalibrationSource>) {
    for e in m.entries() {
        if let ExpansionResult::Rewritten(x) = e.target_location() {
            out.push(x.calibration_used().clone());
            used_sources(x.expansions(), out);
        }
    }
}

// ---------------------------------------------------------------------------------------------
// Generators (Quil text)
// ---------------------------------------------------------------------------------------------

pub const PRELUDE: &str = "DECLARE ro BIT[2]\nDECLARE other BIT[2]\n";

pub const GATE_HEADS: [&str; 4] = ["A q", "A 0", "A(%t) q", "A(1) 0"];
pub const GATE_BODY_POOL: [&str; 14] = [
    "FENCE q",
    "RESET q",
    "MEASURE q ro[0]",
    "SWAP-PHASES q \"f\" q \"g\"",
    "DELAY q (%t)",
    "SHIFT-PHASE q \"f\" -%t",
    "PULSE q \"f\" flat(duration: %t, iq: 1)",
    "CAPTURE q \"f\" flat(duration: 1, iq: 1) ro[1]",
    "RAW-CAPTURE q \"f\" %t other[0]",
    "B(%t) q",
    "B(2*%t) 0",
    "DECLARE mem BIT[1]",
    "MOVE ro[0] 1",
    "NOP",
];
pub const GATE_PROGRAMS: [&str; 4] = ["A 0", "A 1", "A(1) 0", "A(2) 1"];
pub const GATE_FIXED_CALS: &str = "DEFCAL B(%s) r:\n    SET-PHASE r \"g\" %s\n    NOP\nDEFCAL MEASURE 1 addr:\n    CAPTURE 1 \"f\" flat(duration: 1, iq: 1) addr\n";

pub const MEAS_HEADS: [&str; 4] = ["MEASURE q addr", "MEASURE 0 addr", "MEASURE q", "MEASURE 0"];
pub const MEAS_BODY_POOL: [&str; 12] = [
    "CAPTURE q \"f\" flat(duration: 1, iq: 1) addr",
    "CAPTURE q \"f\" flat(duration: 1, iq: 1) other[1]",
    "RAW-CAPTURE q \"f\" 1 addr",
    "MOVE addr 1",
    "MOVE other[0] addr",
    "PRAGMA LOAD-MEMORY \"addr\"",
    "FENCE q",
    "DELAY q 1",
    "A q",
    "DECLARE mem BIT[1]",
    "NOP",
    "RESET q",
];
pub const MEAS_PROGRAMS: [&str; 4] = ["MEASURE 0 ro[1]", "MEASURE 1 ro[0]", "MEASURE 0", "MEASURE 1"];
pub const MEAS_FIXED_CALS: &str = "DEFCAL A r:\n    FENCE r\n    NOP\n";

fn defcal(head: &str, body: &[&str]) -> String {
    let mut s = format!("DEFCAL {head}:\n");
    for b in body {
        s.push_str("    ");
        s.push_str(b);
        s.push('\n');
    }
    s
}

/// Exhaustive small scope: one generated calibration (every head x every body of length 1..=max
/// over the pool) next to fixed helper calibrations, applied to every program of the list.
pub fn exhaustive(max_body: usize, mut f: impl FnMut(&str, usize)) {
    for (heads, pool, progs, fixed) in [
        (&GATE_HEADS[..], &GATE_BODY_POOL[..], &GATE_PROGRAMS[..], GATE_FIXED_CALS),
        (&MEAS_HEADS[..], &MEAS_BODY_POOL[..], &MEAS_PROGRAMS[..], MEAS_FIXED_CALS),
    ] {
        for head in heads {
            let mut bodies: Vec<Vec<&str>> = pool.iter().map(|b| vec![*b]).collect();
            if max_body >= 2 {
                for a in pool {
                    for b in pool {
                        bodies.push(vec![*a, *b]);
                    }
                }
            }
            for body in &bodies {
                for prog in progs {
                    let text = format!("{PRELUDE}{}{fixed}{prog}\nH 0\n", defcal(head, body));
                    f(&text, body.len());
                }
            }
        }
    }
}

/// Exhaustive small scope for multi-parameter calibrations: arity 2 and 3, caller `U` with every
/// literal/variable pattern (L V, V L, L V V, V L V, L L V, ...), distinct variable names %a %b %c,
/// literal at position i = i+1; the body uses every variable (one frame instruction per variable, an
/// unmatched gate listing the parameters in order, and a nested call of `V` passing them in reverse
/// order); callee `V` again with every pattern; applied to `U` with pairwise distinct arguments in
/// the matching order and in a rotated order.
pub fn exhaustive_params(mut f: impl FnMut(&str)) {
    let cvars = ["a", "b", "c"];
    let kvars = ["x", "y", "z"];
    let kinds = ["SET-PHASE", "SHIFT-PHASE", "SET-SCALE"];
    for n in 2..=3usize {
        for cp in 0..(1u32 << n) {
            for kp in 0..(1u32 << n) {
                // caller
                let pat: Vec<String> = (0..n)
                    .map(|i| if cp >> i & 1 == 1 { format!("%{}", cvars[i]) } else { format!("{}", i + 1) })
                    .collect();
                let mut body: Vec<String> = Vec::new();
                for i in 0..n {
                    if cp >> i & 1 == 1 {
                        body.push(format!("{} q \"f\" %{}", kinds[i], cvars[i]));
                    }
                }
                body.push(format!("G({}) q", pat.join(", ")));
                let rev: Vec<String> = pat.iter().rev().cloned().collect();
                body.push(format!("V({}) q", rev.join(", ")));
                // callee: the caller passes n, n-1, .., 1 under the matching arguments
                let kpat: Vec<String> = (0..n)
                    .map(|j| if kp >> j & 1 == 1 { format!("%{}", kvars[j]) } else { format!("{}", n - j) })
                    .collect();
                let mut kbody: Vec<String> = Vec::new();
                for j in 0..n {
                    if kp >> j & 1 == 1 {
                        kbody.push(format!("{} r \"g\" %{}", kinds[j], kvars[j]));
                    }
                }
                let first = (0..n).find(|j| kp >> j & 1 == 1).map(|j| format!("%{}", kvars[j])).unwrap_or("1".to_string());
                kbody.push(format!("PULSE r \"f\" flat(duration: {first}, iq: 1)"));
                let matching: Vec<String> = (1..=n).map(|v| v.to_string()).collect();
                let mut rotated = matching.clone();
                rotated.rotate_left(1);
                for args in [&matching, &rotated] {
                    let text = format!(
                        "{PRELUDE}{}{}U({}) 0\nH 0\n",
                        defcal(&format!("U({}) q", pat.join(", ")), &body.iter().map(|s| s.as_str()).collect::<Vec<_>>()),
                        defcal(&format!("V({}) r", kpat.join(", ")), &kbody.iter().map(|s| s.as_str()).collect::<Vec<_>>()),
                        args.join(", ")
                    );
                    f(&text);
                }
            }
        }
    }
}

const NAMES: [&str; 3] = ["A", "B", "C"];

struct Ctx<'a> {
    qvars: Vec<&'a str>,
    /// the calibration's parameter variables (distinct names)
    tvars: Vec<&'a str>,
    formal: Option<&'a str>,
    /// index of the calibration's own gate name (3 for measurement calibrations)
    level: usize,
}

fn gen_qubit(rng: &mut Rng, ctx: &Ctx) -> String {
    if !ctx.qvars.is_empty() && rng.chance(13, 20) {
        rng.pick(&ctx.qvars).to_string()
    } else if rng.chance(1, 16) {
        "z".to_string() // a variable that no formal binds
    } else {
        rng.pick(&["0", "1"]).to_string()
    }
}

/// number of parameters: 0..3
fn gen_arity(rng: &mut Rng) -> usize {
    match rng.below(20) {
        0..=6 => 0,
        7..=13 => 1,
        14..=17 => 2,
        _ => 3,
    }
}

/// (text, depends on the calibration parameter, grows)
fn gen_expr(rng: &mut Rng, ctx: &Ctx) -> (String, bool, bool) {
    if !ctx.tvars.is_empty() {
        let t = *rng.pick(&ctx.tvars);
        match rng.below(8) {
            0 | 1 | 2 => return (format!("%{t}"), true, false),
            3 => return (format!("%{t}+1"), true, true),
            4 => return (format!("2*%{t}"), true, true),
            5 => return (format!("-%{t}"), true, true),
            _ => {}
        }
    }
    if rng.chance(1, 20) {
        return ("%u".to_string(), false, false); // unbound parameter variable
    }
    (rng.pick(&["1", "2", "1+1", "pi", "3"]).to_string(), false, false)
}

fn gen_region(rng: &mut Rng, ctx: &Ctx, formal_bias: usize) -> String {
    if let Some(f) = ctx.formal {
        if rng.chance(formal_bias, 10) {
            return f.to_string();
        }
    }
    rng.pick(&["ro[0]", "ro[1]", "other[0]", "other[1]"]).to_string()
}

fn gen_nested_gate(rng: &mut Rng, ctx: &Ctx) -> String {
    let callee = rng.below(3);
    let nparams = gen_arity(rng);
    let nq = if rng.chance(1, 5) { 2 } else { 1 };
    let mut ps = Vec::new();
    for _ in 0..nparams {
        loop {
            let (e, dep, grows) = gen_expr(rng, ctx);
            // termination discipline (see the finish() rule): a growing argument only to a strictly
            // later name; a parameter-dependent argument never to an earlier name
            let ok = if grows { callee > ctx.level } else if dep { callee >= ctx.level } else { true };
            if ok {
                ps.push(e);
                break;
            }
        }
    }
    let qs: Vec<String> = (0..nq).map(|_| gen_qubit(rng, ctx)).collect();
    if ps.is_empty() {
        format!("{} {}", NAMES[callee], qs.join(" "))
    } else {
        format!("{}({}) {}", NAMES[callee], ps.join(", "), qs.join(" "))
    }
}

fn gen_body_instr(rng: &mut Rng, ctx: &Ctx) -> String {
    let q = gen_qubit(rng, ctx);
    let meas = ctx.formal.is_some() || ctx.level == 3;
    match rng.below(if meas { 24 } else { 22 }) {
        0 | 1 | 2 | 3 => gen_nested_gate(rng, ctx),
        4 => format!("FENCE {q}"),
        5 => format!("FENCE {q} {}", gen_qubit(rng, ctx)),
        6 => {
            if rng.chance(1, 4) {
                "RESET".to_string()
            } else {
                format!("RESET {q}")
            }
        }
        7 => {
            if rng.chance(1, 3) {
                format!("MEASURE {q}")
            } else {
                format!("MEASURE {q} {}", gen_region(rng, ctx, 3))
            }
        }
        8 => format!("SWAP-PHASES {q} \"f\" {} \"g\"", gen_qubit(rng, ctx)),
        9 => format!("DELAY {q} ({})", gen_expr(rng, ctx).0),
        10 => format!("DELAY {q} \"f\" {}", gen_expr(rng, ctx).0),
        11 => format!(
            "{} {q} \"f\" {}",
            rng.pick(&["SET-PHASE", "SHIFT-PHASE", "SET-FREQUENCY", "SHIFT-FREQUENCY", "SET-SCALE"]),
            gen_expr(rng, ctx).0
        ),
        12 => format!("PULSE {q} \"f\" flat(duration: {}, iq: 1)", gen_expr(rng, ctx).0),
        13 | 22 => format!(
            "{}CAPTURE {q} \"f\" flat(duration: {}, iq: 1) {}",
            if rng.chance(1, 5) { "NONBLOCKING " } else { "" },
            gen_expr(rng, ctx).0,
            gen_region(rng, ctx, 6)
        ),
        14 | 23 => format!("RAW-CAPTURE {q} \"f\" {} {}", gen_expr(rng, ctx).0, gen_region(rng, ctx, 4)),
        15 => format!("MOVE {} {}", gen_region(rng, ctx, 3), if rng.chance(1, 2) { "1".to_string() } else { gen_region(rng, ctx, 3) }),
        16 => format!("DECLARE {} {}[{}]", rng.pick(&["mem", "mem2", "ro"]), rng.pick(&["BIT", "INTEGER"]), rng.range(1, 2)),
        17 => {
            if let (Some(f), true) = (ctx.formal, rng.chance(1, 2)) {
                format!("PRAGMA LOAD-MEMORY \"{f}\"")
            } else {
                format!("PRAGMA {}", rng.pick(&["foo", "LOAD-MEMORY \"ro\"", "bar 1"]))
            }
        }
        18 => format!("LOAD {} other {}", gen_region(rng, ctx, 3), gen_region(rng, ctx, 3)),
        19 => "NOP".to_string(),
        20 => rng.pick(&["HALT", "WAIT", "NOP"]).to_string(),
        _ => gen_nested_gate(rng, ctx),
    }
}

/// Structured random program: 1..=5 calibrations over the names A, B, C and MEASURE, nested and
/// parameterised, followed by 1..=5 body instructions.
pub fn random_program(rng: &mut Rng) -> String {
    let mut text = String::from(PRELUDE);
    let ncal = rng.range(1, 5);
    for _ in 0..ncal {
        let is_meas = rng.chance(3, 10);
        let nbody = rng.range(1, 4);
        if is_meas {
            let qubit = *rng.pick(&["q", "q", "0", "1"]);
            let formal = if rng.chance(7, 10) { Some("addr") } else { None };
            let name = if rng.chance(1, 8) { "!mid" } else { "" };
            let ctx = Ctx {
                qvars: if qubit == "q" { vec!["q"] } else { vec![] },
                tvars: vec![],
                formal,
                level: 3,
            };
            let body: Vec<String> = (0..nbody).map(|_| gen_body_instr(rng, &ctx)).collect();
            let head = match formal {
                Some(f) => format!("MEASURE{name} {qubit} {f}"),
                None => format!("MEASURE{name} {qubit}"),
            };
            text.push_str(&defcal(&head, &body.iter().map(|s| s.as_str()).collect::<Vec<_>>()));
        } else {
            let level = rng.below(3);
            let nq = if rng.chance(1, 5) { 2 } else { 1 };
            let qnames = ["q", "r"];
            let mut qs: Vec<&str> = Vec::new();
            for k in 0..nq {
                qs.push(if rng.chance(3, 5) {
                    if rng.chance(1, 10) { "q" } else { qnames[k] }
                } else {
                    *rng.pick(&["0", "1"])
                });
            }
            // 0..3 parameter patterns, each a variable (distinct names, in a random order) or a literal
            let arity = gen_arity(rng);
            let mut vnames = vec!["t", "v", "w"];
            if rng.chance(1, 2) {
                vnames.rotate_left(rng.below(3));
            }
            let mut pats: Vec<String> = Vec::new();
            let mut tvars: Vec<&str> = Vec::new();
            for k in 0..arity {
                if rng.chance(1, 2) {
                    pats.push(format!("%{}", vnames[k]));
                    tvars.push(vnames[k]);
                } else {
                    pats.push(rng.pick(&["1", "2", "3", "1+1", "pi"]).to_string());
                }
            }
            let ctx = Ctx {
                qvars: qs.iter().copied().filter(|q| *q == "q" || *q == "r").collect(),
                tvars,
                formal: None,
                level,
            };
            let body: Vec<String> = (0..nbody).map(|_| gen_body_instr(rng, &ctx)).collect();
            let head = if pats.is_empty() {
                format!("{} {}", NAMES[level], qs.join(" "))
            } else {
                format!("{}({}) {}", NAMES[level], pats.join(", "), qs.join(" "))
            };
            text.push_str(&defcal(&head, &body.iter().map(|s| s.as_str()).collect::<Vec<_>>()));
        }
    }
    let nprog = rng.range(1, 5);
    let top = Ctx { qvars: vec![], tvars: vec![], formal: None, level: 0 };
    for _ in 0..nprog {
        let line = match rng.below(10) {
            0 | 1 | 2 | 3 | 4 => {
                let name = *rng.pick(&NAMES);
                let q = *rng.pick(&["0", "1"]);
                match rng.below(7) {
                    0 | 1 => format!("{name}({}) {q}", rng.pick(&["1", "2", "1+1", "pi", "2*1", "ro[0]"])),
                    2 => format!("{name} {q} {}", rng.pick(&["0", "1"])),
                    3 | 4 => {
                        // 2..3 pairwise distinct arguments, so that a mis-paired parameter is visible
                        let mut args = vec!["1", "2", "3"];
                        args.rotate_left(rng.below(3));
                        if rng.chance(1, 2) {
                            args.swap(0, 1);
                        }
                        let n = rng.range(2, 3);
                        format!("{name}({}) {q}", args[..n].join(", "))
                    }
                    _ => format!("{name} {q}"),
                }
            }
            5 | 6 | 7 => {
                let q = *rng.pick(&["0", "1"]);
                let name = if rng.chance(1, 8) { "!mid" } else { "" };
                if rng.chance(3, 4) {
                    format!("MEASURE{name} {q} {}", rng.pick(&["ro[0]", "ro[1]", "other[0]"]))
                } else {
                    format!("MEASURE{name} {q}")
                }
            }
            _ => loop {
                let s = gen_body_instr(rng, &top);
                if !s.starts_with("DECLARE") && !s.contains('z') && !s.contains("%u") {
                    break s;
                }
            },
        };
        text.push_str(&line);
        text.push('\n');
    }
    text
}

/// Chains of nested calibrations (depth 2..4 over A -> B -> C -> MEASURE) with leaf instructions
/// before / between / after the nested calls and, with probability 1/3, a DECLARE at a random level:
/// exercises deep source-map nesting and `remove_target_index` below the top level.
pub fn chain_program(rng: &mut Rng) -> String {
    let depth = rng.range(2, 4);
    let with_measure = depth == 4 || rng.chance(1, 4);
    let gate_levels = if depth == 4 { 3 } else { depth.min(3) };
    let declare_level = if rng.chance(1, 3) { Some(rng.below(gate_levels + with_measure as usize)) } else { None };
    let var_q = rng.chance(2, 3);
    let q = if var_q { "q" } else { "0" };
    let leaf = |rng: &mut Rng| -> String {
        match rng.below(6) {
            0 => "NOP".to_string(),
            1 => format!("FENCE {q}"),
            2 => format!("DELAY {q} \"f\" 1"),
            3 => format!("PULSE {q} \"f\" flat(duration: 1, iq: 1)"),
            4 => format!("SHIFT-PHASE {q} \"f\" 2"),
            _ => "WAIT".to_string(),
        }
    };
    let mut text = String::from(PRELUDE);
    for level in 0..gate_levels {
        let mut body: Vec<String> = Vec::new();
        for _ in 0..rng.below(3) {
            body.push(leaf(rng));
        }
        if declare_level == Some(level) && rng.chance(1, 2) {
            body.push("DECLARE mem BIT[1]".to_string());
        }
        let last_gate = level + 1 == gate_levels;
        let ncalls = if last_gate && !with_measure { 0 } else { rng.range(1, 2) };
        for c in 0..ncalls {
            if last_gate {
                body.push(format!("MEASURE {q} ro[{}]", rng.below(2)));
            } else {
                body.push(format!("{} {q}", NAMES[level + 1]));
            }
            if c + 1 < ncalls {
                body.push(leaf(rng));
            }
        }
        if declare_level == Some(level) && !body.iter().any(|b| b.starts_with("DECLARE")) {
            body.push("DECLARE mem BIT[1]".to_string());
        }
        for _ in 0..rng.below(3) {
            body.push(leaf(rng));
        }
        if body.is_empty() {
            body.push(leaf(rng));
        }
        text.push_str(&defcal(&format!("{} {q}", NAMES[level]), &body.iter().map(|s| s.as_str()).collect::<Vec<_>>()));
    }
    if with_measure {
        let mut body = vec![format!("CAPTURE {q} \"f\" flat(duration: 1, iq: 1) addr")];
        if declare_level == Some(gate_levels) {
            body.insert(rng.below(2), "DECLARE mem2 BIT[1]".to_string());
        }
        if rng.chance(1, 2) {
            body.push(leaf(rng));
        }
        text.push_str(&defcal(&format!("MEASURE {q} addr"), &body.iter().map(|s| s.as_str()).collect::<Vec<_>>()));
    }
    for _ in 0..rng.range(1, 3) {
        let line = match rng.below(5) {
            0 => "NOP".to_string(),
            1 => format!("{} {}", NAMES[rng.below(gate_levels)], rng.pick(&["0", "1"])),
            _ => format!("A {}", rng.pick(&["0", "1"])),
        };
        text.push_str(&line);
        text.push('\n');
    }
    text
}

/// The pinned source-map test of quil-rs (program/mod.rs `expand_calibrations`) and a few
/// hand-written programs exercising each known class.
pub const CORPUS: [&str; 7] = [
    "DEFCAL U(1, %b) q:\n    SET-PHASE q \"f\" %b\n    G(%b) q\nU(1, 2) 0\n",
    "DECLARE ro BIT[1]\nDEFCAL I 0:\n    DECLAREMEM\n    NOP\n    NOP\nDEFCAL DECLAREMEM:\n    DECLARE mem BIT[1]\n    NOP\nI 0\nPULSE 0 \"a\" custom_waveform\nI 0\n",
    "DECLARE ro BIT[2]\nDEFCAL X %q:\n    RESET %q\n    SWAP-PHASES %q \"a\" %q \"b\"\n    MEASURE %q ro\n    FENCE %q\nX 3\n",
    "DECLARE ro BIT[2]\nDECLARE other BIT[2]\nDEFCAL MEASURE q addr:\n    CAPTURE q \"f\" flat(duration: 1, iq: 1) addr\n    CAPTURE q \"f\" flat(duration: 1, iq: 1) other[1]\n    FENCE q\nMEASURE 2 ro[1]\n",
    "DECLARE ro BIT[2]\nDECLARE other BIT[2]\nDEFCAL MEASURE q addr:\n    MOVE addr 1\n    MOVE other[0] addr\nMEASURE 0 ro[1]\n",
    "DEFCAL X 0:\n    Y 0\n    MEASURE 0 ro\n    Y 0\nDEFCAL Y 0:\n    NOP\n    Z 0\nDEFCAL Z 0:\n    WAIT\nDEFCAL MEASURE 0 addr:\n    HALT\nX 0\n",
    "DEFCAL I 0:\n    NOP\n    DECLAREMEM\n    NOP\nDEFCAL DECLAREMEM:\n    NOP\n    DECLARE mem BIT[1]\n    NOP\nI 0\nI 0\n",
];
