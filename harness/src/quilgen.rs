//! Shared by c01 / c02 / c04 (included with `#[path]`): abstraction of the real lexer's tokens and
//! of the real AST into the Gallina types of coq/Model/ParsePanic.v, a grammar-derived generator of
//! Quil text covering every instruction kind and operand form, and token/byte mutators.
#![allow(dead_code)]
use qv::Rng;
use quil_rs::expression::{Expression, InfixOperator, PrefixOperator};
use quil_rs::instruction::*;
use std::collections::HashMap;

// ---------------------------------------------------------------------------------------------
// interning and token abstraction

#[derive(Default)]
pub struct Interner {
    map: HashMap<String, u64>,
}
impl Interner {
    pub fn id(&mut self, s: &str) -> u64 {
        let n = self.map.len() as u64;
        *self.map.entry(s.to_string()).or_insert(n)
    }
}

const RESERVED: [(&str, &str); 7] = [
    ("cis", "RCis"),
    ("cos", "RCos"),
    ("exp", "RExp"),
    ("i", "RI"),
    ("pi", "RPi"),
    ("sin", "RSin"),
    ("sqrt", "RSqrt"),
];

pub fn ident(s: &str, it: &mut Interner) -> String {
    let lower = s.to_lowercase();
    for (w, c) in RESERVED {
        if lower == w {
            return if s == w { format!("(IdRes {c})") } else { format!("(IdResCase {c})") };
        }
    }
    format!("(IdName {})", it.id(s))
}

pub const COMMANDS: [(&str, &str); 51] = [
    ("ADD", "CAdd"),
    ("AND", "CAnd"),
    ("ASHR", "CAshr"),
    ("CALL", "CCall"),
    ("CAPTURE", "CCapture"),
    ("CONVERT", "CConvert"),
    ("DECLARE", "CDeclare"),
    ("DEFCAL", "CDefCal"),
    ("DEFCIRCUIT", "CDefCircuit"),
    ("DEFFRAME", "CDefFrame"),
    ("DEFGATE", "CDefGate"),
    ("DEFWAVEFORM", "CDefWaveform"),
    ("DELAY", "CDelay"),
    ("DIV", "CDiv"),
    ("EQ", "CEq"),
    ("EXCHANGE", "CExchange"),
    ("FENCE", "CFence"),
    ("GE", "CGE"),
    ("GT", "CGT"),
    ("HALT", "CHalt"),
    ("INCLUDE", "CInclude"),
    ("IOR", "CIor"),
    ("JUMP", "CJump"),
    ("JUMP-UNLESS", "CJumpUnless"),
    ("JUMP-WHEN", "CJumpWhen"),
    ("LABEL", "CLabel"),
    ("LE", "CLE"),
    ("LOAD", "CLoad"),
    ("LT", "CLT"),
    ("MEASURE", "CMeasure"),
    ("MOVE", "CMove"),
    ("MUL", "CMul"),
    ("NEG", "CNeg"),
    ("NOP", "CNop"),
    ("NOT", "CNot"),
    ("PRAGMA", "CPragma"),
    ("PULSE", "CPulse"),
    ("RAW-CAPTURE", "CRawCapture"),
    ("RESET", "CReset"),
    ("SET-FREQUENCY", "CSetFrequency"),
    ("SET-PHASE", "CSetPhase"),
    ("SET-SCALE", "CSetScale"),
    ("SHIFT-FREQUENCY", "CShiftFrequency"),
    ("SHIFT-PHASE", "CShiftPhase"),
    ("SHL", "CShl"),
    ("SHR", "CShr"),
    ("STORE", "CStore"),
    ("SUB", "CSub"),
    ("SWAP-PHASES", "CSwapPhases"),
    ("WAIT", "CWait"),
    ("XOR", "CXor"),
];

fn cmd_ctor(name: &str) -> Option<&'static str> {
    COMMANDS.iter().find(|(n, _)| !n.is_empty() && *n == name).map(|(_, c)| *c)
}

/// a float value as the model sees it: `Ok(n)` integral below 10^15, `Err(lexeme)` otherwise
pub fn float_class(v: f64) -> Result<u64, String> {
    if v >= 0.0 && v.fract() == 0.0 && v < 1e15 && !(v == 0.0 && v.is_sign_negative()) {
        Ok(v as u64)
    } else {
        Err(format!("{v}"))
    }
}

pub fn flit(v: f64, it: &mut Interner) -> String {
    match float_class(v) {
        Ok(n) => format!("(FInt {n})"),
        Err(s) => format!("(FLex {})", it.id(&format!("f:{s}"))),
    }
}

pub fn numval(v: f64, it: &mut Interner) -> String {
    match float_class(v) {
        Ok(n) => format!("(VInt {n})"),
        Err(s) => format!("(VLex {})", it.id(&format!("f:{s}"))),
    }
}

/// integral values from 10^15 up to the u64 range may be printed as digits or in exponent form,
/// depending on the formatter: instructions containing one are kept outside the modelled fragment
pub fn awkward(v: f64) -> bool {
    let v = v.abs();
    v.fract() == 0.0 && v >= 1e15 && v < 1.9e19
}

/// One token in the `Debug` rendering of `quil_rs::verif::lex_debug` -> Gallina `tok`.
pub fn tok_to_coq(dbg: &str, it: &mut Interner) -> Option<String> {
    let inner = |prefix: &str| -> Option<&str> {
        dbg.strip_prefix(prefix).and_then(|r| r.strip_suffix(')'))
    };
    Some(match dbg {
        "AS" => "TAs".into(),
        "MATRIX" => "TMatrix".into(),
        "mut" => "TMutable".into(),
        "NONBLOCKING" => "TNonBlocking".into(),
        "OFFSET" => "TOffset".into(),
        "PAULI-SUM" => "TPauliSum".into(),
        "PERMUTATION" => "TPermutation".into(),
        "SEQUENCE" => "TSequence".into(),
        "SHARING" => "TSharing".into(),
        "BANG" => "TBang".into(),
        "COLON" => "TColon".into(),
        "COMMA" => "TComma".into(),
        "INDENT" => "TIndent".into(),
        "LBRACKET" => "TLBracket".into(),
        "LPAREN" => "TLParen".into(),
        "NEWLINE" => "TNewLine".into(),
        "RBRACKET" => "TRBracket".into(),
        "RPAREN" => "TRParen".into(),
        "SEMICOLON" => "TSemicolon".into(),
        _ => {
            if let Some(c) = inner("COMMAND(") {
                format!("TCmd {}", cmd_ctor(c)?)
            } else if dbg.starts_with("COMMENT(") {
                "TComment".into()
            } else if let Some(d) = inner("DATATYPE(") {
                format!(
                    "TDataType {}",
                    match d {
                        "BIT" => "DBit",
                        "OCTET" => "DOctet",
                        "REAL" => "DReal",
                        "INTEGER" => "DInteger",
                        _ => return None,
                    }
                )
            } else if let Some(x) = inner("FLOAT(") {
                let v: f64 = x.parse().ok()?;
                format!("TFloat {}", flit(v, it))
            } else if let Some(x) = inner("IDENTIFIER(") {
                format!("TId {}", ident(x, it))
            } else if let Some(x) = inner("INTEGER(") {
                let v: u64 = x.parse().ok()?;
                format!("TInt {v}")
            } else if let Some(x) = dbg.strip_prefix('@') {
                format!("TTarget {}", it.id(&format!("t:{x}")))
            } else if let Some(m) = inner("MODIFIER(") {
                format!(
                    "TModifier {}",
                    match m {
                        "CONTROLLED" => "MControlled",
                        "DAGGER" => "MDagger",
                        "FORKED" => "MForked",
                        _ => return None,
                    }
                )
            } else if let Some(o) = inner("OPERATOR(") {
                format!(
                    "TOp {}",
                    match o {
                        "^" => "OCaret",
                        "-" => "OMinus",
                        "+" => "OPlus",
                        "/" => "OSlash",
                        "*" => "OStar",
                        _ => return None,
                    }
                )
            } else if dbg.starts_with("STRING(") {
                format!("TString {}", it.id(&format!("s:{dbg}")))
            } else if let Some(x) = inner("VARIABLE(") {
                format!("TVar {}", ident(x, it))
            } else {
                return None;
            }
        }
    })
}

/// Lex with the real lexer and abstract; `None` on a lex error or an unknown token rendering.
pub fn tokens_to_coq(text: &str, it: &mut Interner) -> Option<String> {
    let toks = quil_rs::verif::lex_debug(text).ok()?;
    let mut v = Vec::with_capacity(toks.len());
    for t in &toks {
        v.push(tok_to_coq(t, it)?);
    }
    Some(format!("[{}]", v.join("; ")))
}

// ---------------------------------------------------------------------------------------------
// abstraction of the real AST into the model AST (None = outside the modelled fragment)

/// the interned string literal id of a quoted string as the lexer's Debug rendering shows it
fn string_id(s: &str, it: &mut Interner) -> u64 {
    it.id(&format!("s:STRING({s:?})"))
}

fn memref(m: &MemoryReference, it: &mut Interner) -> String {
    format!("({}, {})", ident(&m.name, it), m.index)
}

fn qubit(q: &Qubit, it: &mut Interner) -> Option<String> {
    Some(match q {
        Qubit::Fixed(n) => format!("(QFixed {n})"),
        Qubit::Variable(x) => format!("(QVar {})", ident(x, it)),
        Qubit::Placeholder(_) => return None,
    })
}

fn qubits(qs: &[Qubit], it: &mut Interner) -> Option<String> {
    let v: Option<Vec<String>> = qs.iter().map(|q| qubit(q, it)).collect();
    Some(format!("[{}]", v?.join("; ")))
}

pub fn expr(e: &Expression, it: &mut Interner) -> Option<String> {
    Some(match e {
        Expression::Address(m) => format!("(EAddr {} {})", ident(&m.name, it), m.index),
        Expression::FunctionCall(f) => {
            use quil_rs::expression::ExpressionFunction::*;
            let r = match f.function {
                Cis => "RCis",
                Cosine => "RCos",
                Exponent => "RExp",
                Sine => "RSin",
                SquareRoot => "RSqrt",
            };
            format!("(EFn {r} {})", expr(&f.expression, it)?)
        }
        Expression::Infix(x) => {
            let o = match x.operator {
                InfixOperator::Caret => "OCaret",
                InfixOperator::Plus => "OPlus",
                InfixOperator::Minus => "OMinus",
                InfixOperator::Slash => "OSlash",
                InfixOperator::Star => "OStar",
            };
            format!("(EInfix {} {o} {})", expr(&x.left, it)?, expr(&x.right, it)?)
        }
        Expression::Number(c) => {
            if awkward(c.re) || awkward(c.im) {
                return None;
            }
            if c.im == 0.0 && !c.im.is_sign_negative() && c.re >= 0.0 {
                format!("(ENum false {})", numval(c.re, it))
            } else if c.re == 0.0 && !c.re.is_sign_negative() && c.im > 0.0 {
                format!("(ENum true {})", numval(c.im, it))
            } else {
                return None;
            }
        }
        Expression::PiConstant() => "EPi".into(),
        Expression::Prefix(p) => match p.operator {
            PrefixOperator::Minus => format!("(ENeg {})", expr(&p.expression, it)?),
            PrefixOperator::Plus => return None,
        },
        Expression::Variable(x) => format!("(EVar {})", ident(x, it)),
    })
}

fn operand_a(o: &ArithmeticOperand, it: &mut Interner) -> Option<String> {
    if matches!(o, ArithmeticOperand::LiteralReal(v) if awkward(*v)) {
        return None;
    }
    Some(match o {
        ArithmeticOperand::LiteralInteger(z) => format!("(OInt ({z})%Z)"),
        ArithmeticOperand::LiteralReal(v) => {
            format!("(OReal {} {})", v.is_sign_negative(), numval(v.abs(), it))
        }
        ArithmeticOperand::MemoryReference(m) => format!("(OMem {})", memref(m, it)),
    })
}
fn operand_c(o: &ComparisonOperand, it: &mut Interner) -> Option<String> {
    if matches!(o, ComparisonOperand::LiteralReal(v) if awkward(*v)) {
        return None;
    }
    Some(match o {
        ComparisonOperand::LiteralInteger(z) => format!("(OInt ({z})%Z)"),
        ComparisonOperand::LiteralReal(v) => {
            format!("(OReal {} {})", v.is_sign_negative(), numval(v.abs(), it))
        }
        ComparisonOperand::MemoryReference(m) => format!("(OMem {})", memref(m, it)),
    })
}
fn operand_b(o: &BinaryOperand, it: &mut Interner) -> String {
    match o {
        BinaryOperand::LiteralInteger(z) => format!("(OInt ({z})%Z)"),
        BinaryOperand::MemoryReference(m) => format!("(OMem {})", memref(m, it)),
    }
}

fn frame(f: &FrameIdentifier, it: &mut Interner) -> Option<String> {
    Some(format!("({}, {})", qubits(&f.qubits, it)?, string_id(&f.name, it)))
}

fn dtype(t: ScalarType) -> &'static str {
    match t {
        ScalarType::Bit => "DBit",
        ScalarType::Integer => "DInteger",
        ScalarType::Octet => "DOctet",
        ScalarType::Real => "DReal",
    }
}

/// true iff the instruction contains a literal real operand with an integral value (the class of
/// the known finding `real-literal-integral`)
pub fn has_integral_real(i: &Instruction) -> bool {
    let a = |o: &ArithmeticOperand| matches!(o, ArithmeticOperand::LiteralReal(v) if v.fract() == 0.0);
    let c = |o: &ComparisonOperand| matches!(o, ComparisonOperand::LiteralReal(v) if v.fract() == 0.0);
    match i {
        Instruction::Arithmetic(x) => a(&x.source),
        Instruction::Move(x) => a(&x.source),
        Instruction::Store(x) => a(&x.source),
        Instruction::Comparison(x) => c(&x.rhs),
        Instruction::CalibrationDefinition(d) => d.instructions.iter().any(has_integral_real),
        Instruction::MeasureCalibrationDefinition(d) => d.instructions.iter().any(has_integral_real),
        Instruction::CircuitDefinition(d) => d.instructions.iter().any(has_integral_real),
        _ => false,
    }
}

/// The model AST of an instruction in the fragment modelled by ParsePanic.v / PrintParse.v.
pub fn instr(i: &Instruction, it: &mut Interner) -> Option<String> {
    Some(match i {
        Instruction::Arithmetic(x) => {
            let c = match x.operator {
                ArithmeticOperator::Add => "CAdd",
                ArithmeticOperator::Subtract => "CSub",
                ArithmeticOperator::Multiply => "CMul",
                ArithmeticOperator::Divide => "CDiv",
            };
            format!("IArith {c} {} {}", memref(&x.destination, it), operand_a(&x.source, it)?)
        }
        Instruction::BinaryLogic(x) => {
            let c = match x.operator {
                BinaryOperator::And => "CAnd",
                BinaryOperator::Ior => "CIor",
                BinaryOperator::Xor => "CXor",
                BinaryOperator::Shl => "CShl",
                BinaryOperator::Shr => "CShr",
                BinaryOperator::Ashr => "CAshr",
            };
            format!("ILogic {c} {} {}", memref(&x.destination, it), operand_b(&x.source, it))
        }
        Instruction::Comparison(x) => {
            let c = match x.operator {
                ComparisonOperator::Equal => "CEq",
                ComparisonOperator::GreaterThanOrEqual => "CGE",
                ComparisonOperator::GreaterThan => "CGT",
                ComparisonOperator::LessThanOrEqual => "CLE",
                ComparisonOperator::LessThan => "CLT",
            };
            format!(
                "ICmp {c} {} {} {}",
                memref(&x.destination, it),
                memref(&x.lhs, it),
                operand_c(&x.rhs, it)?
            )
        }
        Instruction::UnaryLogic(x) => {
            let c = match x.operator {
                UnaryOperator::Neg => "CNeg",
                UnaryOperator::Not => "CNot",
            };
            format!("IUnary {c} {}", memref(&x.operand, it))
        }
        Instruction::Convert(x) => {
            format!("IConvert {} {}", memref(&x.destination, it), memref(&x.source, it))
        }
        Instruction::Exchange(x) => format!("IExchange {} {}", memref(&x.left, it), memref(&x.right, it)),
        Instruction::Declaration(d) => {
            let sh = match &d.sharing {
                None => "None".to_string(),
                Some(s) => format!(
                    "(Some ({}, [{}]))",
                    ident(&s.name, it),
                    s.offsets
                        .iter()
                        .map(|o| format!("({}, {})", o.offset, dtype(o.data_type)))
                        .collect::<Vec<_>>()
                        .join("; ")
                ),
            };
            format!(
                "IDeclare {} {} {} {sh}",
                ident(&d.name, it),
                dtype(d.size.data_type),
                d.size.length
            )
        }
        Instruction::Delay(d) => format!(
            "IDelay {} [{}] {}",
            qubits(&d.qubits, it)?,
            d.frame_names.iter().map(|s| string_id(s, it).to_string()).collect::<Vec<_>>().join("; "),
            expr(&d.duration, it)?
        ),
        Instruction::Fence(f) => format!("IFence {}", qubits(&f.qubits, it)?),
        Instruction::Gate(g) => {
            let mods: Vec<&str> = g
                .modifiers
                .iter()
                .map(|m| match m {
                    GateModifier::Controlled => "MControlled",
                    GateModifier::Dagger => "MDagger",
                    GateModifier::Forked => "MForked",
                })
                .collect();
            let ps: Option<Vec<String>> = g.parameters.iter().map(|e| expr(e, it)).collect();
            format!(
                "IGate [{}] {} [{}] {}",
                mods.join("; "),
                ident(&g.name, it),
                ps?.join("; "),
                qubits(&g.qubits, it)?
            )
        }
        Instruction::Halt() => "IHalt".into(),
        Instruction::Nop() => "INop".into(),
        Instruction::Wait() => "IWait".into(),
        Instruction::Include(x) => format!("IInclude {}", string_id(&x.filename, it)),
        Instruction::Jump(j) => match &j.target {
            Target::Fixed(t) => format!("IJump {}", it.id(&format!("t:{t}"))),
            _ => return None,
        },
        Instruction::JumpWhen(j) => match &j.target {
            Target::Fixed(t) => format!("IJumpWhen {} {}", it.id(&format!("t:{t}")), memref(&j.condition, it)),
            _ => return None,
        },
        Instruction::JumpUnless(j) => match &j.target {
            Target::Fixed(t) => {
                format!("IJumpUnless {} {}", it.id(&format!("t:{t}")), memref(&j.condition, it))
            }
            _ => return None,
        },
        Instruction::Label(l) => match &l.target {
            Target::Fixed(t) => format!("ILabel {}", it.id(&format!("t:{t}"))),
            _ => return None,
        },
        Instruction::Load(l) => format!(
            "ILoad {} {} {}",
            memref(&l.destination, it),
            ident(&l.source, it),
            memref(&l.offset, it)
        ),
        Instruction::Store(s) => format!(
            "IStore {} {} {}",
            ident(&s.destination, it),
            memref(&s.offset, it),
            operand_a(&s.source, it)?
        ),
        Instruction::Measurement(m) => format!(
            "IMeasure {} {} {}",
            match &m.name {
                Some(n) => format!("(Some {})", ident(n, it)),
                None => "None".into(),
            },
            qubit(&m.qubit, it)?,
            match &m.target {
                Some(t) => format!("(Some {})", memref(t, it)),
                None => "None".into(),
            }
        ),
        Instruction::Move(m) => format!("IMove {} {}", memref(&m.destination, it), operand_a(&m.source, it)?),
        Instruction::Pragma(p) => format!(
            "IPragma {} [{}] {}",
            ident(&p.name, it),
            p.arguments
                .iter()
                .map(|a| match a {
                    PragmaArgument::Identifier(x) => format!("PAId {}", ident(x, it)),
                    PragmaArgument::Integer(n) => format!("PAInt {n}"),
                })
                .collect::<Vec<_>>()
                .join("; "),
            match &p.data {
                Some(s) => format!("(Some {})", string_id(s, it)),
                None => "None".into(),
            }
        ),
        Instruction::Reset(r) => match &r.qubit {
            Some(q) => format!("IReset (Some {})", qubit(q, it)?),
            None => "IReset None".into(),
        },
        Instruction::SetFrequency(x) => format!("IFrameSet CSetFrequency {} {}", frame(&x.frame, it)?, expr(&x.frequency, it)?),
        Instruction::SetPhase(x) => format!("IFrameSet CSetPhase {} {}", frame(&x.frame, it)?, expr(&x.phase, it)?),
        Instruction::SetScale(x) => format!("IFrameSet CSetScale {} {}", frame(&x.frame, it)?, expr(&x.scale, it)?),
        Instruction::ShiftFrequency(x) => {
            format!("IFrameSet CShiftFrequency {} {}", frame(&x.frame, it)?, expr(&x.frequency, it)?)
        }
        Instruction::ShiftPhase(x) => format!("IFrameSet CShiftPhase {} {}", frame(&x.frame, it)?, expr(&x.phase, it)?),
        Instruction::SwapPhases(x) => format!("ISwapPhases {} {}", frame(&x.frame_1, it)?, frame(&x.frame_2, it)?),
        _ => return None,
    })
}

// ---------------------------------------------------------------------------------------------
// grammar-derived text generation

pub const NAMES: [&str; 12] = [
    "ro", "theta", "a", "b_1", "q-x", "Theta", "x9", "_u", "beta-2-c", "iq", "mem", "r",
];
const GATES: [&str; 8] = ["X", "RX", "CNOT", "CPHASE", "my_gate", "U-1", "H", "RZ"];
const FRAMES: [&str; 4] = ["\"xy\"", "\"ro_rx\"", "\"a b\"", "\"cz\""];
const WAVES: [&str; 4] = ["flat", "gaussian", "q0_q1/sqrtiSWAP", "my_wf"];
const LABELS: [&str; 4] = ["@start", "@end-1", "@L_2", "@loop"];
const TYPES: [&str; 4] = ["BIT", "OCTET", "REAL", "INTEGER"];

pub fn name(r: &mut Rng) -> &'static str {
    NAMES[r.below(NAMES.len())]
}

fn uint(r: &mut Rng) -> String {
    match r.below(12) {
        0 => "0".into(),
        1 => "1".into(),
        2 => "17".into(),
        3 => "0x1F".into(),
        4 => "0b101".into(),
        5 => "0o17".into(),
        6 => "1_000".into(),
        7 => "9223372036854775807".into(),
        8 => "4294967296".into(),
        9 => "007".into(),
        _ => format!("{}", r.below(100)),
    }
}

fn float(r: &mut Rng) -> String {
    match r.below(14) {
        0 => "1.5".into(),
        1 => "0.25".into(),
        2 => ".5".into(),
        3 => "2.".into(),
        4 => "1e3".into(),
        5 => "1.0".into(),
        6 => "2.5e-3".into(),
        7 => "1E+2".into(),
        8 => "6.02e23".into(),
        9 => "1e-7".into(),
        10 => "0.1".into(),
        11 => "3.14159".into(),
        12 => "1e300".into(),
        _ => format!("{}.{}", r.below(10), r.below(100)),
    }
}

pub fn memref_text(r: &mut Rng) -> String {
    if r.chance(1, 3) {
        name(r).to_string()
    } else {
        format!("{}[{}]", name(r), r.below(4))
    }
}

fn qubit_text(r: &mut Rng) -> String {
    match r.below(6) {
        0 => format!("%{}", name(r)),
        1 => name(r).to_string(),
        _ => format!("{}", r.below(8)),
    }
}

fn qubits_text(r: &mut Rng, lo: usize, hi: usize) -> String {
    let n = r.range(lo, hi);
    (0..n).map(|_| qubit_text(r)).collect::<Vec<_>>().join(" ")
}

/// expression text of nesting depth <= d, with random redundant parentheses and spacing
pub fn expr_text(r: &mut Rng, d: usize) -> String {
    let atom = |r: &mut Rng| -> String {
        match r.below(12) {
            0 => uint(r),
            1 => float(r),
            2 => format!("{}i", uint(r)),
            3 => format!("{}i", float(r)),
            4 => "i".into(),
            5 => "pi".into(),
            6 => format!("%{}", name(r)),
            7 => format!("{}[{}]", name(r), r.below(3)),
            8 => name(r).to_string(),
            9 => "PI".into(),
            10 => "1".into(),
            _ => "2".into(),
        }
    };
    if d == 0 {
        return atom(r);
    }
    match r.below(10) {
        0 | 1 => atom(r),
        2 => format!("{}({})", ["sin", "cos", "sqrt", "exp", "cis", "SIN"][r.below(6)], expr_text(r, d - 1)),
        3 => format!("-{}", expr_text(r, d - 1)),
        4 => format!("({})", expr_text(r, d - 1)),
        _ => {
            let op = ["+", "-", "*", "/", "^", " - ", " + ", " * "][r.below(8)];
            let l = expr_text(r, d - 1);
            let rr = expr_text(r, d - 1);
            match r.below(4) {
                0 => format!("({l}){op}{rr}"),
                1 => format!("{l}{op}({rr})"),
                _ => format!("{l}{op}{rr}"),
            }
        }
    }
}

fn frame_text(r: &mut Rng) -> String {
    format!("{} {}", qubits_text(r, 1, 2), FRAMES[r.below(FRAMES.len())])
}

fn waveform_text(r: &mut Rng) -> String {
    let w = WAVES[r.below(WAVES.len())];
    match r.below(4) {
        0 => w.to_string(),
        1 => format!("{w}()"),
        _ => {
            let n = r.range(1, 3);
            let keys = ["duration", "iq", "scale", "phase", "t1", "alpha"];
            let ps: Vec<String> = (0..n)
                .map(|k| format!("{}: {}", keys[(k * 2 + r.below(2)) % keys.len()], expr_text(r, 2)))
                .collect();
            format!("{w}({})", ps.join(", "))
        }
    }
}

fn operand_text(r: &mut Rng, allow_real: bool) -> String {
    match r.below(if allow_real { 6 } else { 4 }) {
        0 => uint(r),
        1 => format!("-{}", uint(r)),
        2 | 3 => memref_text(r),
        4 => float(r),
        _ => format!("-{}", float(r)),
    }
}

pub const N_KINDS: usize = 46;

/// One instruction (possibly multi-line, without trailing newline) of the given kind.
pub fn instr_text(r: &mut Rng, kind: usize) -> String {
    let e = |r: &mut Rng| { let d = r.below(4); expr_text(r, d) };
    match kind {
        0 => {
            // gate
            let mut s = String::new();
            for _ in 0..r.below(3) {
                s.push_str(["CONTROLLED ", "DAGGER ", "FORKED "][r.below(3)]);
            }
            s.push_str(GATES[r.below(GATES.len())]);
            let np = r.below(3);
            if np > 0 {
                s.push('(');
                s.push_str(&(0..np).map(|_| e(r)).collect::<Vec<_>>().join(if r.chance(1, 2) { ", " } else { "," }));
                s.push(')');
            }
            let q = qubits_text(r, 0, 3);
            if !q.is_empty() {
                s.push(' ');
                s.push_str(&q);
            }
            s
        }
        1 => format!("{} {} {}", ["ADD", "SUB", "MUL", "DIV"][r.below(4)], memref_text(r), operand_text(r, true)),
        2 => format!(
            "{} {} {}",
            ["AND", "IOR", "XOR", "SHL", "SHR", "ASHR"][r.below(6)],
            memref_text(r),
            operand_text(r, false)
        ),
        3 => format!("{} {}", ["NEG", "NOT"][r.below(2)], memref_text(r)),
        4 => format!("MOVE {} {}", memref_text(r), operand_text(r, true)),
        5 => format!("EXCHANGE {} {}", memref_text(r), memref_text(r)),
        6 => format!("CONVERT {} {}", memref_text(r), memref_text(r)),
        7 => format!("LOAD {} {} {}", memref_text(r), name(r), memref_text(r)),
        8 => format!("STORE {} {} {}", name(r), memref_text(r), operand_text(r, true)),
        9 => format!(
            "{} {} {} {}",
            ["EQ", "GE", "GT", "LE", "LT"][r.below(5)],
            memref_text(r),
            memref_text(r),
            operand_text(r, true)
        ),
        10 => {
            let mut s = format!("DECLARE {} {}", name(r), TYPES[r.below(4)]);
            if r.chance(2, 3) {
                s.push_str(&format!("[{}]", r.range(1, 9)));
            }
            if r.chance(1, 2) {
                s.push_str(&format!(" SHARING {}", name(r)));
                if r.chance(1, 2) {
                    s.push_str(" OFFSET");
                    for _ in 0..r.range(1, 2) {
                        s.push_str(&format!(" {} {}", r.below(9), TYPES[r.below(4)]));
                    }
                }
            }
            s
        }
        11 => {
            let mut s = String::from("MEASURE");
            if r.chance(1, 3) {
                s.push_str(if r.chance(1, 2) { "!mid" } else { " !mid" });
            }
            s.push(' ');
            s.push_str(&qubit_text(r));
            if r.chance(2, 3) {
                s.push(' ');
                s.push_str(&memref_text(r));
            }
            s
        }
        12 => {
            if r.chance(1, 3) {
                "RESET".into()
            } else {
                format!("RESET {}", qubit_text(r))
            }
        }
        13 => ["HALT", "NOP", "WAIT"][r.below(3)].into(),
        14 => format!("LABEL {}", LABELS[r.below(4)]),
        15 => format!("JUMP {}", LABELS[r.below(4)]),
        16 => format!("JUMP-WHEN {} {}", LABELS[r.below(4)], memref_text(r)),
        17 => format!("JUMP-UNLESS {} {}", LABELS[r.below(4)], memref_text(r)),
        18 => {
            let mut s = format!("PRAGMA {}", ["INITIAL_REWIRING", "foo", "LOAD-MEMORY", "x"][r.below(4)]);
            for _ in 0..r.below(3) {
                if r.chance(1, 2) {
                    s.push_str(&format!(" {}", name(r)));
                } else {
                    s.push_str(&format!(" {}", r.below(50)));
                }
            }
            if r.chance(1, 2) {
                s.push_str([" \"NAIVE\"", " \"a \\\"q\\\" b\"", " \"\"", " \"x\\\\y\""][r.below(4)]);
            }
            s
        }
        19 => format!("INCLUDE {}", ["\"lib.quil\"", "\"a b.quil\"", "\"q\\\"uote\""][r.below(3)]),
        20 => {
            // DELAY
            let mut s = format!("DELAY {}", qubits_text(r, 1, 2));
            let nf = r.below(3);
            for _ in 0..nf {
                s.push(' ');
                s.push_str(FRAMES[r.below(FRAMES.len())]);
            }
            s.push(' ');
            if nf == 0 && r.chance(3, 4) {
                s.push_str(&if r.chance(1, 2) { uint(r) } else { float(r) });
            } else {
                s.push_str(&e(r));
            }
            s
        }
        21 => {
            let q = qubits_text(r, 0, 3);
            if q.is_empty() {
                "FENCE".into()
            } else {
                format!("FENCE {q}")
            }
        }
        22 => format!("{}PULSE {} {}", if r.chance(1, 3) { "NONBLOCKING " } else { "" }, frame_text(r), waveform_text(r)),
        23 => format!(
            "{}CAPTURE {} {} {}",
            if r.chance(1, 3) { "NONBLOCKING " } else { "" },
            frame_text(r),
            waveform_text(r),
            memref_text(r)
        ),
        24 => format!(
            "{}RAW-CAPTURE {} {} {}",
            if r.chance(1, 3) { "NONBLOCKING " } else { "" },
            frame_text(r),
            e(r),
            memref_text(r)
        ),
        25 => format!(
            "{} {} {}",
            ["SET-FREQUENCY", "SET-PHASE", "SET-SCALE", "SHIFT-FREQUENCY", "SHIFT-PHASE"][r.below(5)],
            frame_text(r),
            e(r)
        ),
        26 => format!("SWAP-PHASES {} {}", frame_text(r), frame_text(r)),
        27 => {
            // CALL
            let mut s = format!("CALL {}", ["foo", "ext_fn"][r.below(2)]);
            for _ in 0..r.below(4) {
                s.push(' ');
                s.push_str(&match r.below(5) {
                    0 => name(r).to_string(),
                    1 => format!("{}[{}]", name(r), r.below(3)),
                    2 => uint(r),
                    3 => float(r),
                    _ => format!("{}i", float(r)),
                });
            }
            s
        }
        28 => format!(
            "PRAGMA EXTERN {} \"{}\"",
            ["foo", "ext_fn"][r.below(2)],
            ["INTEGER (a : INTEGER)", "(p : mut REAL[3])", "OCTET (x : REAL[], y : BIT)", "REAL", "()"][r.below(5)]
        ),
        29 => {
            // DEFGATE AS MATRIX (explicit or default)
            let params = if r.chance(1, 2) { "(%theta)" } else { "" };
            let kind = if r.chance(1, 4) { "" } else { " AS MATRIX" };
            let n = [2usize, 4][r.below(2)];
            let mut s = format!("DEFGATE {}{params}{kind}:", GATES[r.below(GATES.len())]);
            for _ in 0..n {
                s.push_str("\n\t");
                s.push_str(&(0..n).map(|_| expr_text(r, 2)).collect::<Vec<_>>().join(", "));
            }
            s
        }
        30 => format!("DEFGATE {} AS PERMUTATION:\n\t{}", GATES[r.below(GATES.len())], ["0, 1", "1, 0", "0, 1, 3, 2", "3,2,1,0"][r.below(4)]),
        31 => {
            let params = if r.chance(1, 2) { "(%theta)" } else { "" };
            match r.below(3) {
                0 => format!("DEFGATE PS{params} p q AS PAULI-SUM:\n\tZZ({}) p q\n\tY({}) p\n\tX(1) q", expr_text(r, 2), expr_text(r, 1)),
                1 => format!("DEFGATE PS{params} p AS PAULI-SUM:\n\tX({}) p", expr_text(r, 2)),
                _ => format!("DEFGATE PS{params} a b AS PAULI-SUM:\n\tIZ({}) a b", expr_text(r, 1)),
            }
        }
        32 => {
            let params = if r.chance(1, 2) { "(%theta)" } else { "" };
            match r.below(3) {
                0 => format!("DEFGATE SQ{params} p q AS SEQUENCE:\n\tH p\n\tCNOT p q\n\tRX({}) q", expr_text(r, 1)),
                1 => format!("DEFGATE SQ{params} p AS SEQUENCE:\n\tDAGGER X p"),
                _ => format!("DEFGATE SQ{params} a b AS SEQUENCE:\n\tCONTROLLED X a b\n\tRZ(%theta) b"),
            }
        }
        33 => {
            // DEFCAL
            let params = match r.below(3) {
                0 => "",
                1 => "(%theta)",
                _ => "(pi/2)",
            };
            let mut s = format!("DEFCAL {}{params} {}:", GATES[r.below(GATES.len())], qubits_text(r, 1, 2));
            for _ in 0..r.range(1, 3) {
                s.push_str("\n\t");
                s.push_str(&body_instr(r));
            }
            s
        }
        34 => {
            let mut s = String::from("DEFCAL MEASURE");
            if r.chance(1, 3) {
                s.push_str("!mid");
            }
            s.push_str(&format!(" {}", qubit_text(r)));
            if r.chance(2, 3) {
                s.push_str(&format!(" {}", name(r)));
            }
            s.push(':');
            for _ in 0..r.range(1, 3) {
                s.push_str("\n\t");
                s.push_str(&body_instr(r));
            }
            s
        }
        35 => {
            let params = if r.chance(1, 2) { "(%a, %b)" } else { "" };
            let qs = ["", " q", " q r"][r.below(3)];
            let mut s = format!("DEFCIRCUIT {}{params}{qs}:", ["BELL", "my_circ"][r.below(2)]);
            for _ in 0..r.range(1, 3) {
                s.push_str("\n\t");
                s.push_str(&body_instr(r));
            }
            s
        }
        36 => {
            let mut s = format!("DEFFRAME {}:", frame_text(r));
            let attrs = [
                "DIRECTION: \"rx\"",
                "CENTER-FREQUENCY: 1000",
                "HARDWARE-OBJECT: \"some object\"",
                "INITIAL-FREQUENCY: 2e9",
                "SAMPLE-RATE: 3000.0",
                "ENABLE-RAW-CAPTURE: \"true\"",
                "CHANNEL-DELAY: 1e-7",
                "CUSTOM: 2*pi",
            ];
            let n = r.range(1, 4);
            let start = r.below(attrs.len());
            for k in 0..n {
                s.push_str("\n\t");
                s.push_str(attrs[(start + k) % attrs.len()]);
            }
            s
        }
        37 => {
            let params = if r.chance(1, 2) { "(%a)" } else { "" };
            let n = r.range(1, 4);
            format!(
                "DEFWAVEFORM {}{params}:\n\t{}",
                WAVES[r.below(WAVES.len())],
                (0..n).map(|_| expr_text(r, 2)).collect::<Vec<_>>().join(", ")
            )
        }
        38 => format!("# comment {}\nX 0", name(r)),
        39 => format!("X 0; Y 1 ;Z {}", r.below(4)),
        40 => format!("MOVE {} {}", memref_text(r), ["0b__0010__1010__", "0x__DEAD__BEEF__", "9__8__.7__6__e+__1__2__", ".7__6__e-__1__2__", "18446744073709551615", "-9223372036854775808"][r.below(6)]),
        41 => format!("RX({}) {}", expr_text(r, 3), r.below(4)),
        42 => format!("DELAY {} ({})", qubits_text(r, 1, 2), expr_text(r, 2)),
        43 => format!("RAW-CAPTURE {} ({}) i[0]", frame_text(r), uint(r)),
        44 => {
            let mods = ["DAGGER ", "CONTROLLED ", ""][r.below(3)];
            format!("DEFCAL {mods}{} {}:\n\t{}", GATES[r.below(GATES.len())], qubits_text(r, 1, 2), body_instr(r))
        }
        _ => format!("X 0 # trailing comment {}", name(r)),
    }
}

fn body_instr(r: &mut Rng) -> String {
    let k = [0usize, 0, 1, 4, 11, 20, 21, 22, 23, 24, 25, 26, 13, 18, 10][r.below(15)];
    instr_text(r, k)
}

/// A program text of `n` instructions drawn from all kinds.
pub fn program_text(r: &mut Rng, n: usize) -> String {
    let mut s = String::new();
    for _ in 0..n {
        let k = r.below(N_KINDS);
        s.push_str(&instr_text(r, k));
        s.push_str(if r.chance(1, 8) { "\n\n" } else { "\n" });
    }
    s
}

// ---------------------------------------------------------------------------------------------
// mutation

/// split at whitespace and punctuation into rough "tokens" (keeping separators)
fn rough_tokens(text: &str) -> Vec<String> {
    let mut v = Vec::new();
    let mut cur = String::new();
    for ch in text.chars() {
        if ch.is_alphanumeric() || ch == '_' || ch == '%' || ch == '@' || ch == '.' {
            cur.push(ch);
        } else {
            if !cur.is_empty() {
                v.push(std::mem::take(&mut cur));
            }
            v.push(ch.to_string());
        }
    }
    if !cur.is_empty() {
        v.push(cur);
    }
    v
}

const INJECT: [&str; 40] = [
    "+", "-", "*", "/", "^", "(", ")", "[", "]", ",", ":", "!", ";", "\n", "\t", "    ", "\"", "#", "%", "@",
    "NONBLOCKING", "ADD", "MEASURE", "PULSE", "DEFCAL", "AS", "MATRIX", "SHARING", "OFFSET", "mut",
    "1", "-1", "+1", "1.5", "18446744073709551616", "9223372036854775808", "1e999", "0x", "i", "pi",
];

pub fn mutate(r: &mut Rng, text: &str) -> String {
    match r.below(12) {
        0 => {
            // truncate at a char boundary
            let idx: Vec<usize> = text.char_indices().map(|(i, _)| i).collect();
            if idx.is_empty() {
                return String::new();
            }
            text[..idx[r.below(idx.len())]].to_string()
        }
        1 => {
            // byte-level replacement by an interesting character
            let mut cs: Vec<char> = text.chars().collect();
            if cs.is_empty() {
                return "\u{0}".into();
            }
            let k = r.below(cs.len());
            cs[k] = ['\u{0}', '\u{e9}', '\u{2028}', '\u{1F600}', '\r', '"', '\\', '-', '+', ' ', '\n', '\t', '0', 'e', '.', '_'][r.below(16)];
            cs.into_iter().collect()
        }
        2 => {
            let mut cs: Vec<char> = text.chars().collect();
            if !cs.is_empty() {
                let k = r.below(cs.len());
                cs.remove(k);
            }
            cs.into_iter().collect()
        }
        3 => {
            // very long identifier / huge number / deep-ish nesting inserted
            let mut t = rough_tokens(text);
            let ins = match r.below(4) {
                0 => "a".repeat(5000),
                1 => "9".repeat(400),
                2 => format!("{}1{}", "(".repeat(50), ")".repeat(50)),
                _ => format!("0.{}1e-400", "0".repeat(300)),
            };
            let k = r.below(t.len() + 1);
            t.insert(k, format!(" {ins} "));
            t.concat()
        }
        _ => {
            let mut t = rough_tokens(text);
            if t.is_empty() {
                return INJECT[r.below(INJECT.len())].to_string();
            }
            for _ in 0..r.range(1, 2) {
                let k = r.below(t.len());
                match r.below(5) {
                    0 => {
                        t.remove(k);
                        if t.is_empty() {
                            break;
                        }
                    }
                    1 => {
                        let x = t[k].clone();
                        t.insert(k, x);
                    }
                    2 => {
                        let j = r.below(t.len());
                        t.swap(k, j);
                    }
                    3 => t[k] = INJECT[r.below(INJECT.len())].to_string(),
                    _ => t.insert(k, format!(" {} ", INJECT[r.below(INJECT.len())])),
                }
            }
            t.concat()
        }
    }
}
