//! Shared by c02 / c04 (included with `#[path]` after `mod quilgen`): abstraction of the real AST
//! into the model AST of coq/Model/PrintParse.v for the instruction kinds that quilgen::instr (the
//! C01 fragment) leaves out: PULSE / CAPTURE / RAW-CAPTURE, CALL, and (as `item`) the block definitions
//! DEFCAL, DEFCAL MEASURE, DEFCIRCUIT, DEFFRAME, DEFWAVEFORM, DEFGATE (matrix, permutation, Pauli sum,
//! sequence).
#![allow(dead_code)]
use crate::quilgen::{self, Interner};
use quil_rs::instruction::*;

fn string_id(s: &str, it: &mut Interner) -> u64 {
    it.id(&format!("s:STRING({s:?})"))
}

fn memref(m: &MemoryReference, it: &mut Interner) -> String {
    format!("({}, {})", quilgen::ident(&m.name, it), m.index)
}

fn qubit(q: &Qubit, it: &mut Interner) -> Option<String> {
    Some(match q {
        Qubit::Fixed(n) => format!("(QFixed {n})"),
        Qubit::Variable(x) => format!("(QVar {})", quilgen::ident(x, it)),
        Qubit::Placeholder(_) => return None,
    })
}

fn qubits(qs: &[Qubit], it: &mut Interner) -> Option<String> {
    let v: Option<Vec<String>> = qs.iter().map(|q| qubit(q, it)).collect();
    Some(format!("[{}]", v?.join("; ")))
}

fn frame(f: &FrameIdentifier, it: &mut Interner) -> Option<String> {
    Some(format!("({}, {})", qubits(&f.qubits, it)?, string_id(&f.name, it)))
}

fn is_reserved(s: &str) -> bool {
    matches!(s.to_lowercase().as_str(), "cis" | "cos" | "exp" | "i" | "pi" | "sin" | "sqrt")
}

/// The keys of all waveform parameter maps of the instruction, to be interned first (on a fresh
/// interner, in string order) so that the model's order on `IdName` ids is the order in which
/// `WaveformInvocation::write` sorts them.
pub fn waveform_keys(i: &Instruction, out: &mut Vec<String>) {
    match i {
        Instruction::Pulse(p) => out.extend(p.waveform.parameters.keys().cloned()),
        Instruction::Capture(c) => out.extend(c.waveform.parameters.keys().cloned()),
        Instruction::CalibrationDefinition(d) => d.instructions.iter().for_each(|b| waveform_keys(b, out)),
        Instruction::MeasureCalibrationDefinition(d) => d.instructions.iter().for_each(|b| waveform_keys(b, out)),
        Instruction::CircuitDefinition(d) => d.instructions.iter().for_each(|b| waveform_keys(b, out)),
        _ => {}
    }
}

pub fn preintern(instrs: &[Instruction], it: &mut Interner) {
    let mut keys = Vec::new();
    for i in instrs {
        waveform_keys(i, &mut keys);
    }
    keys.sort();
    keys.dedup();
    for k in keys {
        if !is_reserved(&k) {
            it.id(&k);
        }
    }
}

/// a waveform invocation; the parameter map (equality ignores its order) in canonical key order
fn waveform(w: &WaveformInvocation, it: &mut Interner) -> Option<String> {
    let mut parts = w.name.split('/');
    let name = parts.next()?;
    let ext = parts.next();
    if parts.next().is_some() {
        return None;
    }
    let mut kv: Vec<(&String, &quil_rs::expression::Expression)> = w.parameters.iter().collect();
    kv.sort_by_key(|(k, _)| *k);
    if kv.len() >= 2 && kv.iter().any(|(k, _)| is_reserved(k)) {
        // the model's key order is defined on non-reserved identifiers only
        return None;
    }
    let ps: Option<Vec<String>> = kv
        .iter()
        .map(|(k, e)| Some(format!("({}, {})", quilgen::ident(k, it), quilgen::expr(e, it)?)))
        .collect();
    Some(format!(
        "{{| wname := {}; wext := {}; wparams := [{}] |}}",
        quilgen::ident(name, it),
        match ext {
            Some(x) => format!("Some {}", quilgen::ident(x, it)),
            None => "None".into(),
        },
        ps?.join("; ")
    ))
}

fn callarg(a: &UnresolvedCallArgument, it: &mut Interner) -> Option<String> {
    Some(match a {
        UnresolvedCallArgument::Identifier(x) => format!("CAId {}", quilgen::ident(x, it)),
        UnresolvedCallArgument::MemoryReference(m) => format!("CAMem {}", memref(m, it)),
        UnresolvedCallArgument::Immediate(c) => {
            if quilgen::awkward(c.re) || quilgen::awkward(c.im) || c.re.is_nan() || c.im.is_nan() {
                return None;
            }
            // format_complex treats either zero as zero
            if c.im == 0.0 && c.re == 0.0 {
                "CAImm false (VInt 0)".into()
            } else if c.im == 0.0 && c.re > 0.0 {
                format!("CAImm false {}", quilgen::numval(c.re, it))
            } else if c.re == 0.0 && c.im > 0.0 {
                format!("CAImm true {}", quilgen::numval(c.im, it))
            } else {
                return None;
            }
        }
    })
}

/// The model AST (`instr`) of an instruction without an indented body; `None` = not representable
/// (placeholders, literals outside the parsed forms).
pub fn instr(i: &Instruction, it: &mut Interner) -> Option<String> {
    Some(match i {
        Instruction::Pulse(p) => {
            format!("IPulse {} {} {}", p.blocking, frame(&p.frame, it)?, waveform(&p.waveform, it)?)
        }
        Instruction::Capture(c) => format!(
            "ICapture {} {} {} {}",
            c.blocking,
            frame(&c.frame, it)?,
            waveform(&c.waveform, it)?,
            memref(&c.memory_reference, it)
        ),
        Instruction::RawCapture(c) => format!(
            "IRawCapture {} {} {} {}",
            c.blocking,
            frame(&c.frame, it)?,
            quilgen::expr(&c.duration, it)?,
            memref(&c.memory_reference, it)
        ),
        Instruction::Call(c) => {
            let args: Option<Vec<String>> = c.arguments.iter().map(|a| callarg(a, it)).collect();
            format!("ICall {} [{}]", quilgen::ident(&c.name, it), args?.join("; "))
        }
        _ => return quilgen::instr(i, it),
    })
}

pub fn is_definition(i: &Instruction) -> bool {
    matches!(
        i,
        Instruction::CalibrationDefinition(_)
            | Instruction::MeasureCalibrationDefinition(_)
            | Instruction::CircuitDefinition(_)
            | Instruction::GateDefinition(_)
            | Instruction::FrameDefinition(_)
            | Instruction::WaveformDefinition(_)
    )
}

fn body(b: &[Instruction], it: &mut Interner) -> Option<String> {
    // a definition inside a body is not representable (finding nested-block-definition)
    if b.iter().any(is_definition) {
        return None;
    }
    let v: Option<Vec<String>> = b.iter().map(|i| instr(i, it)).collect();
    Some(format!("[{}]", v?.join("; ")))
}

fn opt_ident(x: &Option<String>, it: &mut Interner) -> String {
    match x {
        Some(n) => format!("(Some {})", quilgen::ident(n, it)),
        None => "None".into(),
    }
}

fn idents(xs: &[String], it: &mut Interner) -> String {
    format!("[{}]", xs.iter().map(|x| quilgen::ident(x, it)).collect::<Vec<_>>().join("; "))
}

/// The model AST (`item`) of any instruction: a block definition or `Plain` of an `instr`.
pub fn item(i: &Instruction, it: &mut Interner) -> Option<String> {
    Some(match i {
        Instruction::CalibrationDefinition(d) => {
            let id = &d.identifier;
            let mods: Vec<&str> = id
                .modifiers
                .iter()
                .map(|m| match m {
                    GateModifier::Controlled => "MControlled",
                    GateModifier::Dagger => "MDagger",
                    GateModifier::Forked => "MForked",
                })
                .collect();
            let ps: Option<Vec<String>> = id.parameters.iter().map(|e| quilgen::expr(e, it)).collect();
            format!(
                "DefCal [{}] {} [{}] {} {}",
                mods.join("; "),
                quilgen::ident(&id.name, it),
                ps?.join("; "),
                qubits(&id.qubits, it)?,
                body(&d.instructions, it)?
            )
        }
        Instruction::MeasureCalibrationDefinition(d) => format!(
            "DefCalMeasure {} {} {} {}",
            opt_ident(&d.identifier.name, it),
            qubit(&d.identifier.qubit, it)?,
            opt_ident(&d.identifier.target, it),
            body(&d.instructions, it)?
        ),
        Instruction::CircuitDefinition(d) => format!(
            "DefCircuit {} {} {} {}",
            quilgen::ident(&d.name, it),
            idents(&d.parameters, it),
            idents(&d.qubit_variables, it),
            body(&d.instructions, it)?
        ),
        Instruction::FrameDefinition(d) => {
            let attrs: Option<Vec<String>> = d
                .attributes
                .iter()
                .map(|(k, v)| {
                    Some(format!(
                        "({}, {})",
                        quilgen::ident(k, it),
                        match v {
                            AttributeValue::String(s) => format!("AVString {}", string_id(s, it)),
                            AttributeValue::Expression(e) => format!("AVExpr {}", quilgen::expr(e, it)?),
                        }
                    ))
                })
                .collect();
            format!("DefFrame {} [{}]", frame(&d.identifier, it)?, attrs?.join("; "))
        }
        Instruction::WaveformDefinition(d) => {
            let mut parts = d.name.split('/');
            let name = parts.next()?;
            let ext = parts.next().map(|x| x.to_string());
            if parts.next().is_some() {
                return None;
            }
            let es: Option<Vec<String>> = d.definition.matrix.iter().map(|e| quilgen::expr(e, it)).collect();
            format!(
                "DefWaveform {} {} {} [{}]",
                quilgen::ident(name, it),
                opt_ident(&ext, it),
                idents(&d.definition.parameters, it),
                es?.join("; ")
            )
        }
        Instruction::GateDefinition(d) => {
            let spec = match &d.specification {
                GateSpecification::Matrix(rows) => {
                    let rs: Option<Vec<String>> = rows
                        .iter()
                        .map(|row| {
                            let es: Option<Vec<String>> = row.iter().map(|e| quilgen::expr(e, it)).collect();
                            Some(format!("[{}]", es?.join("; ")))
                        })
                        .collect();
                    format!("GMatrix [{}]", rs?.join("; "))
                }
                GateSpecification::Permutation(p) => {
                    format!("GPermutation [{}]", p.iter().map(|n| n.to_string()).collect::<Vec<_>>().join("; "))
                }
                GateSpecification::PauliSum(ps) => {
                    let ts: Option<Vec<String>> = ps
                        .terms
                        .iter()
                        .map(|t| {
                            let word: String = t.arguments.iter().map(|(g, _)| g.to_string()).collect();
                            let args: Vec<String> = t.arguments.iter().map(|(_, a)| a.clone()).collect();
                            Some(format!(
                                "({}, {}, {})",
                                quilgen::ident(&word, it),
                                quilgen::expr(&t.expression, it)?,
                                idents(&args, it)
                            ))
                        })
                        .collect();
                    format!("GPauliSum {} [{}]", idents(&ps.arguments, it), ts?.join("; "))
                }
                GateSpecification::Sequence(_) => {
                    let (qs, gates) = sequence_parts(d)?;
                    let gs: Option<Vec<String>> =
                        gates.iter().map(|g| quilgen::instr(&Instruction::Gate(g.clone()), it)).collect();
                    format!("GSequence {} [{}]", idents(&qs, it), gs?.join("; "))
                }
            };
            format!("DefGate {} {} ({spec})", quilgen::ident(&d.name, it), idents(&d.parameters, it))
        }
        _ => format!("Plain ({})", instr(i, it)?),
    })
}

/// The qubit names and gates of a DEFGATE AS SEQUENCE.  They are private to quil-rs: candidates are
/// read off the printed text (header words, one gate per body line) and accepted only if
/// `DefGateSequence::try_new` of them is `==` to the specification, i.e. they are the private fields.
fn sequence_parts(d: &GateDefinition) -> Option<(Vec<String>, Vec<Gate>)> {
    use quil_rs::quil::Quil;
    use std::str::FromStr;
    let spec_text = d.specification.to_quil().ok()?;
    let mut gates = Vec::new();
    for line in spec_text.lines() {
        if line.trim().is_empty() {
            continue;
        }
        match Instruction::from_str(line.trim()) {
            Ok(Instruction::Gate(g)) => gates.push(g),
            _ => return None,
        }
    }
    let text = d.to_quil().ok()?;
    let header = text.lines().next()?.strip_prefix("DEFGATE ")?.strip_suffix(" AS SEQUENCE:")?.to_string();
    let after = match header.rfind(')') {
        Some(k) => header[k + 1..].to_string(),
        None => header.split_whitespace().skip(1).collect::<Vec<_>>().join(" "),
    };
    let qs: Vec<String> = after.split_whitespace().map(|x| x.to_string()).collect();
    let seq = DefGateSequence::try_new(qs.clone(), gates.clone()).ok()?;
    if GateSpecification::Sequence(seq) == d.specification {
        Some((qs, gates))
    } else {
        None
    }
}
