//! Shared by c02 / c04 (included with `#[path]` after `mod quilgen`): abstraction of the real AST
//! into the model AST of coq/Model/PrintParse.v for the instruction kinds that quilgen::instr (the
//! C01 fragment) leaves out: PULSE / CAPTURE / RAW-CAPTURE, CALL.
#![allow(dead_code)]
use crate::quilgen::{self, Interner};
use quil_rs::instruction::*;

fn string_id(s: &str, it: &mut Interner) -> u64 {
    it.id(&format!("s:STRING({s:?})"))
}

fn memref(m: &MemoryReference, it: &mut Interner) -> String {
    format!("({}, {})", quilgen::ident(&m.name, it), m.index)
}

fn qubit(q: &Qubit, it: &mut Interner) -> Option<String> {
    Some(match q {
        Qubit::Fixed(n) => format!("(QFixed {n})"),
        Qubit::Variable(x) => format!("(QVar {})", quilgen::ident(x, it)),
        Qubit::Placeholder(_) => return None,
    })
}

fn qubits(qs: &[Qubit], it: &mut Interner) -> Option<String> {
    let v: Option<Vec<String>> = qs.iter().map(|q| qubit(q, it)).collect();
    Some(format!("[{}]", v?.join("; ")))
}

fn frame(f: &FrameIdentifier, it: &mut Interner) -> Option<String> {
    Some(format!("({}, {})", qubits(&f.qubits, it)?, string_id(&f.name, it)))
}

fn is_reserved(s: &str) -> bool {
    matches!(s.to_lowercase().as_str(), "cis" | "cos" | "exp" | "i" | "pi" | "sin" | "sqrt")
}

/// The keys of all waveform parameter maps of the instruction, to be interned first (on a fresh
/// interner, in string order) so that the model's order on `IdName` ids is the order in which
/// `WaveformInvocation::write` sorts them.
pub fn waveform_keys(i: &Instruction, out: &mut Vec<String>) {
    match i {
        Instruction::Pulse(p) => out.extend(p.waveform.parameters.keys().cloned()),
        Instruction::Capture(c) => out.extend(c.waveform.parameters.keys().cloned()),
        Instruction::CalibrationDefinition(d) => d.instructions.iter().for_each(|b| waveform_keys(b, out)),
        Instruction::MeasureCalibrationDefinition(d) => d.instructions.iter().for_each(|b| waveform_keys(b, out)),
        Instruction::CircuitDefinition(d) => d.instructions.iter().for_each(|b| waveform_keys(b, out)),
        _ => {}
    }
}

pub fn preintern(instrs: &[Instruction], it: &mut Interner) {
    let mut keys = Vec::new();
    for i in instrs {
        waveform_keys(i, &mut keys);
    }
    keys.sort();
    keys.dedup();
    for k in keys {
        if !is_reserved(&k) {
            it.id(&k);
        }
    }
}

/// a waveform invocation; the parameter map (equality ignores its order) in canonical key order
fn waveform(w: &WaveformInvocation, it: &mut Interner) -> Option<String> {
    let mut parts = w.name.split('/');
    let name = parts.next()?;
    let ext = parts.next();
    if parts.next().is_some() {
        return None;
    }
    let mut kv: Vec<(&String, &quil_rs::expression::Expression)> = w.parameters.iter().collect();
    kv.sort_by_key(|(k, _)| *k);
    if kv.len() >= 2 && kv.iter().any(|(k, _)| is_reserved(k)) {
        // the model's key order is defined on non-reserved identifiers only
        return None;
    }
    let ps: Option<Vec<String>> = kv
        .iter()
        .map(|(k, e)| Some(format!("({}, {})", quilgen::ident(k, it), quilgen::expr(e, it)?)))
        .collect();
    Some(format!(
        "{{| wname := {}; wext := {}; wparams := [{}] |}}",
        quilgen::ident(name, it),
        match ext {
            Some(x) => format!("Some {}", quilgen::ident(x, it)),
            None => "None".into(),
        },
        ps?.join("; ")
    ))
}

fn callarg(a: &UnresolvedCallArgument, it: &mut Interner) -> Option<String> {
    Some(match a {
        UnresolvedCallArgument::Identifier(x) => format!("CAId {}", quilgen::ident(x, it)),
        UnresolvedCallArgument::MemoryReference(m) => format!("CAMem {}", memref(m, it)),
        UnresolvedCallArgument::Immediate(c) => {
            if quilgen::awkward(c.re) || quilgen::awkward(c.im) || c.re.is_nan() || c.im.is_nan() {
                return None;
            }
            // format_complex treats either zero as zero
            if c.im == 0.0 && c.re == 0.0 {
                "CAImm false (VInt 0)".into()
            } else if c.im == 0.0 && c.re > 0.0 {
                format!("CAImm false {}", quilgen::numval(c.re, it))
            } else if c.re == 0.0 && c.im > 0.0 {
                format!("CAImm true {}", quilgen::numval(c.im, it))
            } else {
                return None;
            }
        }
    })
}

/// The model AST (`instr`) of an instruction without an indented body; `None` = not representable
/// (placeholders, literals outside the parsed forms).
pub fn instr(i: &Instruction, it: &mut Interner) -> Option<String> {
    Some(match i {
        Instruction::Pulse(p) => {
            format!("IPulse {} {} {}", p.blocking, frame(&p.frame, it)?, waveform(&p.waveform, it)?)
        }
        Instruction::Capture(c) => format!(
            "ICapture {} {} {} {}",
            c.blocking,
            frame(&c.frame, it)?,
            waveform(&c.waveform, it)?,
            memref(&c.memory_reference, it)
        ),
        Instruction::RawCapture(c) => format!(
            "IRawCapture {} {} {} {}",
            c.blocking,
            frame(&c.frame, it)?,
            quilgen::expr(&c.duration, it)?,
            memref(&c.memory_reference, it)
        ),
        Instruction::Call(c) => {
            let args: Option<Vec<String>> = c.arguments.iter().map(|a| callarg(a, it)).collect();
            format!("ICall {} [{}]", quilgen::ident(&c.name, it), args?.join("; "))
        }
        _ => return quilgen::instr(i, it),
    })
}
