//! Shared by the C20 and C21 harness bins: generators of programs with `DEFGATE ... AS SEQUENCE`
//! definitions, the observation of the real `Program::expand_defgate_sequences{,_with_source_map}`
//! and the printing of each (input, observed output) pair as a `QV.Model.SeqExpand.case` literal.
use qv::{Args, Rng, Run};
use quil_rs::expression::Expression;
use quil_rs::instruction::{
    DefGateSequenceExpansionError as XErr, Gate, GateDefinition, GateModifier, GateSpecification,
    Instruction, Qubit,
};
use quil_rs::program::{
    DefGateSequenceExpansion, ExpansionResult, InstructionIndex, ProgramError, SourceMap,
};
use quil_rs::quil::Quil;
use quil_rs::Program;
use std::collections::{BTreeSet, HashMap};
use std::str::FromStr;

#[allow(dead_code)]
#[derive(Clone, Copy, PartialEq, Eq)]
pub enum Mode {
    C20,
    C21,
}

// ------------------------------------------------------------------------------------------------
// Interning and Gallina printing
// ------------------------------------------------------------------------------------------------

#[derive(Default)]
struct Interner {
    map: HashMap<String, u64>,
}
impl Interner {
    fn id(&mut self, s: &str) -> u64 {
        let n = self.map.len() as u64;
        *self.map.entry(s.to_string()).or_insert(n)
    }
    fn name(&mut self, s: &str) -> String {
        format!("{}", self.id(s))
    }
}

// Numerals are printed bare: the shard header opens N_scope, and arguments of type `nat` are
// interpreted in nat_scope through the scope bound to their type.
fn nat(v: usize) -> String {
    format!("{v}")
}
/// Lists are printed with `::`/`nil`: deeply nested `[ _ ; _ ]` notations make Coq's parser
/// backtrack (observed ~10x slower shard parsing).
fn lst<T: AsRef<str>>(items: &[T]) -> String {
    if items.is_empty() {
        return "nil".to_string();
    }
    let mut s = String::from("(");
    for it in items {
        s.push_str(it.as_ref());
        s.push_str(" :: ");
    }
    s.push_str("nil)");
    s
}
fn num(v: u64) -> String {
    format!("{v}")
}

fn expr(it: &mut Interner, e: &Expression) -> String {
    match e {
        Expression::Number(c) => {
            let k = format!("num:{:016x}:{:016x}", c.re.to_bits(), c.im.to_bits());
            format!("(ENum {})", it.name(&k))
        }
        Expression::PiConstant() => "EPi".to_string(),
        Expression::Variable(v) => format!("(EVar {})", it.name(v)),
        Expression::Address(m) => format!("(EAddr {} {})", it.name(&m.name), num(m.index)),
        Expression::Prefix(p) => {
            let op = match format!("{:?}", p.operator).as_str() {
                "Plus" => 0,
                "Minus" => 1,
                other => panic!("prefix operator {other}"),
            };
            format!("(EPre {} {})", num(op), expr(it, &p.expression))
        }
        Expression::FunctionCall(f) => {
            let op = match format!("{:?}", f.function).as_str() {
                "Cis" => 0,
                "Cosine" => 1,
                "Exponent" => 2,
                "Sine" => 3,
                "SquareRoot" => 4,
                other => panic!("function {other}"),
            };
            format!("(EFun {} {})", num(op), expr(it, &f.expression))
        }
        Expression::Infix(i) => {
            let op = match format!("{:?}", i.operator).as_str() {
                "Caret" => 0,
                "Plus" => 1,
                "Minus" => 2,
                "Slash" => 3,
                "Star" => 4,
                other => panic!("infix operator {other}"),
            };
            format!("(EBin {} {} {})", num(op), expr(it, &i.left), expr(it, &i.right))
        }
    }
}

fn qubit(it: &mut Interner, q: &Qubit) -> String {
    match q {
        Qubit::Fixed(n) => format!("(QFixed {})", num(*n)),
        Qubit::Variable(v) => format!("(QVar {})", it.name(v)),
        Qubit::Placeholder(_) => "(QPh 0)".to_string(),
    }
}

fn modifier(m: &GateModifier) -> String {
    num(match m {
        GateModifier::Controlled => 0,
        GateModifier::Dagger => 1,
        GateModifier::Forked => 2,
    })
}

fn gate(it: &mut Interner, x: &Gate) -> String {
    let ps: Vec<String> = x.parameters.iter().map(|e| expr(it, e)).collect();
    let qs: Vec<String> = x.qubits.iter().map(|q| qubit(it, q)).collect();
    let ms: Vec<String> = x.modifiers.iter().map(modifier).collect();
    format!(
        "G {} {} {} {}",
        it.name(&x.name),
        lst(&ps),
        lst(&qs),
        lst(&ms)
    )
}

fn instr(it: &mut Interner, i: &Instruction) -> String {
    match i {
        Instruction::Gate(x) => format!("IGate ({})", gate(it, x)),
        other => format!("IOther {}", it.name(&format!("instr:{}", other.to_quil_or_debug()))),
    }
}

fn instrs(it: &mut Interner, l: &[Instruction]) -> String {
    lst(&l.iter().map(|i| instr(it, i)).collect::<Vec<_>>())
}

/// The content of a sequence definition is `pub(crate)`; it is read back from the definition's
/// own Quil text: the signature line gives the formal qubits, every following line is one gate,
/// re-parsed on its own.
fn sequence_content(d: &GateDefinition) -> (Vec<String>, Vec<Gate>) {
    let text = d.to_quil_or_debug();
    let mut lines = text.lines();
    let sig = lines.next().expect("signature line");
    let sig = sig
        .strip_suffix(" AS SEQUENCE:")
        .and_then(|x| x.strip_prefix("DEFGATE "))
        .unwrap_or_else(|| panic!("sequence signature {sig:?}"));
    // `name(%p, %t) q r` or `name q r`
    let formals: Vec<String> = match sig.rfind(')') {
        Some(p) => sig[p + 1..].split_whitespace().map(|x| x.to_string()).collect(),
        None => sig.split_whitespace().skip(1).map(|x| x.to_string()).collect(),
    };
    let mut gates = Vec::new();
    for line in lines {
        let t = line.trim();
        if t.is_empty() {
            continue;
        }
        let p = Program::from_str(t).unwrap_or_else(|e| panic!("body line {t:?}: {e}"));
        let body: Vec<&Instruction> = p.body_instructions().collect();
        assert_eq!(body.len(), 1, "body line {t:?}");
        match body[0] {
            Instruction::Gate(x) => gates.push(x.clone()),
            other => panic!("body line {t:?} is {other:?}"),
        }
    }
    (formals, gates)
}

fn gdef(it: &mut Interner, d: &GateDefinition) -> String {
    let spec = match &d.specification {
        GateSpecification::Matrix(_) => "SMatrix".to_string(),
        GateSpecification::Permutation(_) => "SPerm".to_string(),
        GateSpecification::PauliSum(_) => "SPauli".to_string(),
        GateSpecification::Sequence(_) => {
            let (formals, gates) = sequence_content(d);
            let fs: Vec<String> = formals.iter().map(|f| it.name(f)).collect();
            let gs: Vec<String> = gates.iter().map(|x| gate(it, x)).collect();
            format!("(SSeq {} {})", lst(&fs), lst(&gs))
        }
    };
    let ps: Vec<String> = d.parameters.iter().map(|p| it.name(p)).collect();
    format!(
        "D {} {} {}",
        it.name(&d.name),
        lst(&ps),
        spec
    )
}

fn xerr(it: &mut Interner, e: &XErr) -> String {
    match e {
        XErr::ParameterCount { expected, found } => {
            format!("EParamCount {} {}", nat(*expected), nat(*found))
        }
        XErr::CyclicSequenceGateDefinition(stack) => {
            let s: Vec<String> = stack.iter().map(|n| it.name(n)).collect();
            format!("ECycle {}", lst(&s))
        }
        XErr::QubitCount { expected, found } => {
            format!("EQubitCount {} {}", nat(*expected), nat(*found))
        }
        XErr::NonFixedQubitArgument(q) => format!("ENonFixed {}", qubit(it, q)),
        XErr::GateModifiersUnsupported(ms) => {
            format!("EMods {}", lst(&ms.iter().map(modifier).collect::<Vec<_>>()))
        }
        XErr::InvalidGateSequenceElementQubit(q) => format!("EInvalidElemQubit {}", qubit(it, q)),
        XErr::UndefinedGateSequenceElementQubit(v) => format!("EUndefElemQubit {}", it.name(v)),
    }
}

/// The abstract source map as observed through the public accessors.
#[derive(Clone, Debug, PartialEq)]
enum Entry {
    Unmod(usize, usize),
    Rewr(usize, String, usize, usize, Vec<Entry>),
}

/// `source_signature` is private; its name is read from the `Debug` rendering, which starts with
/// `DefGateSequenceExpansion { source_signature: GateSignature { name: "<name>", ...`.
fn signature_name(x: &DefGateSequenceExpansion<'_>) -> String {
    let dbg = format!("{x:?}");
    let pre = "DefGateSequenceExpansion { source_signature: GateSignature { name: \"";
    let rest = dbg.strip_prefix(pre).unwrap_or_else(|| panic!("debug shape changed: {dbg}"));
    rest[..rest.find('"').unwrap()].to_string()
}

fn observe_map(
    m: &SourceMap<InstructionIndex, ExpansionResult<DefGateSequenceExpansion<'_>>>,
) -> Vec<Entry> {
    m.entries()
        .iter()
        .map(|e| match e.target_location() {
            ExpansionResult::Unmodified(t) => Entry::Unmod(e.source_location().0, t.0),
            ExpansionResult::Rewritten(x) => Entry::Rewr(
                e.source_location().0,
                signature_name(x),
                x.range().start.0,
                x.range().end.0,
                observe_map(x.nested_expansions()),
            ),
        })
        .collect()
}

fn entries(it: &mut Interner, es: &[Entry]) -> String {
    lst(
        &es.iter()
            .map(|e| match e {
                Entry::Unmod(s, t) => format!("EUnmod {} {}", nat(*s), nat(*t)),
                Entry::Rewr(s, n, lo, hi, nested) => format!(
                    "ERewr {} {} {} {} {}",
                    nat(*s),
                    it.name(n),
                    nat(*lo),
                    nat(*hi),
                    entries(it, nested)
                ),
            })
            .collect::<Vec<_>>(),
    )
}

// ------------------------------------------------------------------------------------------------
// Observation of the implementation
// ------------------------------------------------------------------------------------------------

/// What one entry point returned, already abstracted.
enum Observed {
    Ok { body: Vec<Instruction>, kept: Vec<String>, map: Option<Vec<Entry>> },
    Err(XErr),
}

/// Everything except the body and the gate definitions must be carried over unchanged, and every
/// kept definition must be the original one.
fn rest_unchanged(before: &Program, after: &Program) -> Result<(), String> {
    if before.calibrations != after.calibrations {
        return Err("calibrations changed".into());
    }
    if before.frames != after.frames {
        return Err("frames changed".into());
    }
    if before.memory_regions != after.memory_regions {
        return Err("memory regions changed".into());
    }
    if before.waveforms != after.waveforms {
        return Err("waveforms changed".into());
    }
    if before.circuits != after.circuits {
        return Err("circuits changed".into());
    }
    if before.extern_pragma_map != after.extern_pragma_map {
        return Err("extern pragma map changed".into());
    }
    for (k, d) in &after.gate_definitions {
        if before.gate_definitions.get(k) != Some(d) {
            return Err(format!("kept definition {k} differs from the original"));
        }
    }
    Ok(())
}

fn abstract_result(
    before: &Program,
    r: Result<(Program, Option<Vec<Entry>>), ProgramError>,
) -> Result<Observed, String> {
    match r {
        Ok((p, map)) => {
            rest_unchanged(before, &p)?;
            Ok(Observed::Ok {
                body: p.body_instructions().cloned().collect(),
                kept: p.gate_definitions.keys().cloned().collect(),
                map,
            })
        }
        Err(ProgramError::DefGateSequenceExpansionError(e)) => Ok(Observed::Err(e)),
        Err(other) => Err(format!("unexpected error kind: {other:?}")),
    }
}

// ------------------------------------------------------------------------------------------------
// Mutants (QV_MUTANT=k): perturb the OBSERVED output to emulate realistic bugs in the Rust code.
// ------------------------------------------------------------------------------------------------

fn mutant() -> u32 {
    std::env::var("QV_MUTANT").ok().and_then(|s| s.parse().ok()).unwrap_or(0)
}

/// 1: qubit arguments substituted in reversed order for two-qubit gates produced by an expansion
///    (emulates zipping formals with the reversed argument list)
/// 2: a kept definition that is only *transitively* reachable from an unselected one is dropped
///    (emulates direct-reference instead of path reachability) -- done in `run_case`
/// 3: nested `Rewritten` ranges reported in absolute instead of parent-relative indices
/// 4: the cycle error reports the stack without its first element
/// 5: `Unmodified` entries report the source index as the target index
fn mutate_body(body: &mut [Instruction], source_len: usize) {
    if mutant() == 1 && body.len() > source_len {
        for i in body.iter_mut() {
            if let Instruction::Gate(x) = i {
                if x.qubits.len() == 2 && x.qubits[0] != x.qubits[1] {
                    x.qubits.swap(0, 1);
                    break;
                }
            }
        }
    }
}

fn mutate_map(es: &mut [Entry], base: usize, depth: usize) {
    match mutant() {
        3 => {
            for e in es.iter_mut() {
                if let Entry::Rewr(_, _, lo, hi, nested) = e {
                    let abs = base + *lo;
                    mutate_map(nested, abs, depth + 1);
                    if depth > 0 {
                        *lo += base;
                        *hi += base;
                    }
                }
            }
        }
        5 => {
            for e in es.iter_mut() {
                match e {
                    Entry::Unmod(s, t) => *t = *s,
                    Entry::Rewr(_, _, _, _, nested) => mutate_map(nested, 0, depth + 1),
                }
            }
        }
        _ => {}
    }
}

// ------------------------------------------------------------------------------------------------
// One case
// ------------------------------------------------------------------------------------------------

pub struct Ctx {
    pub run: Run,
    it: Interner,
    /// (literal of a definition list, name it is bound to in the shard header)
    libs: Vec<(String, String)>,
}

fn selected_desc(sel: &BTreeSet<String>) -> String {
    sel.iter().cloned().collect::<Vec<_>>().join(",")
}

/// Parse `quil`, run both entry points with the filter "name is in `sel`", print the case.
/// Returns false if the text did not parse (counted, not a case).
pub fn run_case(cx: &mut Ctx, scope: &str, quil: &str, sel: &BTreeSet<String>) -> bool {
    let desc = format!("select={{{}}} program={}", selected_desc(sel), quil);
    let program = match Program::from_str(quil) {
        Ok(mut p) => {
            // The grammar cannot express an empty sequence body; the API can.  A body consisting
            // of the single marker gate `EMPTYBODY` is replaced by the empty sequence.
            let names: Vec<String> = p.gate_definitions.keys().cloned().collect();
            for n in names {
                let d = p.gate_definitions[&n].clone();
                if let GateSpecification::Sequence(_) = d.specification {
                    let (formals, gates) = sequence_content(&d);
                    if gates.len() == 1 && gates[0].name == "EMPTYBODY" {
                        let seq = quil_rs::instruction::DefGateSequence::try_new(formals, vec![])
                            .expect("empty sequence");
                        let nd = GateDefinition::new(n.clone(), d.parameters.clone(), GateSpecification::Sequence(seq))
                            .expect("definition");
                        p.gate_definitions.insert(n, nd);
                    }
                }
            }
            p
        }
        Err(e) => {
            cx.run.count(&format!("{scope}:rejected-by-parser"));
            if std::env::var("QV_DEBUG").is_ok() {
                eprintln!("parse reject: {e}\n{quil}");
            }
            return false;
        }
    };
    run_program(cx, scope, &desc, program, sel);
    true
}

/// Run both entry points on an already built program and print the case.
pub fn run_program(cx: &mut Ctx, scope: &str, desc: &str, program: Program, sel: &BTreeSet<String>) -> bool {
    let desc = desc.to_string();
    let filter = |n: &str| sel.contains(n);

    let p1 = program.clone();
    let r1 = qv::catch(std::panic::AssertUnwindSafe(|| {
        p1.expand_defgate_sequences(filter).map(|p| (p, None))
    }));
    let r1 = match r1 {
        Ok(r) => r,
        Err(msg) => {
            cx.run.process_failure(&format!("panic in expand_defgate_sequences: {msg}"), &desc, None);
            return true;
        }
    };
    let r2 = qv::catch(std::panic::AssertUnwindSafe(|| {
        program
            .expand_defgate_sequences_with_source_map(filter)
            .map(|(p, m)| (p, Some(observe_map(&m))))
    }));
    let r2 = match r2 {
        Ok(r) => r,
        Err(msg) => {
            cx.run.process_failure(
                &format!("panic in expand_defgate_sequences_with_source_map: {msg}"),
                &desc,
                None,
            );
            return true;
        }
    };
    // "Both entry points produce the same program": compared as whole Programs (derived `==`, which
    // includes every definition kind and the cached used-qubit set), not only through the abstraction.
    if let (Ok((pa, _)), Ok((pb, _))) = (&r1, &r2) {
        if pa != pb {
            let what = if pa.get_used_qubits() != pb.get_used_qubits() {
                format!(
                    "expand_defgate_sequences and expand_defgate_sequences_with_source_map return programs with different used-qubit sets: {:?} vs {:?}",
                    pa.get_used_qubits(),
                    pb.get_used_qubits()
                )
            } else {
                "expand_defgate_sequences and expand_defgate_sequences_with_source_map return programs that are not equal (==)".to_string()
            };
            cx.run.process_failure(&what, &desc, None);
            return true;
        }
        cx.run.count("entry points: equal programs (==)");
    }
    let (o1, o2) = match (abstract_result(&program, r1), abstract_result(&program, r2)) {
        (Ok(a), Ok(b)) => (a, b),
        (Err(what), _) | (_, Err(what)) => {
            cx.run.process_failure(&what, &desc, None);
            return true;
        }
    };

    // ---- mutants, statistics
    let source: Vec<Instruction> = program.body_instructions().cloned().collect();
    for (k, d) in &program.gate_definitions {
        assert_eq!(k, &d.name, "IndexMap key differs from the definition's name");
    }
    let nseq = program
        .gate_definitions
        .values()
        .filter(|d| matches!(d.specification, GateSpecification::Sequence(_)))
        .count();
    let mut nontrivial = false;
    let mut prepare = |o: &mut Observed| match o {
        Observed::Ok { body, kept, map } => {
            if *body != source {
                nontrivial = true;
            }
            mutate_body(body, source.len());
            if mutant() == 2 {
                // drop a selected sequence definition that survived only through a path of
                // length >= 2 (a selected kept definition not mentioned by the body of any
                // unselected sequence definition)
                let direct: BTreeSet<String> = program
                    .gate_definitions
                    .values()
                    .filter(|d| {
                        matches!(d.specification, GateSpecification::Sequence(_))
                            && !sel.contains(&d.name)
                    })
                    .flat_map(|d| sequence_content(d).1.into_iter().map(|x| x.name))
                    .collect();
                kept.retain(|k| {
                    let d = &program.gate_definitions[k];
                    !(matches!(d.specification, GateSpecification::Sequence(_))
                        && sel.contains(k)
                        && !direct.contains(k))
                });
            }
            if let Some(m) = map {
                mutate_map(m, 0, 0);
            }
        }
        Observed::Err(e) => {
            nontrivial = true;
            if mutant() == 4 {
                if let XErr::CyclicSequenceGateDefinition(s) = e {
                    if s.len() > 1 {
                        s.remove(0);
                    }
                }
            }
        }
    };
    let (mut o1, mut o2) = (o1, o2);
    prepare(&mut o1);
    prepare(&mut o2);
    match &o1 {
        Observed::Ok { kept, .. } => {
            cx.run.count(&format!("{scope}:ok"));
            if kept.len() != program.gate_definitions.len() {
                cx.run.count(&format!("{scope}:ok:some-definition-dropped"));
            }
        }
        Observed::Err(e) => {
            let kind = match e {
                XErr::ParameterCount { .. } => "param-count",
                XErr::CyclicSequenceGateDefinition(_) => "cycle",
                XErr::QubitCount { .. } => "qubit-count",
                XErr::NonFixedQubitArgument(_) => "non-fixed-qubit",
                XErr::GateModifiersUnsupported(_) => "modifiers",
                XErr::InvalidGateSequenceElementQubit(_) => "invalid-element-qubit",
                XErr::UndefinedGateSequenceElementQubit(_) => "undefined-element-qubit",
            };
            cx.run.count(&format!("{scope}:error:{kind}"));
        }
    }
    cx.run.count(&format!("{scope}:cases"));
    cx.run.count(&format!("seqdefs={nseq}"));

    // ---- print
    let it = &mut cx.it;
    let defs: Vec<String> = program.gate_definitions.values().map(|d| gdef(it, d)).collect();
    let mut defs_lit = lst(&defs);
    if let Some((_, n)) = cx.libs.iter().find(|(l, _)| *l == defs_lit) {
        defs_lit = n.clone();
    }
    let selected: Vec<String> = sel.iter().map(|n| it.name(n)).collect();
    let src = instrs(it, &source);
    let s1 = match &o1 {
        Observed::Ok { body, kept, .. } => {
            let kept_s: Vec<String> = kept.iter().map(|k| it.name(k)).collect();
            format!("Ok ({}, {})", instrs(it, body), lst(&kept_s))
        }
        Observed::Err(e) => format!("Err ({})", xerr(it, e)),
    };
    // the with-source-map result repeats body and kept names only if they differ from the
    // plain entry point's
    let s2 = match &o2 {
        Observed::Ok { body, kept, map } => {
            let same = matches!(&o1, Observed::Ok { body: b1, kept: k1, .. } if b1 == body && k1 == kept);
            let m = entries(it, map.as_ref().expect("map"));
            if same {
                format!("Ok (None, {m})")
            } else {
                let kept_s: Vec<String> = kept.iter().map(|k| it.name(k)).collect();
                format!("Ok (Some ({}, {}), {m})", instrs(it, body), lst(&kept_s))
            }
        }
        Observed::Err(e) => format!("Err ({})", xerr(it, e)),
    };
    let coq = format!("({}, {}, {}, {}, {})", defs_lit, lst(&selected), src, s1, s2);
    cx.run.case(coq, &desc, nontrivial, None);
    true
}

// ------------------------------------------------------------------------------------------------
// Generators
// ------------------------------------------------------------------------------------------------

const PRELUDE: &str = "DECLARE ro BIT[4]\nDECLARE th REAL[2]\n";
const MATRIX_DEF: &str = "DEFGATE mg AS MATRIX:\n    0, 1\n    1, 0\n\n";
const PERM_DEF: &str = "DEFGATE pg AS PERMUTATION:\n    0, 1, 3, 2\n\n";

fn subsets(names: &[&str]) -> Vec<BTreeSet<String>> {
    (0..(1u32 << names.len()))
        .map(|m| {
            names
                .iter()
                .enumerate()
                .filter(|(i, _)| m & (1 << i) != 0)
                .map(|(_, n)| n.to_string())
                .collect()
        })
        .collect()
}

/// all lists over `0..k` of length <= max
fn lists(k: usize, max: usize) -> Vec<Vec<usize>> {
    let mut out = vec![vec![]];
    let mut frontier = vec![vec![]];
    for _ in 0..max {
        let mut next = Vec::new();
        for l in &frontier {
            for a in 0..k {
                let mut l2: Vec<usize> = l.clone();
                l2.push(a);
                next.push(l2);
            }
        }
        out.extend(next.iter().cloned());
        frontier = next;
    }
    out
}

/// Scope E1 -- call-graph structure.  Definitions `sa(%p) q`, `sb(%p, %t) q r`, `sc q`; every
/// body is a list over {primitive, call sa, call sb, call sc} with correct arities (so every
/// self-/mutual cycle and every nesting over three names occurs), all filters, several programs.
const E1_SIG: [&str; 3] = ["sa(%p) q", "sb(%p, %t) q r", "sc q"];
const E1_NAMES: [&str; 3] = ["sa", "sb", "sc"];
/// E1_ATOM[caller][atom]: atom 0 = primitive, 1..3 = call of sa/sb/sc
const E1_ATOM: [[&str; 4]; 3] = [
    ["RZ(%p) q", "sa(-%p) q", "sb(%p, 2*%p) q q", "sc q"],
    ["CNOT r q", "sa(%t) r", "sb(%t, %p) r q", "sc r"],
    ["mg q", "sa(pi) q", "sb(th[0], 0.5) q q", "sc q"],
];
const E1_PROGRAMS: [&str; 4] = [
    "sa(0.25) 0\n",
    "MEASURE 1 ro[1]\nsb(pi, th[1]) 1 2\n",
    "sc 3\nMOVE ro[0] 1\n",
    "MEASURE 0 ro[0]\nsc 1\nMOVE ro[1] 1\nsa(1) 2\nsb(1, 2) 0 1\n",
];

fn e1_defs(ndefs: usize, bodies: &[&Vec<usize>]) -> String {
    let mut s = String::new();
    s.push_str(PRELUDE);
    s.push_str(MATRIX_DEF);
    for d in 0..ndefs {
        s.push_str(&format!("DEFGATE {} AS SEQUENCE:\n", E1_SIG[d]));
        for a in bodies[d] {
            s.push_str(&format!("    {}\n", E1_ATOM[d][*a]));
        }
        if bodies[d].is_empty() {
            s.push_str(&format!("    EMPTYBODY {}\n", if d == 1 { "r" } else { "q" }));
        }
        s.push('\n');
    }
    s
}

fn scope_e1(cx: &mut Ctx, thorough: bool) {
    // three definitions
    let (la, lb, lc) = if thorough { (2, 2, 2) } else { (2, 1, 1) };
    let (ba, bb, bc) = (lists(4, la), lists(4, lb), lists(4, lc));
    let filters = subsets(&E1_NAMES);
    let programs: &[&str] = if thorough { &E1_PROGRAMS[..] } else { &E1_PROGRAMS[..] };
    for (ia, a) in ba.iter().enumerate() {
        for (ib, b) in bb.iter().enumerate() {
            for (ic, c) in bc.iter().enumerate() {
                let defs = e1_defs(3, &[a, b, c]);
                for (fi, f) in filters.iter().enumerate() {
                    for (pi, p) in programs.iter().enumerate() {
                        // thorough: every combination; quick: every combination of definitions
                        // and filters, with the program rotating
                        // (thorough: two of the four programs, rotating)
                        let r = ia + ib + ic + fi;
                        if (!thorough && r % programs.len() != pi) || (thorough && r % 2 != pi % 2) {
                            continue;
                        }
                        run_case(cx, "E1", &format!("{defs}{p}"), f);
                    }
                }
            }
        }
    }
    // two definitions (sa, sb), bodies of length <= 2 over {primitive, sa, sb}
    let b2 = lists(3, 2);
    let filters2 = subsets(&E1_NAMES[..2]);
    for a in &b2 {
        for b in &b2 {
            let defs = e1_defs(2, &[a, b]);
            for f in &filters2 {
                for p in &E1_PROGRAMS[..2] {
                    run_case(cx, "E1b", &format!("{defs}{p}"), f);
                }
            }
        }
    }
}

/// Scope E2 -- invocation errors.  A fixed library with definitions that are fine (`sa`, `sb`),
/// that fail only when expanded (`sc`: parameter arity inside, `sd`: modifier inside, `sf`: qubit
/// arity inside), with duplicate formals (`se`), and a matrix and a permutation gate; program
/// bodies are all lists up to the stated length over an alphabet of good and bad invocations.
const E2_LIB: &str = "DEFGATE sa(%p) q AS SEQUENCE:\n    RZ(%p) q\n    mg q\n\n\
DEFGATE sb(%p, %t) q r AS SEQUENCE:\n    sa(%t) r\n    CNOT r q\n    sa(%p+%t) q\n\n\
DEFGATE sc q AS SEQUENCE:\n    H q\n    sa q\n\n\
DEFGATE sd(%p) q r AS SEQUENCE:\n    sa(%p) r\n    DAGGER sa(%p) q\n\n\
DEFGATE se(%p, %p) q q AS SEQUENCE:\n    RZ(%p) q\n    sa(sin(%p)) q\n\n\
DEFGATE sf q AS SEQUENCE:\n    pg q q\n    sa(1) q q\n\n";
const E2_NAMES: [&str; 6] = ["sa", "sb", "sc", "sd", "se", "sf"];
const E2_ITEMS: [&str; 18] = [
    "sa(0.5) 0",
    "sa 0",
    "sa(1, 2) 0",
    "sa(0.5) 0 1",
    "sa(0.5) q",
    "DAGGER sa(0.5) 0",
    "CONTROLLED sa(0.5) 1 0",
    "sb(th[0], 2*pi) 0 1",
    "sb(1, 2) 3 3",
    "sb(1, 2) 0 %v",
    "sc 2",
    "sd(1) 0 1",
    "se(1, 2) 4 5",
    "sf 1",
    "mg 0",
    "X 0",
    "MEASURE 0 ro[0]",
    "MOVE ro[1] 1",
];

fn scope_e2(cx: &mut Ctx, thorough: bool) {
    let filters = subsets(&E2_NAMES);
    let bodies = lists(E2_ITEMS.len(), if thorough { 3 } else { 2 });
    let head = format!("{PRELUDE}{MATRIX_DEF}{PERM_DEF}{E2_LIB}");
    for (bi, b) in bodies.iter().enumerate() {
        let mut text = head.clone();
        for a in b {
            text.push_str(E2_ITEMS[*a]);
            text.push('\n');
        }
        for (fi, f) in filters.iter().enumerate() {
            // quick: lists up to 2 with every 8th filter (rotating), plus all filters for lists up
            // to 1; thorough: lists up to 3 with every 8th filter (rotating), all for lists up to 2
            let full = if thorough { b.len() <= 2 } else { b.len() <= 1 };
            let stride = 8;
            if full || (bi + fi) % stride == 0 {
                run_case(cx, "E2", &text, f);
            }
        }
    }
}

/// Scope R -- seeded random systems: up to 5 definitions with random signatures (sometimes
/// duplicate formals, sometimes matrix/permutation), bodies of up to 4 elements (primitive or a
/// call, mostly of the right arity), random filter, program bodies of up to 6 instructions.
fn scope_random(cx: &mut Ctx, rng: &mut Rng, count: usize) {
    let pnames = ["p", "t", "u"];
    let qnames = ["q", "r", "s"];
    for _ in 0..count {
        let ndefs = rng.range(1, 5);
        // signatures first
        struct Sig {
            name: String,
            params: Vec<String>,
            qubits: Vec<String>,
            seq: bool,
        }
        let mut sigs = Vec::new();
        for d in 0..ndefs {
            let seq = rng.chance(5, 6);
            let np = rng.range(0, 2);
            let nq = rng.range(1, 3);
            let mut params: Vec<String> = (0..np).map(|i| pnames[i].to_string()).collect();
            let mut qubits: Vec<String> = (0..nq).map(|i| qnames[i].to_string()).collect();
            if np == 2 && rng.chance(1, 10) {
                params[1] = params[0].clone();
            }
            if nq >= 2 && rng.chance(1, 10) {
                qubits[1] = qubits[0].clone();
            }
            sigs.push(Sig { name: format!("g{d}"), params, qubits, seq });
        }
        let mut text = String::from(PRELUDE);
        let call = |rng: &mut Rng, sig: &Sig, pvars: &[String], qvars: &[String], top: bool| -> String {
            let mut np = sig.params.len();
            let mut nq = if sig.seq { sig.qubits.len() } else { 1 };
            if rng.chance(1, 12) {
                np = rng.range(0, 2);
            }
            if rng.chance(1, 12) {
                nq = rng.range(1, 3);
            }
            let mut s = String::new();
            if rng.chance(1, 20) {
                s.push_str(*rng.pick(&["DAGGER ", "CONTROLLED ", "DAGGER DAGGER "]));
            }
            s.push_str(&sig.name);
            if np > 0 {
                let ps: Vec<String> = (0..np)
                    .map(|_| {
                        let leaf = if !pvars.is_empty() && rng.chance(2, 3) {
                            format!("%{}", rng.pick(pvars))
                        } else {
                            (*rng.pick(&["pi", "0.5", "2", "th[0]", "th[1]"])).to_string()
                        };
                        match rng.below(5) {
                            0 => format!("-{leaf}"),
                            1 => format!("2*{leaf}"),
                            2 => format!("cos({leaf})"),
                            3 if !pvars.is_empty() => format!("{leaf}+%{}", rng.pick(pvars)),
                            _ => leaf,
                        }
                    })
                    .collect();
                s.push_str(&format!("({})", ps.join(", ")));
            }
            for _ in 0..nq {
                if top {
                    if rng.chance(1, 25) {
                        s.push_str(" v");
                    } else {
                        s.push_str(&format!(" {}", rng.below(4)));
                    }
                } else {
                    s.push_str(&format!(" {}", rng.pick(qvars)));
                }
            }
            s
        };
        for sig in &sigs {
            if !sig.seq {
                text.push_str(&format!("DEFGATE {} AS MATRIX:\n    0, 1\n    1, 0\n\n", sig.name));
                continue;
            }
            let ps = if sig.params.is_empty() && rng.chance(1, 2) {
                String::new()
            } else {
                format!("({})", sig.params.iter().map(|p| format!("%{p}")).collect::<Vec<_>>().join(", "))
            };
            text.push_str(&format!("DEFGATE {}{} {} AS SEQUENCE:\n", sig.name, ps, sig.qubits.join(" ")));
            let nb = rng.range(0, 4);
            if nb == 0 {
                text.push_str(&format!("    EMPTYBODY {}\n", sig.qubits[0]));
            }
            for _ in 0..nb {
                if rng.chance(2, 5) {
                    let q = rng.pick(&sig.qubits);
                    let prim = match rng.below(3) {
                        0 => format!("H {q}"),
                        1 if !sig.params.is_empty() => format!("RZ(%{}) {q}", rng.pick(&sig.params)),
                        1 => format!("RX(pi/2) {q}"),
                        _ => format!("CNOT {q} {}", rng.pick(&sig.qubits)),
                    };
                    text.push_str(&format!("    {prim}\n"));
                } else {
                    // prefer later definitions (acyclic) but allow any
                    let target = if rng.chance(3, 4) {
                        let me = sigs.iter().position(|s| s.name == sig.name).unwrap();
                        if me + 1 < sigs.len() { rng.range(me + 1, sigs.len() - 1) } else { rng.below(sigs.len()) }
                    } else {
                        rng.below(sigs.len())
                    };
                    let c = call(rng, &sigs[target], &sig.params, &sig.qubits, false);
                    text.push_str(&format!("    {c}\n"));
                }
            }
            text.push('\n');
        }
        let nbody = rng.range(0, 6);
        for _ in 0..nbody {
            match rng.below(6) {
                0 => text.push_str(&format!("MEASURE {} ro[{}]\n", rng.below(4), rng.below(4))),
                1 => text.push_str(&format!("MOVE ro[{}] {}\n", rng.below(4), rng.below(2))),
                2 => text.push_str(&format!("X {}\n", rng.below(4))),
                _ => {
                    let t = rng.below(sigs.len());
                    let c = call(rng, &sigs[t], &[], &[], true);
                    text.push_str(&c);
                    text.push('\n');
                }
            }
        }
        let sel: BTreeSet<String> = sigs
            .iter()
            .filter(|_| rng.chance(2, 3))
            .map(|s| s.name.clone())
            .collect();
        run_case(cx, "R", &text, &sel);
    }
}

/// Scope A -- programs the grammar cannot express, built through the API on top of the E2 library:
/// placeholder qubit arguments (non-fixed), the FORKED modifier, a body that is only such a gate.
fn scope_api(cx: &mut Ctx) {
    use quil_rs::instruction::QubitPlaceholder;
    let head = format!("{PRELUDE}{MATRIX_DEF}{PERM_DEF}{E2_LIB}");
    let num = |x: f64| Expression::Number(num_complex::Complex64::new(x, 0.0));
    let variants: Vec<(&str, Gate)> = vec![
        (
            "sa(0.5) <placeholder>",
            Gate { name: "sa".into(), parameters: vec![num(0.5)], qubits: vec![Qubit::Placeholder(QubitPlaceholder::default())], modifiers: vec![] },
        ),
        (
            "sb(1, 2) 0 <placeholder>",
            Gate { name: "sb".into(), parameters: vec![num(1.0), num(2.0)], qubits: vec![Qubit::Fixed(0), Qubit::Placeholder(QubitPlaceholder::default())], modifiers: vec![] },
        ),
        (
            "FORKED sa(0.5, 0.25) 1 0",
            Gate { name: "sa".into(), parameters: vec![num(0.5), num(0.25)], qubits: vec![Qubit::Fixed(1), Qubit::Fixed(0)], modifiers: vec![GateModifier::Forked] },
        ),
        (
            "FORKED DAGGER sa(0.5) 1 0",
            Gate { name: "sa".into(), parameters: vec![num(0.5)], qubits: vec![Qubit::Fixed(1), Qubit::Fixed(0)], modifiers: vec![GateModifier::Forked, GateModifier::Dagger] },
        ),
        (
            "mg <placeholder>",
            Gate { name: "mg".into(), parameters: vec![], qubits: vec![Qubit::Placeholder(QubitPlaceholder::default())], modifiers: vec![] },
        ),
    ];
    for (what, gate) in &variants {
        for pre in ["", "sa(0.5) 0\n", "MEASURE 0 ro[0]\nsc 2\n"] {
            for f in subsets(&["sa", "sb", "sc"]) {
                let mut f = f.clone();
                f.insert("sd".into());
                let text = format!("{head}{pre}");
                let mut program = Program::from_str(&text).expect("API scope text parses");
                program.add_instruction(Instruction::Gate(gate.clone()));
                let desc = format!(
                    "select={{{}}} program={} +api-appended-gate: {}",
                    selected_desc(&f),
                    text,
                    what
                );
                run_program(cx, "A", &desc, program, &f);
            }
        }
    }
}

/// `--replay`: show what the implementation does on one case.
fn replay_print(quil: &str, sel: &BTreeSet<String>) {
    let program = match Program::from_str(quil) {
        Ok(p) => p,
        Err(e) => {
            println!("the program does not parse: {e}");
            return;
        }
    };
    let filter = |n: &str| sel.contains(n);
    println!("--- filter selects: {:?}", sel);
    match program.clone().expand_defgate_sequences(filter) {
        Ok(p) => println!(
            "--- expand_defgate_sequences: kept definitions {:?}; program:\n{}",
            p.gate_definitions.keys().collect::<Vec<_>>(),
            p.to_quil_or_debug()
        ),
        Err(e) => println!("--- expand_defgate_sequences: error {e:?}"),
    }
    match program.expand_defgate_sequences_with_source_map(filter) {
        Ok((p, m)) => println!(
            "--- expand_defgate_sequences_with_source_map: kept definitions {:?}; body:\n{}\n--- source map: {:?}",
            p.gate_definitions.keys().collect::<Vec<_>>(),
            p.body_instructions().map(|i| i.to_quil_or_debug()).collect::<Vec<_>>().join("\n"),
            observe_map(&m)
        ),
        Err(e) => println!("--- expand_defgate_sequences_with_source_map: error {e:?}"),
    }
}

pub fn main_with(mode: Mode) {
    let args = Args::parse();
    let header = "From Coq Require Import List BinNat.\nFrom QV Require Import Model.SeqExpand.\nImport ListNotations.\nOpen Scope N_scope.";
    let eval = match mode {
        Mode::C20 => "failing20",
        Mode::C21 => "failing21",
    };
    // one interner for the whole run; the E2 library is bound once in the shard header
    let mut it = Interner::default();
    let e2head = format!("{PRELUDE}{MATRIX_DEF}{PERM_DEF}{E2_LIB}");
    let e2prog = Program::from_str(&e2head).expect("E2 library parses");
    let e2lit = lst(&e2prog.gate_definitions.values().map(|d| gdef(&mut it, d)).collect::<Vec<_>>());
    let header = format!("{header}\nDefinition e2lib : list gdef := {e2lit}.");
    let run = Run::new(&args.out, &header, "case", eval, 1000);
    let mut cx = Ctx { run, it, libs: vec![(e2lit, "e2lib".to_string())] };
    if let Some(r) = &args.replay {
        // --replay "select={a,b} program=<quil with \n escapes>"
        let r = r.replace("\\n", "\n");
        let (selpart, prog) = r.split_once(" program=").expect("replay format");
        let names = selpart.trim_start_matches("select={").trim_end_matches('}');
        let sel: BTreeSet<String> =
            names.split(',').filter(|s| !s.is_empty()).map(|s| s.to_string()).collect();
        let prog = prog.split(" +api-appended-gate: ").next().unwrap();
        replay_print(prog, &sel);
        run_case(&mut cx, "replay", prog, &sel);
        cx.run.finish("replay of one case", false, serde_json::json!({}));
        return;
    }
    let thorough = args.thorough();
    scope_e1(&mut cx, thorough);
    let e1 = cx.run.evaluations;
    scope_e2(&mut cx, thorough);
    let e2 = cx.run.evaluations - e1;
    let mut rng = Rng::new(args.seed);
    let nrand = if thorough { 40000 } else { 2500 };
    scope_random(&mut cx, &mut rng, nrand);
    let rnd = cx.run.evaluations - e1 - e2;
    scope_api(&mut cx);
    cx.run.finish(
        "E1 (exhaustive): definitions sa(%p) q / sb(%p,%t) q r / sc q whose bodies are all lists (length <= 2, \
         quick tier <= 2/1/1) over {primitive, call sa, call sb, call sc} x all 8 filters x 4 programs (quick: \
         program rotating), plus all two-definition systems with bodies <= 2 x 4 filters x 2 programs. \
         E2 (exhaustive): a fixed library of good and ill-formed-when-expanded definitions, program bodies = \
         all lists (length <= 2 quick / 3 thorough) over 18 good and bad invocations and non-gate instructions \
         x filters over 6 names. R: seeded random systems (<= 5 definitions, bodies <= 4, programs <= 6). A: API-built programs \
         (placeholder qubit arguments, FORKED modifiers) on the E2 library. \
         Distinct by (filter, program text); non-trivial = the expansion changed the body or reported an error.",
        true,
        serde_json::json!({"E1_cases": e1, "E2_cases": e2, "random_cases": rnd}),
    );
}
