//! Printers for Gallina literals.
pub fn n(v: u64) -> String {
    format!("{v}%N")
}
pub fn z(v: i64) -> String {
    if v < 0 {
        format!("({v})%Z")
    } else {
        format!("{v}%Z")
    }
}
pub fn list<T: AsRef<str>>(items: &[T]) -> String {
    let mut s = String::from("[");
    for (i, it) in items.iter().enumerate() {
        if i > 0 {
            s.push_str("; ");
        }
        s.push_str(it.as_ref());
    }
    s.push(']');
    s
}
pub fn pair(a: &str, b: &str) -> String {
    format!("({a}, {b})")
}
pub fn option(o: Option<String>) -> String {
    match o {
        Some(x) => format!("(Some {x})"),
        None => "None".to_string(),
    }
}
pub fn boolean(b: bool) -> &'static str {
    if b {
        "true"
    } else {
        "false"
    }
}
/// A byte string as `list N` (each element < 256).
pub fn bytes(s: &[u8]) -> String {
    let v: Vec<String> = s.iter().map(|b| format!("{b}")).collect();
    format!("[{}]%N", v.join("; "))
}
