//! Shared by c14 / c15: the harness's own statement of the Quil specification's gate matrices
//! (symbolic, printed into the Coq cases and compared there with `spec_table`; evaluated here
//! numerically), gate construction, dense complex matrices.
#![allow(dead_code)]
use num_complex::Complex64;
use quil_rs::expression::Expression;
use quil_rs::instruction::{Gate, GateModifier, Qubit};
use std::f64::consts::{FRAC_1_SQRT_2, FRAC_PI_4, PI};

pub type C = Complex64;
pub type Mat = Vec<Vec<C>>;

#[derive(Clone, Copy, Debug, PartialEq)]
pub enum Ang {
    Theta,
    Half,
}

#[derive(Clone, Debug, PartialEq)]
pub enum Entry {
    E0,
    E1,
    Ei,
    Es,
    Ecis4,
    Cos(Ang),
    Sin(Ang),
    Cis(Ang),
    CisNeg(Ang),
    Neg(Box<Entry>),
    Add(Box<Entry>, Box<Entry>),
    Sub(Box<Entry>, Box<Entry>),
    Mul(Box<Entry>, Box<Entry>),
    /// an unrecognised numeric value (never equal to anything in Coq)
    Unknown,
}
use Entry::*;

impl Entry {
    pub fn eval(&self, theta: f64) -> C {
        let a = |x: &Ang| match x {
            Ang::Theta => theta,
            Ang::Half => theta / 2.0,
        };
        match self {
            E0 => C::new(0.0, 0.0),
            E1 => C::new(1.0, 0.0),
            Ei => C::new(0.0, 1.0),
            Es => C::new(FRAC_1_SQRT_2, 0.0),
            Ecis4 => C::cis(FRAC_PI_4),
            Cos(x) => C::new(a(x).cos(), 0.0),
            Sin(x) => C::new(a(x).sin(), 0.0),
            Cis(x) => C::cis(a(x)),
            CisNeg(x) => C::cis(-a(x)),
            Neg(e) => -e.eval(theta),
            Add(e, f) => e.eval(theta) + f.eval(theta),
            Sub(e, f) => e.eval(theta) - f.eval(theta),
            Mul(e, f) => e.eval(theta) * f.eval(theta),
            Unknown => C::new(f64::NAN, f64::NAN),
        }
    }
    pub fn coq(&self) -> String {
        let a = |x: &Ang| match x {
            Ang::Theta => "Theta",
            Ang::Half => "HalfTheta",
        };
        match self {
            E0 => "E0".into(),
            E1 => "E1".into(),
            Ei => "Ei".into(),
            Es => "Es".into(),
            Ecis4 => "Ecis4".into(),
            Cos(x) => format!("(Ecos {})", a(x)),
            Sin(x) => format!("(Esin {})", a(x)),
            Cis(x) => format!("(Ecis {})", a(x)),
            CisNeg(x) => format!("(Ecisneg {})", a(x)),
            Neg(e) => format!("(Eneg {})", e.coq()),
            Add(e, f) => format!("(Eadd {} {})", e.coq(), f.coq()),
            Sub(e, f) => format!("(Esub {} {})", e.coq(), f.coq()),
            Mul(e, f) => format!("(Emul {} {})", e.coq(), f.coq()),
            Unknown => "(Eadd E0 E0)".into(),
        }
    }
}

pub fn neg(e: Entry) -> Entry {
    Neg(Box::new(e))
}
pub fn mul(e: Entry, f: Entry) -> Entry {
    Mul(Box::new(e), Box::new(f))
}

pub fn table_coq(t: &[Vec<Entry>]) -> String {
    let rows: Vec<String> = t
        .iter()
        .map(|r| format!("[{}]", r.iter().map(|e| e.coq()).collect::<Vec<_>>().join("; ")))
        .collect();
    format!("[{}]", rows.join("; "))
}

pub fn eval_table(t: &[Vec<Entry>], theta: f64) -> Mat {
    t.iter().map(|r| r.iter().map(|e| e.eval(theta)).collect()).collect()
}

#[derive(Clone, Copy, Debug, PartialEq)]
pub struct GateInfo {
    pub name: &'static str,
    pub coq: &'static str,
    pub arity: usize,
    pub param: bool,
}

pub const GATES: [GateInfo; 22] = [
    GateInfo { name: "I", coq: "GI", arity: 1, param: false },
    GateInfo { name: "X", coq: "GX", arity: 1, param: false },
    GateInfo { name: "Y", coq: "GY", arity: 1, param: false },
    GateInfo { name: "Z", coq: "GZ", arity: 1, param: false },
    GateInfo { name: "H", coq: "GH", arity: 1, param: false },
    GateInfo { name: "S", coq: "GS", arity: 1, param: false },
    GateInfo { name: "T", coq: "GT", arity: 1, param: false },
    GateInfo { name: "CNOT", coq: "GCNOT", arity: 2, param: false },
    GateInfo { name: "CCNOT", coq: "GCCNOT", arity: 3, param: false },
    GateInfo { name: "CZ", coq: "GCZ", arity: 2, param: false },
    GateInfo { name: "SWAP", coq: "GSWAP", arity: 2, param: false },
    GateInfo { name: "CSWAP", coq: "GCSWAP", arity: 3, param: false },
    GateInfo { name: "ISWAP", coq: "GISWAP", arity: 2, param: false },
    GateInfo { name: "RX", coq: "GRX", arity: 1, param: true },
    GateInfo { name: "RY", coq: "GRY", arity: 1, param: true },
    GateInfo { name: "RZ", coq: "GRZ", arity: 1, param: true },
    GateInfo { name: "PHASE", coq: "GPHASE", arity: 1, param: true },
    GateInfo { name: "CPHASE", coq: "GCPHASE", arity: 2, param: true },
    GateInfo { name: "CPHASE00", coq: "GCPHASE00", arity: 2, param: true },
    GateInfo { name: "CPHASE01", coq: "GCPHASE01", arity: 2, param: true },
    GateInfo { name: "CPHASE10", coq: "GCPHASE10", arity: 2, param: true },
    GateInfo { name: "PSWAP", coq: "GPSWAP", arity: 2, param: true },
];

fn perm_table(dim: usize, images: &[usize]) -> Vec<Vec<Entry>> {
    // column c has its 1 in row images[c]
    (0..dim).map(|r| (0..dim).map(|c| if images[c] == r { E1 } else { E0 }).collect()).collect()
}
fn diag_table(d: Vec<Entry>) -> Vec<Vec<Entry>> {
    let n = d.len();
    (0..n).map(|r| (0..n).map(|c| if r == c { d[r].clone() } else { E0 }).collect()).collect()
}

/// The Quil specification, section 4.3 (Standard Gate Definitions), written independently of the
/// Rust tables under test and of the Coq text (permutation gates from their action on basis states,
/// diagonal gates from their diagonals).
pub fn spec_table(name: &str) -> Vec<Vec<Entry>> {
    let t = Ang::Theta;
    let h = Ang::Half;
    match name {
        "I" => diag_table(vec![E1, E1]),
        "X" => perm_table(2, &[1, 0]),
        "Y" => vec![vec![E0, neg(Ei)], vec![Ei, E0]],
        "Z" => diag_table(vec![E1, neg(E1)]),
        "H" => vec![vec![Es, Es], vec![Es, neg(Es)]],
        "S" => diag_table(vec![E1, Ei]),
        "T" => diag_table(vec![E1, Ecis4]),
        // |c t> -> |c, t xor c>
        "CNOT" => perm_table(4, &[0, 1, 3, 2]),
        "CCNOT" => perm_table(8, &[0, 1, 2, 3, 4, 5, 7, 6]),
        "CZ" => diag_table(vec![E1, E1, E1, neg(E1)]),
        "SWAP" => perm_table(4, &[0, 2, 1, 3]),
        "CSWAP" => perm_table(8, &[0, 1, 2, 3, 4, 6, 5, 7]),
        "ISWAP" => vec![
            vec![E1, E0, E0, E0],
            vec![E0, E0, Ei, E0],
            vec![E0, Ei, E0, E0],
            vec![E0, E0, E0, E1],
        ],
        "RX" => vec![
            vec![Cos(h), neg(mul(Ei, Sin(h)))],
            vec![neg(mul(Ei, Sin(h))), Cos(h)],
        ],
        "RY" => vec![vec![Cos(h), neg(Sin(h))], vec![Sin(h), Cos(h)]],
        "RZ" => diag_table(vec![CisNeg(h), Cis(h)]),
        "PHASE" => diag_table(vec![E1, Cis(t)]),
        "CPHASE00" => diag_table(vec![Cis(t), E1, E1, E1]),
        "CPHASE01" => diag_table(vec![E1, Cis(t), E1, E1]),
        "CPHASE10" => diag_table(vec![E1, E1, Cis(t), E1]),
        "CPHASE" => diag_table(vec![E1, E1, E1, Cis(t)]),
        "PSWAP" => vec![
            vec![E1, E0, E0, E0],
            vec![E0, E0, Cis(t), E0],
            vec![E0, Cis(t), E0, E0],
            vec![E0, E0, E0, E1],
        ],
        other => panic!("unknown gate {other}"),
    }
}

pub const THETAS: [f64; 16] = [
    0.0,
    PI,
    -PI,
    PI / 2.0,
    -PI / 2.0,
    PI / 4.0,
    2.0 * PI,
    3.0 * PI,
    7.5,
    -7.0,
    0.1,
    1.0,
    -2.5,
    1.0e-3,
    PI / 3.0,
    5.0 * PI / 4.0,
];

pub fn make_gate(name: &str, params: &[f64], qubits: &[u64], modifiers: Vec<GateModifier>) -> Gate {
    Gate::new(
        name,
        params.iter().map(|t| Expression::Number(C::new(*t, 0.0))).collect(),
        qubits.iter().map(|q| Qubit::Fixed(*q)).collect(),
        modifiers,
    )
    .expect("valid gate")
}

pub fn to_mat(m: &quil_rs::instruction::Matrix) -> Mat {
    let (r, c) = (m.shape()[0], m.shape()[1]);
    (0..r).map(|i| (0..c).map(|j| m[[i, j]]).collect()).collect()
}

pub fn max_diff(a: &Mat, b: &Mat) -> f64 {
    if a.len() != b.len() || a.iter().zip(b).any(|(x, y)| x.len() != y.len()) {
        return f64::INFINITY;
    }
    let mut d: f64 = 0.0;
    for (x, y) in a.iter().zip(b) {
        for (p, q) in x.iter().zip(y) {
            let e = (p - q).norm();
            if e.is_nan() {
                return f64::INFINITY;
            }
            d = d.max(e);
        }
    }
    d
}

pub fn identity(n: usize) -> Mat {
    (0..n).map(|r| (0..n).map(|c| if r == c { C::new(1.0, 0.0) } else { C::new(0.0, 0.0) }).collect()).collect()
}
pub fn matmul(a: &Mat, b: &Mat) -> Mat {
    let n = a.len();
    let m = b[0].len();
    let k = b.len();
    (0..n)
        .map(|i| (0..m).map(|j| (0..k).map(|t| a[i][t] * b[t][j]).sum()).collect())
        .collect()
}
pub fn adjoint(a: &Mat) -> Mat {
    let n = a.len();
    let m = a[0].len();
    (0..m).map(|i| (0..n).map(|j| a[j][i].conj()).collect()).collect()
}

/// All injective placements of `k` qubits into `0..n`.
pub fn placements(k: usize, n: u64) -> Vec<Vec<u64>> {
    fn go(k: usize, n: u64, cur: &mut Vec<u64>, out: &mut Vec<Vec<u64>>) {
        if cur.len() == k {
            out.push(cur.clone());
            return;
        }
        for q in 0..n {
            if !cur.contains(&q) {
                cur.push(q);
                go(k, n, cur, out);
                cur.pop();
            }
        }
    }
    let mut out = Vec::new();
    go(k, n, &mut Vec::new(), &mut out);
    out
}

/// Recognise a constant table entry (1e-12).
pub fn recognise(v: C) -> Entry {
    let cands: [(Entry, C); 8] = [
        (E0, C::new(0.0, 0.0)),
        (E1, C::new(1.0, 0.0)),
        (neg(E1), C::new(-1.0, 0.0)),
        (Ei, C::new(0.0, 1.0)),
        (neg(Ei), C::new(0.0, -1.0)),
        (Es, C::new(FRAC_1_SQRT_2, 0.0)),
        (neg(Es), C::new(-FRAC_1_SQRT_2, 0.0)),
        (Ecis4, C::cis(FRAC_PI_4)),
    ];
    for (e, c) in cands {
        if (v - c).norm() <= 1e-12 {
            return e;
        }
    }
    Unknown
}

/// The specification's lifting, written independently for the harness's own use (C15): entry
/// (r, c) of the k-qubit matrix `m` placed on `qs` (first listed qubit = most significant bit of
/// m's index) in an n-qubit space with qubit 0 the least significant bit.
pub fn lift_spec(m: &Mat, qs: &[u64], n: u64) -> Mat {
    let dim = 1usize << n;
    let gather = |x: usize| qs.iter().fold(0usize, |acc, q| acc * 2 + ((x >> q) & 1));
    let mask: usize = qs.iter().fold(0usize, |acc, q| acc | (1usize << q));
    (0..dim)
        .map(|r| {
            (0..dim)
                .map(|c| if (r & !mask) == (c & !mask) { m[gather(r)][gather(c)] } else { C::new(0.0, 0.0) })
                .collect()
        })
        .collect()
}
