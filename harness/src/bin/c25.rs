//! C25 — computed schedules are ASAP and frame-exclusive.
//! Model: coq/Model/Schedule.v (ScheduledBasicBlock::as_schedule, BasicBlock::as_schedule).
//! Times are exact dyadic rationals in f64; they are printed as integer multiples of 2^-10 s.
#[path = "../graphgen.rs"]
mod graphgen;
use graphgen::*;
use qv::{gallina as g, Args, Rng, Run};
use quil_rs::instruction::{
    CalibrationDefinition, CalibrationIdentifier, DefaultHandler, ExternSignatureMap, Instruction,
    MeasureCalibrationDefinition, MeasureCalibrationIdentifier, Pragma, PragmaArgument, Qubit,
};
use quil_rs::program::analysis::{BasicBlock, BasicBlockScheduleError, ControlFlowGraph};
use quil_rs::program::scheduling::{ComputedScheduleError, Schedule, Seconds};
use quil_rs::quil::Quil;
use quil_rs::Program;
use std::collections::HashMap;
use std::str::FromStr;

const HEADER: &str = "From Coq Require Import List NArith ZArith.\nFrom QV Require Import Model.DepQueue Model.Graph Model.Schedule.\nImport ListNotations.\nOpen Scope N_scope.";
const UNIT: f64 = 1024.0;

fn to_units(v: f64) -> Option<i64> {
    let x = v * UNIT;
    if x.is_finite() && x.fract() == 0.0 && x.abs() < 1e15 {
        Some(x as i64)
    } else {
        None
    }
}

fn zlit(v: i64) -> String {
    if v < 0 {
        format!("({v})%Z")
    } else {
        format!("{v}%Z")
    }
}

#[derive(Clone, Debug, PartialEq)]
enum SObs {
    Err(&'static str),
    Ok(Vec<(u64, i64, i64)>, i64),
    Inexact,
}

fn observe_schedule(s: &Schedule<Seconds>) -> SObs {
    let mut items = vec![];
    for it in s.items() {
        match (to_units(it.time_span.start_time.0), to_units(it.time_span.duration.0)) {
            (Some(a), Some(d)) => items.push((it.instruction_index as u64 + 1, a, d)),
            _ => return SObs::Inexact,
        }
    }
    items.sort();
    match to_units(s.duration().0) {
        Some(t) => SObs::Ok(items, t),
        None => SObs::Inexact,
    }
}

fn mutate_sched(obs: &mut SObs) {
    let k: u32 = std::env::var("QV_MUTANT").ok().and_then(|s| s.parse().ok()).unwrap_or(0);
    if let SObs::Ok(items, total) = obs {
        match k {
            // 1: the max over predecessor end times forgets the last predecessor (off by one):
            //    emulate by starting the latest-starting item one unit early
            1 => {
                if let Some(x) = items.iter_mut().filter(|x| x.1 > 0).max_by_key(|x| x.1) {
                    x.1 -= 1;
                }
            }
            // 2: schedule.duration is overwritten instead of maximised: total = end of the last item by index
            2 => {
                if let Some(x) = items.iter().max_by_key(|x| x.0) {
                    *total = x.1 + x.2;
                }
            }
            // 3: an instruction is dropped from the result
            3 => {
                if items.len() > 1 {
                    items.pop();
                }
            }
            // 4: union of spans keeps the first span only: shrink the longest item to half (calibrated hulls)
            4 => {
                if let Some(x) = items.iter_mut().filter(|x| x.2 >= 2).max_by_key(|x| x.2) {
                    x.2 /= 2;
                }
            }
            _ => {}
        }
    }
}

fn sobs_coq(o: &SObs) -> String {
    match o {
        SObs::Err(e) => format!("(inl {e})"),
        SObs::Ok(items, total) => format!(
            "(inr ({}, {}))",
            g::list(&items.iter().map(|(n, a, d)| format!("({n}, ({}, {}))", zlit(*a), zlit(*d))).collect::<Vec<_>>()),
            zlit(*total)
        ),
        SObs::Inexact => unreachable!(),
    }
}

fn durs_coq(d: &[Option<i64>]) -> String {
    g::list(&d.iter().map(|x| g::option(x.map(zlit))).collect::<Vec<_>>())
}

fn edges_coq(edges: &[(u64, u64, String)]) -> String {
    g::list(&edges.iter().map(|(s, d, k)| format!("({s}, {d}, {k})")).collect::<Vec<_>>())
}

fn scase(infos: &[Info], term: Option<&Info>, edges: &[(u64, u64, String)], groups: &[usize], durs: &[Option<i64>], obs: &SObs) -> String {
    format!(
        "({}, {}, {}, {}, {}, {})",
        g::list(&infos.iter().map(|i| i.coq()).collect::<Vec<_>>()),
        g::option(term.map(|i| i.coq())),
        edges_coq(edges),
        g::list(&groups.iter().map(|x| format!("{x}%nat")).collect::<Vec<_>>()),
        durs_coq(durs),
        sobs_coq(obs)
    )
}

// ---------------------------------------------------------------------------------------------
// abstract blocks: table-driven handler, arbitrary durations through the generic as_schedule

fn run_abstract_sched(run: &mut Run, block: &ABlock, durs: &[Option<i64>]) {
    let (text, handler) = concretise(&[block.clone()]);
    let program = Program::from_str(&text).expect("abstract program parses");
    let bb = ControlFlowGraph::from(&program).into_blocks().into_iter().next().expect("one block");
    let (obs, built) = observe(bb, &program, &handler);
    let (edges, built) = match (obs, built) {
        (Obs::Ok(e), Some(b)) => (e, b),
        _ => return, // build errors are C22's business
    };
    let table: Vec<Option<i64>> = durs.to_vec();
    let res = qv::catch(std::panic::AssertUnwindSafe(|| {
        built.as_schedule(&program, |_p, instr: &Instruction| match instr {
            Instruction::Pragma(Pragma { arguments, .. }) => match arguments.first() {
                Some(PragmaArgument::Integer(k)) => table[*k as usize].map(|u| Seconds(u as f64 / UNIT)),
                _ => None,
            },
            _ => None,
        })
    }));
    let mut sobs = match res {
        Err(_) => SObs::Err("EPanic"),
        Ok(Err(ComputedScheduleError::UnknownDuration { .. })) => SObs::Err("EUnknownDuration"),
        Ok(Err(ComputedScheduleError::InvalidDependencyGraph)) => SObs::Err("EInvalidGraph"),
        Ok(Ok(s)) => observe_schedule(&s),
    };
    if sobs == SObs::Inexact {
        run.process_failure("inexact time in abstract schedule", &block.desc(), None);
        return;
    }
    mutate_sched(&mut sobs);
    let term = block.term.as_ref().map(|t| &t.1);
    let coq = scase(&block.infos, term, &edges, &[], durs, &sobs);
    let d = durs.iter().map(|x| x.map_or("?".to_string(), |v| v.to_string())).collect::<Vec<_>>().join(",");
    run.count(&format!("abs:len={}", block.infos.len().min(9)));
    run.count(match &sobs {
        SObs::Ok(..) => "sched:ok",
        SObs::Err(e) => e,
        _ => "",
    });
    let nontrivial = matches!(sobs, SObs::Ok(..)) && block.infos.len() >= 2;
    run.case(coq, &format!("A {} durs={d}", block.desc()), nontrivial, None);
}

fn random_sched_info(rng: &mut Rng) -> Info {
    // mostly scheduled RF instructions with frames; some unscheduled, some classical
    let r = rng.below(20);
    if r == 0 {
        return Info::classical(&[0], &[]);
    }
    let mut i = random_info(rng, 2, 100);
    i.role = 1;
    i.memerr = false;
    if !i.wf() {
        i.blocked.retain(|f| !i.used.contains(f));
    }
    i
}

fn abstract_cases(run: &mut Run, rng: &mut Rng, count: usize) {
    for _ in 0..count {
        let len = rng.range(1, 9);
        let infos: Vec<Info> = (0..len).map(|_| random_sched_info(rng)).collect();
        let durs: Vec<Option<i64>> = (0..len)
            .map(|_| if rng.chance(1, 60) { None } else { Some(*rng.pick(&[0i64, 0, 512, 1024, 1024, 2048, 3072, 256, 4096])) })
            .collect();
        let term = if rng.chance(1, 3) { Some((1u8, Info::control(&[]))) } else { None };
        run_abstract_sched(run, &ABlock { infos, term }, &durs);
    }
}

fn exhaustive_abstract(run: &mut Run, maxlen: usize) {
    let alpha = vec![
        Info::rf(true, &[0], &[]),
        Info::rf(true, &[0], &[1]),
        Info::rf(true, &[1], &[]),
        Info::rf(true, &[], &[0, 1]),
        Info::rf(false, &[0], &[]),
        Info::rf(true, &[0, 1], &[]),
    ];
    let durs_alpha = [0i64, 1024, 2048];
    fn rec(run: &mut Run, alpha: &[Info], da: &[i64], cur: &mut Vec<Info>, durs: &mut Vec<Option<i64>>, max: usize) {
        if !cur.is_empty() {
            run_abstract_sched(run, &ABlock { infos: cur.clone(), term: None }, durs);
        }
        if cur.len() == max {
            return;
        }
        for (k, a) in alpha.iter().enumerate() {
            // durations cycle with position and letter so that every letter occurs with every duration
            for d in da.iter() {
                if (k + cur.len()) % 2 == 0 && *d == 2048 {
                    continue;
                }
                cur.push(a.clone());
                durs.push(Some(*d));
                rec(run, alpha, da, cur, durs, max);
                cur.pop();
                durs.pop();
            }
        }
    }
    rec(run, &alpha, &durs_alpha, &mut vec![], &mut vec![], maxlen);
}

// ---------------------------------------------------------------------------------------------
// Quil-T text with the DefaultHandler

const QHEADER: &str = "DECLARE ro BIT[4]\nDECLARE th REAL[2]\nDECLARE raw REAL[8]\n\
DEFFRAME 0 \"a\":\n    SAMPLE-RATE: 1.0\nDEFFRAME 1 \"a\":\n    SAMPLE-RATE: 1.0\nDEFFRAME 0 1 \"ab\":\n    SAMPLE-RATE: 1.0\n\
DEFFRAME 0 \"b\":\n    SAMPLE-RATE: 2.0\nDEFFRAME 2 \"c\":\n    SAMPLE-RATE: 2.0\nDEFFRAME 1 \"nr\":\n    DIRECTION: \"tx\"\n\
DEFWAVEFORM w4:\n    1.0, 1.0, 1.0, 1.0\n";

/// (instruction text, expected duration in seconds per the documentation; None = not schedulable)
const TIMED: &[(&str, Option<f64>)] = &[
    ("PULSE 0 \"a\" flat(duration: 2.0, iq: 1.0)", Some(2.0)),
    ("NONBLOCKING PULSE 0 \"a\" flat(duration: 1.0, iq: 1.0)", Some(1.0)),
    ("PULSE 1 \"a\" flat(duration: 0.5, iq: 1.0)", Some(0.5)),
    ("NONBLOCKING PULSE 1 \"a\" flat(duration: 4.0, iq: 1.0)", Some(4.0)),
    ("PULSE 0 1 \"ab\" flat(duration: 1.5, iq: 1.0)", Some(1.5)),
    ("NONBLOCKING PULSE 0 1 \"ab\" flat(duration: 0.25, iq: 1.0)", Some(0.25)),
    ("PULSE 0 \"b\" flat(duration: 1.0, iq: 1.0)", Some(1.0)),
    ("PULSE 2 \"c\" flat(duration: 3.0, iq: 1.0)", Some(3.0)),
    ("PULSE 0 \"a\" erf_square(duration: 1.0, pad_left: 0.25, pad_right: 0.5, risetime: 0.125, scale: 1.0, phase: 0.0, detuning: 0.0)", Some(1.75)),
    ("PULSE 0 \"a\" gaussian(duration: 1.0, pad_right: 0.5, fwhm: 0.25, t0: 0.5)", Some(1.5)),
    ("PULSE 0 \"a\" w4", Some(4.0)),
    ("PULSE 0 \"b\" w4", Some(2.0)),
    ("NONBLOCKING PULSE 2 \"c\" w4", Some(2.0)),
    ("CAPTURE 0 \"b\" flat(duration: 1.0, iq: 1.0) ro[0]", Some(1.0)),
    ("NONBLOCKING CAPTURE 0 \"b\" flat(duration: 2.0, iq: 1.0) ro[1]", Some(2.0)),
    ("CAPTURE 2 \"c\" w4 ro[2]", Some(2.0)),
    ("RAW-CAPTURE 0 \"b\" 1.0 raw", Some(1.0)),
    ("NONBLOCKING RAW-CAPTURE 2 \"c\" 2.0 raw", Some(2.0)),
    ("DELAY 0 1.0", Some(1.0)),
    ("DELAY 0 \"a\" 0.5", Some(0.5)),
    ("DELAY 0 1 2.0", Some(2.0)),
    ("DELAY 2 0.25", Some(0.25)),
    ("DELAY 1 3", Some(3.0)),
    ("DELAY 0 \"a\" \"b\" 1.0", Some(1.0)),
    ("FENCE", Some(0.0)),
    ("FENCE 0", Some(0.0)),
    ("FENCE 0 1", Some(0.0)),
    ("FENCE 2", Some(0.0)),
    ("FENCE 1 2", Some(0.0)),
    ("SET-FREQUENCY 0 \"a\" 1.0", Some(0.0)),
    ("SET-PHASE 0 \"a\" 0.5", Some(0.0)),
    ("SHIFT-PHASE 1 \"a\" 0.25", Some(0.0)),
    ("SET-SCALE 0 1 \"ab\" 0.5", Some(0.0)),
    ("SHIFT-FREQUENCY 0 \"b\" 2.0", Some(0.0)),
    ("SWAP-PHASES 0 \"a\" 0 \"b\"", Some(0.0)),
    ("SWAP-PHASES 0 \"a\" 1 \"a\"", Some(0.0)),
    ("PULSE 3 \"zz\" flat(duration: 1.0, iq: 1.0)", Some(1.0)),
];

const UNTIMED: &[(&str, Option<f64>)] = &[
    ("RESET", None),
    ("RESET 0", None),
    ("MOVE th[0] 1.0", None),
    ("PULSE 0 \"a\" flat(duration: th[0], iq: 1.0)", None),
    ("DELAY 0 (pi/2)", None),
    ("DELAY 0 \"a\" th[1]", None),
    ("PULSE 1 \"nr\" w4", None),
    ("PULSE 0 \"a\" flat(iq: 1.0)", None),
    ("NOP", None),
];

const GATES: &[&str] = &[
    "X 0", "X 1", "CZ 0 1", "Y 0", "I 0", "H 2", "MEASURE 0 ro[0]", "Z 1",
    // calibrations with an EMPTY body (added through the API, see add_empty_cals) and wrappers of them
    "SKIP 0", "SKIP 1", "NOPE 0 1", "WRAP 0", "WRAP2 0", "MEASURE 2 ro[2]", "SKIP 0",
];

/// Empty-bodied calibrations cannot be written in Quil text; the API accepts them.
fn add_empty_cals(program: &mut Program) {
    for (name, qubits) in [("SKIP", vec![0u64]), ("SKIP", vec![1]), ("NOPE", vec![0, 1])] {
        let id = CalibrationIdentifier::new(name.to_string(), vec![], vec![], qubits.into_iter().map(Qubit::Fixed).collect()).expect("identifier");
        program.add_instruction(Instruction::CalibrationDefinition(CalibrationDefinition::new(id, vec![])));
    }
    program.add_instruction(Instruction::MeasureCalibrationDefinition(MeasureCalibrationDefinition::new(
        MeasureCalibrationIdentifier::new(None, Qubit::Fixed(2), Some("addr".to_string())),
        vec![],
    )));
}

const CALS: &str = "DEFCAL X 0:\n    PULSE 0 \"a\" flat(duration: 2.0, iq: 1.0)\n\
DEFCAL X 1:\n    NONBLOCKING PULSE 1 \"a\" flat(duration: 4.0, iq: 1.0)\n    DELAY 1 3\n\
DEFCAL CZ 0 1:\n    FENCE 0 1\n    NONBLOCKING PULSE 0 1 \"ab\" flat(duration: 0.25, iq: 1.0)\n    DELAY 0 \"a\" 0.5\n    PULSE 0 1 \"ab\" flat(duration: 1.5, iq: 1.0)\n\
DEFCAL Y 0:\n    X 0\n    SHIFT-PHASE 1 \"a\" 0.25\n    X 0\n\
DEFCAL H 2:\n    PULSE 2 \"c\" flat(duration: 3.0, iq: 1.0)\n    NONBLOCKING PULSE 2 \"c\" w4\n    FENCE 2\n\
DEFCAL Z 1:\n    SET-PHASE 0 \"a\" 0.5\n\
DEFCAL MEASURE 0 addr:\n    FENCE 0\n    CAPTURE 0 \"b\" flat(duration: 1.0, iq: 1.0) addr\n\
DEFCAL WRAP 0:\n    SKIP 0\n\
DEFCAL WRAP2 0:\n    SKIP 0\n    X 0\n    WRAP 0\n";

struct DurTable {
    map: HashMap<String, Option<i64>>,
}

impl DurTable {
    fn new() -> Self {
        let mut map = HashMap::new();
        for (t, d) in TIMED.iter().chain(UNTIMED.iter()) {
            let p = Program::from_str(&format!("{QHEADER}{t}\n")).unwrap_or_else(|e| panic!("alphabet line {t}: {e}"));
            let instr = p.body_instructions().next().expect("one instruction").clone();
            map.insert(instr.to_quil_or_debug(), d.map(|x| to_units(x).expect("dyadic")));
        }
        DurTable { map }
    }
    fn get(&self, i: &Instruction) -> Option<i64> {
        let key = match i {
            // the measure calibration substitutes the target: CAPTURE ... ro[0]
            _ => i.to_quil_or_debug(),
        };
        match self.map.get(&key) {
            Some(d) => *d,
            None => None, // gates, classical, anything else: no duration
        }
    }
}

fn run_plain(run: &mut Run, table: &DurTable, text: &str) {
    let program = match Program::from_str(text) {
        Ok(p) => p,
        Err(e) => {
            run.process_failure("generated program does not parse", &format!("{text} :: {e}"), None);
            return;
        }
    };
    let ext = ExternSignatureMap::try_from(program.extern_pragma_map.clone()).unwrap_or_default();
    let body = text.strip_prefix(QHEADER).unwrap_or(text).replace('\n', "; ");
    let blocks = ControlFlowGraph::from(&program).into_blocks();
    let nb = blocks.len();
    let mut frames = Interner::new();
    let mut regions = Interner::new();
    for (bi, bb) in blocks.into_iter().enumerate() {
        let infos: Vec<Info> = bb.instructions().iter().map(|i| default_info(&program, &ext, &mut frames, &mut regions, i)).collect();
        let term = bb.terminator().clone().into_instruction().map(|i| default_info(&program, &ext, &mut frames, &mut regions, &i));
        let durs: Vec<Option<i64>> = bb.instructions().iter().map(|i| table.get(i)).collect();
        let (obs, built) = observe(bb, &program, &DefaultHandler);
        let (edges, built) = match (obs, built) {
            (Obs::Ok(e), Some(b)) => (e, b),
            _ => continue,
        };
        let res = qv::catch(std::panic::AssertUnwindSafe(|| built.as_schedule_seconds(&program, &DefaultHandler)));
        let mut sobs = match res {
            Err(_) => SObs::Err("EPanic"),
            Ok(Err(ComputedScheduleError::UnknownDuration { .. })) => SObs::Err("EUnknownDuration"),
            Ok(Err(ComputedScheduleError::InvalidDependencyGraph)) => SObs::Err("EInvalidGraph"),
            Ok(Ok(s)) => observe_schedule(&s),
        };
        if sobs == SObs::Inexact {
            run.process_failure("inexact time in schedule", text, None);
            continue;
        }
        mutate_sched(&mut sobs);
        let coq = scase(&infos, term.as_ref(), &edges, &[], &durs, &sobs);
        run.count(&format!("quilt:len={}", infos.len().min(9)));
        run.count(match &sobs {
            SObs::Ok(..) => "sched:ok",
            SObs::Err(e) => e,
            _ => "",
        });
        let nontrivial = matches!(sobs, SObs::Ok(..)) && infos.len() >= 2;
        run.case(coq, &format!("Q block {bi}/{nb} of: {body}"), nontrivial, None);
    }
}

fn run_calibrated(run: &mut Run, table: &DurTable, text: &str) {
    let mut program = match Program::from_str(text) {
        Ok(p) => p,
        Err(e) => {
            run.process_failure("generated program does not parse", &format!("{text} :: {e}"), None);
            return;
        }
    };
    add_empty_cals(&mut program);
    let program = program;
    let ext = ExternSignatureMap::try_from(program.extern_pragma_map.clone()).unwrap_or_default();
    let body = text.strip_prefix(QHEADER).unwrap_or(text).strip_prefix(CALS).unwrap_or(text).replace('\n', "; ");
    let block: BasicBlock = match (&program).try_into() {
        Ok(b) => b,
        Err(_) => return,
    };
    // the expansion the implementation will perform, instruction by instruction
    let mut groups = vec![];
    let mut expanded: Vec<Instruction> = vec![];
    let mut cal_error = false;
    for i in block.instructions() {
        match program.calibrations.expand(i, &[]) {
            Ok(Some(v)) => {
                groups.push(v.len());
                expanded.extend(v);
            }
            Ok(None) => {
                groups.push(1);
                expanded.push((*i).clone());
            }
            Err(_) => {
                cal_error = true;
                break;
            }
        }
    }
    let mut frames = Interner::new();
    let mut regions = Interner::new();
    let infos: Vec<Info> = expanded.iter().map(|i| default_info(&program, &ext, &mut frames, &mut regions, i)).collect();
    let term = block.terminator().clone().into_instruction().map(|i| default_info(&program, &ext, &mut frames, &mut regions, &i));
    let durs: Vec<Option<i64>> = expanded.iter().map(|i| table.get(i)).collect();
    let res = qv::catch(std::panic::AssertUnwindSafe(|| block.as_schedule_seconds(&program, &DefaultHandler)));
    let mut sobs = match res {
        Err(_) => SObs::Err("EPanic"),
        Ok(Err(BasicBlockScheduleError::ScheduleError(_))) => SObs::Err("EBuild"),
        Ok(Err(BasicBlockScheduleError::ProgramError(_))) => SObs::Err("ECalibration"),
        Ok(Err(BasicBlockScheduleError::ComputedScheduleError(ComputedScheduleError::UnknownDuration { .. }))) => SObs::Err("EUnknownDuration"),
        Ok(Err(BasicBlockScheduleError::ComputedScheduleError(ComputedScheduleError::InvalidDependencyGraph))) => SObs::Err("EInvalidGraph"),
        Ok(Ok(s)) => observe_schedule(&s),
    };
    if sobs == SObs::Inexact {
        run.process_failure("inexact time in calibrated schedule", text, None);
        return;
    }
    if cal_error {
        if sobs != SObs::Err("ECalibration") {
            run.process_failure("expansion fails in the harness but as_schedule did not report a program error", text, None);
        }
        return;
    }
    if groups.is_empty() {
        return; // an empty block is a plain case
    }
    mutate_sched(&mut sobs);
    let coq = scase(&infos, term.as_ref(), &[], &groups, &durs, &sobs);
    run.count(&format!("cal:len={}", groups.len().min(9)));
    if groups.iter().any(|g| *g == 0) {
        run.count("cal:with-empty-expansion");
    }
    run.count(match &sobs {
        SObs::Ok(..) => "cal:ok",
        SObs::Err(e) => e,
        _ => "",
    });
    let nontrivial = matches!(sobs, SObs::Ok(..)) && groups.iter().any(|g| *g > 1);
    run.case(coq, &format!("K {body}"), nontrivial, None);
}

fn random_plain(run: &mut Run, table: &DurTable, rng: &mut Rng, count: usize) {
    for _ in 0..count {
        let mut text = String::from(QHEADER);
        let len = rng.range(1, 10);
        for _ in 0..len {
            let line = if rng.chance(1, 40) { rng.pick(UNTIMED).0 } else { rng.pick(TIMED).0 };
            text.push_str(line);
            text.push('\n');
        }
        match rng.below(6) {
            0 => text.push_str("HALT\n"),
            1 => text.push_str("JUMP-WHEN @x ro[0]\n"),
            _ => {}
        }
        run_plain(run, table, &text);
    }
}

fn random_calibrated(run: &mut Run, table: &DurTable, rng: &mut Rng, count: usize) {
    for _ in 0..count {
        let mut text = format!("{QHEADER}{CALS}");
        let len = rng.range(1, 7);
        for _ in 0..len {
            let r = rng.below(100);
            let line = if r < 55 {
                *rng.pick(GATES)
            } else if r < 98 {
                rng.pick(TIMED).0
            } else {
                rng.pick(UNTIMED).0
            };
            text.push_str(line);
            text.push('\n');
        }
        run_calibrated(run, table, &text);
    }
}

const FIXED_PLAIN: &[&str] = &[
    "FENCE\nFENCE\nFENCE\n",
    "PULSE 0 \"a\" flat(duration: 2.0, iq: 1.0)\nPULSE 0 \"a\" flat(duration: 2.0, iq: 1.0)\nPULSE 0 \"a\" flat(duration: 2.0, iq: 1.0)\n",
    "NONBLOCKING PULSE 0 \"a\" flat(duration: 1.0, iq: 1.0)\nNONBLOCKING PULSE 2 \"c\" w4\nFENCE\nPULSE 0 \"a\" flat(duration: 2.0, iq: 1.0)\nFENCE\nPULSE 0 \"a\" flat(duration: 2.0, iq: 1.0)\n",
    "DELAY 0 \"a\" 0.5\nSET-PHASE 0 \"a\" 0.5\nSHIFT-PHASE 1 \"a\" 0.25\nSWAP-PHASES 0 \"a\" 0 \"b\"\nSET-FREQUENCY 0 \"a\" 1.0\nFENCE\nPULSE 0 \"a\" flat(duration: 2.0, iq: 1.0)\n",
    "RESET\n",
    "PULSE 0 \"a\" flat(duration: 2.0, iq: 1.0)\nMOVE th[0] 1.0\n",
    "HALT\n",
    "PULSE 3 \"zz\" flat(duration: 1.0, iq: 1.0)\nPULSE 3 \"zz\" flat(duration: 1.0, iq: 1.0)\n",
];

const FIXED_CAL: &[&str] = &[
    "X 0\nCZ 0 1\n",
    "Y 0\nX 1\nH 2\n",
    "Z 1\nZ 1\nX 0\n",
    "MEASURE 0 ro[0]\nX 0\n",
    "T 0\n",
    "X 0\nPULSE 0 \"a\" flat(duration: 2.0, iq: 1.0)\nCZ 0 1\nDELAY 0 1.0\n",
    // empty-bodied calibrations: alone, first, last, between, repeated, nested, measure
    "SKIP 0\n",
    "SKIP 0\nPULSE 0 \"a\" flat(duration: 2.0, iq: 1.0)\n",
    "PULSE 0 \"a\" flat(duration: 2.0, iq: 1.0)\nSKIP 0\n",
    "PULSE 0 \"a\" flat(duration: 2.0, iq: 1.0)\nSKIP 0\nX 1\nSKIP 0\nSKIP 1\nPULSE 0 1 \"ab\" flat(duration: 1.5, iq: 1.0)\n",
    "SKIP 0\nSKIP 1\nNOPE 0 1\n",
    "WRAP 0\nX 0\n",
    "X 0\nWRAP 0\nWRAP2 0\nDELAY 0 1.0\n",
    "WRAP2 0\nWRAP2 0\n",
    "MEASURE 2 ro[2]\nPULSE 2 \"c\" flat(duration: 3.0, iq: 1.0)\n",
    "DELAY 2 0.25\nMEASURE 2 ro[2]\nMEASURE 0 ro[0]\nMEASURE 2 ro[2]\n",
    "NOPE 0 1\nCZ 0 1\nNOPE 0 1\nCZ 0 1\n",
];

fn main() {
    let args = Args::parse();
    let table = DurTable::new();
    if let Some(case) = &args.replay {
        replay(&table, case);
        return;
    }
    let mut run = Run::new(&args.out, HEADER, "scase Z", "zfailing", 250);
    let thorough = args.thorough();
    exhaustive_abstract(&mut run, if thorough { 3 } else { 2 });
    let exhaustive_cases = run.evaluations;
    for t in FIXED_PLAIN {
        run_plain(&mut run, &table, &format!("{QHEADER}{t}"));
    }
    for t in FIXED_CAL {
        run_calibrated(&mut run, &table, &format!("{QHEADER}{CALS}{t}"));
    }
    let mut rng = Rng::new(args.seed ^ 0x25);
    let (na, np, nc) = if thorough { (6000, 6000, 5000) } else { (700, 900, 800) };
    abstract_cases(&mut run, &mut rng, na);
    random_plain(&mut run, &table, &mut rng, np);
    random_calibrated(&mut run, &table, &mut rng, nc);
    run.finish(
        "exhaustive: every block up to length 2 (thorough 3) over 6 RF summaries on 2 frames x durations {0, 1, 2} s, \
         scheduled through the generic as_schedule with a table-driven handler; random abstract blocks (3 frames, \
         unscheduled and classical instructions, unknown durations); random and fixed single-block Quil-T programs \
         through as_schedule_seconds with the DefaultHandler (pulses / captures with flat, erf_square, gaussian and \
         DEFWAVEFORM waveforms, raw captures, delays, fences, SET-/SHIFT-/SWAP-PHASES; dyadic durations, expected \
         duration per instruction from the documentation); random and fixed programs with DEFCALs (nested, multi-instruction, \
         measure calibration, and empty-bodied gate / measure calibrations added through the API: alone, first, last, between, nested) through BasicBlock::as_schedule_seconds. Distinct by description; non-trivial = a schedule is \
         computed for >= 2 instructions (calibrated: some instruction expands to >= 2).",
        true,
        serde_json::json!({"exhaustive_cases": exhaustive_cases, "random_abstract": na, "random_quilt": np, "random_calibrated": nc}),
    );
}

fn replay(table: &DurTable, case: &str) {
    println!("replaying: {case}");
    let tmp = std::env::temp_dir().join("qv-c25-replay");
    let mut run = Run::new(&tmp, HEADER, "scase Z", "zfailing", 10);
    if let Some(rest) = case.strip_prefix("A ") {
        let (b, d) = rest.split_once(" durs=").expect("durs");
        let block = ABlock::parse(b).expect("abstract block");
        let durs: Vec<Option<i64>> = d.split(',').map(|x| x.trim().parse().ok()).collect();
        run_abstract_sched(&mut run, &block, &durs);
    } else if let Some(rest) = case.strip_prefix("Q ") {
        let body = rest.split_once(" of: ").map(|x| x.1).unwrap_or(rest).replace("; ", "\n");
        run_plain(&mut run, table, &format!("{QHEADER}{body}"));
    } else if let Some(rest) = case.strip_prefix("K ") {
        let body = rest.replace("; ", "\n");
        run_calibrated(&mut run, table, &format!("{QHEADER}{CALS}{body}"));
    }
    run.finish("replay", false, serde_json::json!({}));
    println!("{}", std::fs::read_to_string(tmp.join("shard_0.v")).unwrap_or_default());
}
