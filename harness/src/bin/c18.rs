//! C18 — calibration expansion always terminates without crashing.
//!
//! Abstract cases (Model/CalExpand.v: gates with one parameter `Lit k | %t | p+1` and one qubit,
//! calibrations with a literal-or-variable parameter pattern and a fixed-or-variable qubit pattern)
//! are concretised through the public API, `Program::expand_calibrations` is run, and the verdict
//! {expanded body, recursive-calibration error} is compared inside Coq with the fuelled model.
//! Sets in the syntactic `growing` class (some variable-pattern calibration whose body re-invokes a
//! calibrated gate name with a parameter strictly containing %t) are first run in a CHILD PROCESS
//! (re-exec of this binary with `--child <case>`), because the implementation recurses without
//! bound on them and aborts with a stack overflow; if the child survives, the case is run
//! in-process and compared like any other.
use qv::{gallina as g, Args, Rng, Run};
use quil_rs::expression::{Expression, InfixOperator};
use quil_rs::instruction::{
    CalibrationDefinition, CalibrationIdentifier, Gate, Instruction, MeasureCalibrationDefinition,
    MeasureCalibrationIdentifier, Measurement, Qubit,
};
use quil_rs::program::ProgramError;
use quil_rs::Program;
use std::process::{Command, Stdio};
use std::str::FromStr;
use std::time::{Duration, Instant};

const KNOWN: &str = "growing-parameter-recursion";
const SMALL_STACK_KB: usize = 128;
const GNAMES: [&str; 4] = ["RX", "X", "Y", "FOO"];
/// Name index 4 stands for an effect-only measurement `MEASURE q` / `DEFCAL MEASURE q:` (encoded in
/// the model as one more gate name whose parameter is always the literal 0: measurement calibrations
/// are matched by qubit only, exact before variable, later definition first - the gate rule).
const MEAS: usize = 4;

#[derive(Clone, PartialEq, Eq, Debug)]
struct P {
    plus: u32,
    base: Option<u64>, // None = %t
}
#[derive(Clone, Copy, PartialEq, Eq, Debug)]
enum Q {
    F(u64),
    V,
}
#[derive(Clone, PartialEq, Eq, Debug)]
enum I {
    Nop,
    Gate(usize, P, Q),
}
#[derive(Clone, PartialEq, Eq, Debug)]
struct Cal {
    name: usize,
    ppat: Option<u64>, // None = %t
    q: Q,
    body: Vec<I>,
}
#[derive(Clone, PartialEq, Eq, Debug)]
struct Case {
    cals: Vec<Cal>,
    prog: Vec<I>,
}

// ---- concretisation ---------------------------------------------------------------------------
fn p_text(p: &P) -> String {
    let mut s = match p.base {
        Some(k) => k.to_string(),
        None => "%t".to_string(),
    };
    for _ in 0..p.plus {
        s = format!("({s}+1)");
    }
    s
}
fn p_expr(p: &P) -> Expression {
    Expression::from_str(&p_text(p)).expect("parameter parses")
}
fn q_real(q: Q) -> Qubit {
    match q {
        Q::F(n) => Qubit::Fixed(n),
        Q::V => Qubit::Variable("q".to_string()),
    }
}
fn i_real(i: &I) -> Instruction {
    match i {
        I::Nop => Instruction::Nop(),
        I::Gate(n, _, q) if *n == MEAS => Instruction::Measurement(Measurement::new(None, q_real(*q), None)),
        I::Gate(n, p, q) => Instruction::Gate(Gate {
            name: GNAMES[*n].to_string(),
            parameters: vec![p_expr(p)],
            qubits: vec![q_real(*q)],
            modifiers: vec![],
        }),
    }
}
fn program(c: &Case) -> Program {
    let mut prog = Program::new();
    for cal in &c.cals {
        if cal.name == MEAS {
            prog.add_instruction(Instruction::MeasureCalibrationDefinition(MeasureCalibrationDefinition {
                identifier: MeasureCalibrationIdentifier::new(None, q_real(cal.q), None),
                instructions: cal.body.iter().map(i_real).collect(),
            }));
            continue;
        }
        let ident = CalibrationIdentifier::new(
            GNAMES[cal.name].to_string(),
            vec![],
            vec![match cal.ppat {
                Some(k) => p_expr(&P { plus: 0, base: Some(k) }),
                None => Expression::Variable("t".to_string()),
            }],
            vec![q_real(cal.q)],
        )
        .expect("name");
        prog.add_instruction(Instruction::CalibrationDefinition(CalibrationDefinition {
            identifier: ident,
            instructions: cal.body.iter().map(i_real).collect(),
        }));
    }
    for i in &c.prog {
        prog.add_instruction(i_real(i));
    }
    prog
}

// ---- abstraction of the output -------------------------------------------------------------------
fn p_abs(e: &Expression) -> Option<P> {
    match e {
        Expression::Number(c) if c.im == 0.0 && c.re >= 0.0 && c.re.fract() == 0.0 => {
            Some(P { plus: 0, base: Some(c.re as u64) })
        }
        Expression::Variable(v) if v == "t" => Some(P { plus: 0, base: None }),
        Expression::Infix(inf) if inf.operator == InfixOperator::Plus => {
            match &*inf.right {
                Expression::Number(c) if c.re == 1.0 && c.im == 0.0 => {}
                _ => return None,
            }
            let mut p = p_abs(&inf.left)?;
            p.plus += 1;
            Some(p)
        }
        _ => None,
    }
}
fn i_abs(i: &Instruction) -> Option<I> {
    match i {
        Instruction::Nop() => Some(I::Nop),
        Instruction::Measurement(m) if m.name.is_none() && m.target.is_none() => {
            let q = match &m.qubit {
                Qubit::Fixed(k) => Q::F(*k),
                Qubit::Variable(v) if v == "q" => Q::V,
                _ => return None,
            };
            Some(I::Gate(MEAS, P { plus: 0, base: Some(0) }, q))
        }
        Instruction::Gate(gate) if gate.modifiers.is_empty() && gate.parameters.len() == 1 && gate.qubits.len() == 1 => {
            let n = GNAMES.iter().position(|x| *x == gate.name)?;
            let q = match &gate.qubits[0] {
                Qubit::Fixed(k) => Q::F(*k),
                Qubit::Variable(v) if v == "q" => Q::V,
                _ => return None,
            };
            Some(I::Gate(n, p_abs(&gate.parameters[0])?, q))
        }
        _ => None,
    }
}

#[derive(Clone, PartialEq, Eq, Debug)]
enum Verdict {
    Ok(Vec<I>),
    Recursive,
    Other(String),
}

fn run_real(c: &Case) -> Verdict {
    match program(c).expand_calibrations() {
        Ok(p) => {
            let mut out = Vec::new();
            for i in p.body_instructions() {
                match i_abs(i) {
                    Some(a) => out.push(a),
                    None => return Verdict::Other(format!("unexpected instruction in output: {i:?}")),
                }
            }
            Verdict::Ok(out)
        }
        Err(ProgramError::RecursiveCalibration(_)) => Verdict::Recursive,
        Err(e) => Verdict::Other(format!("unexpected error: {e}")),
    }
}

// ---- Quil text for descriptions -----------------------------------------------------------------
fn q_text(q: Q) -> String {
    match q {
        Q::F(n) => n.to_string(),
        Q::V => "q".into(),
    }
}
fn i_text(i: &I) -> String {
    match i {
        I::Nop => "NOP".into(),
        I::Gate(n, _, q) if *n == MEAS => format!("MEASURE {}", q_text(*q)),
        I::Gate(n, p, q) => format!("{}({}) {}", GNAMES[*n], p_text(p), q_text(*q)),
    }
}
fn case_text(c: &Case) -> String {
    let mut s = String::new();
    for cal in &c.cals {
        if cal.name == MEAS {
            s.push_str(&format!("DEFCAL MEASURE {}:", q_text(cal.q)));
            for i in &cal.body {
                s.push_str(&format!("\n    {}", i_text(i)));
            }
            s.push('\n');
            continue;
        }
        s.push_str(&format!(
            "DEFCAL {}({}) {}:",
            GNAMES[cal.name],
            match cal.ppat {
                Some(k) => k.to_string(),
                None => "%t".into(),
            },
            q_text(cal.q)
        ));
        for i in &cal.body {
            s.push_str(&format!("\n    {}", i_text(i)));
        }
        s.push('\n');
    }
    for i in &c.prog {
        s.push_str(&i_text(i));
        s.push('\n');
    }
    s
}

// ---- Gallina --------------------------------------------------------------------------------------
fn p_coq(p: &P) -> String {
    let mut s = match p.base {
        Some(k) => format!("Lit {k}"),
        None => "PVar".to_string(),
    };
    for _ in 0..p.plus {
        s = format!("Plus1 ({s})");
    }
    s
}
fn q_coq(q: Q) -> String {
    match q {
        Q::F(n) => format!("(QF {n})"),
        Q::V => "QV".into(),
    }
}
fn i_coq(i: &I) -> String {
    match i {
        I::Nop => "INop".into(),
        I::Gate(n, p, q) => format!("IGate {n} ({}) {}", p_coq(p), q_coq(*q)),
    }
}
fn is_coq(l: &[I]) -> String {
    g::list(&l.iter().map(i_coq).collect::<Vec<_>>())
}
/// The calibration list as the program's CalibrationSet holds it: a definition with the signature
/// (name, parameter pattern, qubit pattern) of an earlier one replaces it IN PLACE (C16's subject;
/// the C18 model takes the resulting list).  Found by a seed-12345 run: without this the model
/// saw the redefinition at the end of the list and picked another winner among equally specific
/// matches.
fn effective_cals(c: &Case) -> Vec<Cal> {
    let mut out: Vec<Cal> = Vec::new();
    for cal in &c.cals {
        match out.iter_mut().find(|k| k.name == cal.name && k.ppat == cal.ppat && k.q == cal.q) {
            Some(k) => *k = cal.clone(),
            None => out.push(cal.clone()),
        }
    }
    out
}
fn case_coq(c: &Case, v: &Verdict) -> String {
    let cals: Vec<String> = effective_cals(c)
        .iter()
        .map(|cal| {
            format!(
                "K {} {} {} {}",
                cal.name,
                match cal.ppat {
                    Some(k) => format!("(CLit {k})"),
                    None => "CVar".into(),
                },
                q_coq(cal.q),
                is_coq(&cal.body)
            )
        })
        .collect();
    let v = match v {
        Verdict::Ok(l) => format!("VOk {}", is_coq(l)),
        Verdict::Recursive => "VRecursive".into(),
        Verdict::Other(_) => unreachable!(),
    };
    format!("({}, {}, {v})", g::list(&cals), is_coq(&c.prog))
}

// ---- the known-finding class (same predicate as Model/CalExpand.v `growing`) ---------------------
fn growing(c: &Case) -> bool {
    c.cals.iter().any(|cal| {
        cal.ppat.is_none()
            && cal.body.iter().any(|i| match i {
                I::Gate(n, p, _) => p.base.is_none() && p.plus > 0 && c.cals.iter().any(|d| d.name == *n),
                I::Nop => false,
            })
    })
}
fn non_growing(c: &Case) -> bool {
    c.cals.iter().all(|cal| {
        cal.body.iter().all(|i| match i {
            I::Gate(_, p, _) => p.base.is_some() || p.plus == 0,
            I::Nop => true,
        })
    })
}

// ---- child protocol -------------------------------------------------------------------------------
fn enc_p(p: &P) -> String {
    format!("{}:{}", p.plus, p.base.map(|k| k as i64).unwrap_or(-1))
}
fn enc_q(q: Q) -> String {
    match q {
        Q::F(n) => n.to_string(),
        Q::V => "v".into(),
    }
}
fn enc_i(i: &I) -> String {
    match i {
        I::Nop => "n".into(),
        I::Gate(n, p, q) => format!("g{}:{}:{}", n, enc_p(p), enc_q(*q)),
    }
}
fn encode(c: &Case) -> String {
    let cals: Vec<String> = c
        .cals
        .iter()
        .map(|cal| {
            format!(
                "{}:{}:{}={}",
                cal.name,
                cal.ppat.map(|k| k as i64).unwrap_or(-1),
                enc_q(cal.q),
                cal.body.iter().map(enc_i).collect::<Vec<_>>().join(",")
            )
        })
        .collect();
    format!("{}|{}", cals.join(";"), c.prog.iter().map(enc_i).collect::<Vec<_>>().join(","))
}
fn dec_q(s: &str) -> Q {
    if s == "v" {
        Q::V
    } else {
        Q::F(s.parse().unwrap())
    }
}
fn dec_i(s: &str) -> I {
    if s == "n" {
        return I::Nop;
    }
    let f: Vec<&str> = s[1..].split(':').collect();
    let base: i64 = f[2].parse().unwrap();
    I::Gate(
        f[0].parse().unwrap(),
        P { plus: f[1].parse().unwrap(), base: if base < 0 { None } else { Some(base as u64) } },
        dec_q(f[3]),
    )
}
fn dec_is(s: &str) -> Vec<I> {
    if s.is_empty() {
        vec![]
    } else {
        s.split(',').map(dec_i).collect()
    }
}
fn decode(s: &str) -> Case {
    let (cals, prog) = s.split_once('|').unwrap();
    let cals = if cals.is_empty() {
        vec![]
    } else {
        cals.split(';')
            .map(|c| {
                let (head, body) = c.split_once('=').unwrap();
                let f: Vec<&str> = head.split(':').collect();
                let pp: i64 = f[1].parse().unwrap();
                Cal {
                    name: f[0].parse().unwrap(),
                    ppat: if pp < 0 { None } else { Some(pp as u64) },
                    q: dec_q(f[2]),
                    body: dec_is(body),
                }
            })
            .collect()
    };
    Case { cals, prog: dec_is(prog) }
}

/// child: exit 0 = expanded, 3 = recursive-calibration error, 4 = anything else; a stack overflow
/// kills the process with a signal.  `small` runs the expansion on a thread with a small (128 KiB) stack so
/// that divergence is observed quickly; otherwise the main thread's default stack is used.
fn child_main(enc: &str, small: bool) -> ! {
    let case = decode(enc);
    let work = move || match run_real(&case) {
        Verdict::Ok(_) => 0,
        Verdict::Recursive => 3,
        Verdict::Other(_) => 4,
    };
    let code = if small {
        let kb: usize = std::env::var("QV_STACK_KB").ok().and_then(|s| s.parse().ok()).unwrap_or(SMALL_STACK_KB);
        std::thread::Builder::new().stack_size(kb * 1024).spawn(work).unwrap().join().unwrap_or(5)
    } else {
        work()
    };
    std::process::exit(code)
}

#[derive(Debug, PartialEq, Eq)]
enum ChildResult {
    Exited(i32),
    Crashed(String),
    Timeout,
}

/// the canonical witness on the child's MAIN thread: with the default stack (thorough tier; takes
/// ~30 s of cubic work before the 8 MiB are used up) or under `ulimit -s 1024` (quick tier)
fn run_witness(c: &Case, default_stack: bool, timeout: Duration) -> ChildResult {
    let exe = std::env::current_exe().expect("current_exe");
    let mut cmd = if default_stack {
        let mut cmd = Command::new(exe);
        cmd.arg("--child").arg(encode(c));
        cmd
    } else {
        let mut cmd = Command::new("sh");
        cmd.arg("-c")
            .arg("ulimit -s 1024; exec \"$0\" --child \"$1\"")
            .arg(exe)
            .arg(encode(c));
        cmd
    };
    cmd.stdin(Stdio::null()).stdout(Stdio::null()).stderr(Stdio::null());
    wait_child(cmd.spawn().expect("spawn child"), timeout)
}

fn run_child(c: &Case, small: bool, timeout: Duration) -> ChildResult {
    let exe = std::env::current_exe().expect("current_exe");
    let child = Command::new(exe)
        .arg(if small { "--child-small" } else { "--child" })
        .arg(encode(c))
        .stdin(Stdio::null())
        .stdout(Stdio::null())
        .stderr(Stdio::null())
        .spawn()
        .expect("spawn child");
    wait_child(child, timeout)
}

fn wait_child(mut child: std::process::Child, timeout: Duration) -> ChildResult {
    let start = Instant::now();
    loop {
        match child.try_wait().expect("try_wait") {
            Some(status) => {
                return match status.code() {
                    Some(code) => ChildResult::Exited(code),
                    None => {
                        #[cfg(unix)]
                        {
                            use std::os::unix::process::ExitStatusExt;
                            ChildResult::Crashed(format!("killed by signal {}", status.signal().unwrap_or(0)))
                        }
                        #[cfg(not(unix))]
                        {
                            ChildResult::Crashed("abnormal termination".into())
                        }
                    }
                };
            }
            None => {
                if start.elapsed() > timeout {
                    let _ = child.kill();
                    let _ = child.wait();
                    return ChildResult::Timeout;
                }
                std::thread::sleep(Duration::from_millis(2));
            }
        }
    }
}

// ---- mutants: perturb the OBSERVED verdict ------------------------------------------------------
//   1  breadcrumb not reset between top-level instructions: a repeated, calibrated top-level
//      instruction is reported as recursive
//   2  the recursive-calibration error is swallowed and the instruction left unexpanded
//   3  expansions are emitted in reverse order
fn mutant() -> u32 {
    std::env::var("QV_MUTANT").ok().and_then(|s| s.parse().ok()).unwrap_or(0)
}
fn mutate(c: &Case, v: Verdict) -> Verdict {
    match (mutant(), v) {
        (1, Verdict::Ok(l)) => {
            let dup = c.prog.iter().enumerate().any(|(k, i)| {
                c.prog[..k].contains(i)
                    && matches!(i, I::Gate(n, _, _) if c.cals.iter().any(|d| d.name == *n))
                    && l != c.prog
            });
            if dup {
                Verdict::Recursive
            } else {
                Verdict::Ok(l)
            }
        }
        (2, Verdict::Recursive) => Verdict::Ok(c.prog.clone()),
        (3, Verdict::Ok(mut l)) => {
            l.reverse();
            Verdict::Ok(l)
        }
        (_, v) => v,
    }
}

struct Ctl {
    children: u64,
    crashes: u64,
    small_timeout: Duration,
}

fn do_case(run: &mut Run, ctl: &mut Ctl, c: &Case, tag: &str, pre: Option<ChildResult>) {
    let text = case_text(c);
    let desc = format!("[{tag}] {}", text.trim_end().replace('\n', " ; "));
    let grows = growing(c);
    run.count(if grows { "class growing" } else if non_growing(c) { "class non-growing" } else { "class neither (uncalibrated growing name)" });
    let has_meas = c.cals.iter().any(|k| k.name == MEAS);
    if has_meas {
        run.count("case with measurement calibrations");
    }
    // the long-chain family always runs in a child first: a missed cycle aborts the process
    let guarded = tag.starts_with("long-");
    if grows || has_meas || guarded {
        ctl.children += 1;
        match pre.unwrap_or_else(|| run_child(c, true, ctl.small_timeout)) {
            ChildResult::Exited(0) | ChildResult::Exited(3) => {
                run.count(if grows { "growing-class case that terminates (compared with the model)" } else { "child-guarded case outside the growing class that terminates (compared with the model)" });
            }
            ChildResult::Exited(code) => {
                run.process_failure(&format!("child exited with unexpected status {code}"), &text, None);
                return;
            }
            ChildResult::Crashed(how) if !grows => {
                run.process_failure(
                    &format!("expand_calibrations neither returns a program nor an error: process {how} ({SMALL_STACK_KB} KiB stack thread)"),
                    &text,
                    None,
                );
                return;
            }
            ChildResult::Timeout if !grows => {
                run.process_failure("expand_calibrations does not return within the timeout", &text, None);
                return;
            }
            ChildResult::Crashed(how) => {
                ctl.crashes += 1;
                run.count("growing-class case that crashes (stack overflow)");
                run.process_failure(
                    &format!("expand_calibrations neither returns a program nor an error: process {how} ({SMALL_STACK_KB} KiB stack thread)"),
                    &text,
                    Some(KNOWN),
                );
                return;
            }
            ChildResult::Timeout => {
                ctl.crashes += 1;
                run.count("growing-class case that runs into the timeout");
                run.process_failure("expand_calibrations does not return within the timeout", &text, Some(KNOWN));
                return;
            }
        }
    }
    let v = mutate(c, run_real(c));
    match &v {
        Verdict::Other(e) => {
            run.process_failure(e, &text, None);
            return;
        }
        Verdict::Ok(l) => {
            run.count(if *l == c.prog { "verdict ok (nothing expanded)" } else { "verdict ok (expanded)" })
        }
        Verdict::Recursive => run.count("verdict recursive-error"),
    }
    let nontrivial = match &v {
        Verdict::Ok(l) => *l != c.prog,
        _ => true,
    };
    run.case(case_coq(c, &v), &desc, nontrivial, None);
}

fn main() {
    let argv: Vec<String> = std::env::args().collect();
    if argv.len() == 3 && argv[1] == "--child" {
        child_main(&argv[2], false);
    }
    if argv.len() == 3 && argv[1] == "--child-small" {
        child_main(&argv[2], true);
    }
    let args = Args::parse();
    let thorough = args.thorough();
    let header = "From Coq Require Import List NArith.\nFrom QV Require Import Model.CalExpand.\nImport ListNotations.\nOpen Scope N_scope.\n\
Definition K n p q b := {| c_name := n; c_ppat := p; c_q := q; c_body := b |}.";
    let mut run = Run::new(&args.out, header, "list cal * list instr * verdict", "failing", 500);
    let mut ctl = Ctl { children: 0, crashes: 0, small_timeout: Duration::from_secs(60) };

    let lit = |k: u64| P { plus: 0, base: Some(k) };
    let var = P { plus: 0, base: None };
    let var1 = P { plus: 1, base: None };

    // ---- 0. the canonical witness, under real conditions (main thread, default stack) -----------
    let witness = Case {
        cals: vec![Cal { name: 0, ppat: None, q: Q::F(0), body: vec![I::Gate(0, var1.clone(), Q::F(0))] }],
        prog: vec![I::Gate(0, lit(0), Q::F(0))],
    };
    let how_run = if thorough { "main thread, default stack" } else { "main thread, stack limited to 1 MiB by ulimit -s" };
    match run_witness(&witness, thorough, Duration::from_secs(300)) {
        ChildResult::Exited(code) => {
            run.note(&format!("canonical growing witness terminated with status {code} (defect repaired?)"));
        }
        ChildResult::Crashed(how) => run.process_failure(
            &format!("expand_calibrations neither returns a program nor an error: process {how} ({how_run})"),
            &case_text(&witness),
            Some(KNOWN),
        ),
        ChildResult::Timeout => run.process_failure(
            &format!("expand_calibrations does not return within 300 s ({how_run})"),
            &case_text(&witness),
            Some(KNOWN),
        ),
    }

    // ---- 0b. measurement calibrations: cycles through MEASURE only, through a gate, and none ----
    // (every one of these runs in a child process first: a missed cycle overflows the stack)
    {
        let m = |q: Q| I::Gate(MEAS, lit(0), q);
        let xg = |q: Q| I::Gate(1, lit(0), q);
        let pool = [I::Nop, m(Q::F(0)), m(Q::F(1)), m(Q::V), xg(Q::F(0)), xg(Q::V)];
        let mut bodies: Vec<Vec<I>> = pool.iter().map(|i| vec![i.clone()]).collect();
        for a in &pool {
            for b in &pool {
                bodies.push(vec![a.clone(), b.clone()]);
            }
        }
        let progs = [vec![m(Q::F(0))], vec![m(Q::F(1)), m(Q::F(0))], vec![xg(Q::F(0)), m(Q::F(1))]];
        let mut n = 0usize;
        for (bi, body) in bodies.iter().enumerate() {
            for cq in [Q::F(0), Q::V] {
                // a variable qubit in the body needs a variable qubit in the identifier
                if cq != Q::V && body.iter().any(|i| matches!(i, I::Gate(_, _, Q::V))) {
                    continue;
                }
                for (pi, prog) in progs.iter().enumerate() {
                    n += 1;
                    if !thorough && bi >= pool.len() && n % 3 != 0 {
                        continue;
                    }
                    // alone, and together with a gate calibration X q -> MEASURE q (cycle through a gate)
                    let c1 = Case { cals: vec![Cal { name: MEAS, ppat: Some(0), q: cq, body: body.clone() }], prog: prog.clone() };
                    do_case(&mut run, &mut ctl, &c1, "measure-cal", None);
                    if pi != 1 {
                        let c2 = Case {
                            cals: vec![
                                Cal { name: MEAS, ppat: Some(0), q: cq, body: body.clone() },
                                Cal { name: 1, ppat: Some(0), q: Q::V, body: vec![m(Q::V)] },
                            ],
                            prog: prog.clone(),
                        };
                        do_case(&mut run, &mut ctl, &c2, "measure-cal+gate-cal", None);
                    }
                }
            }
        }
        // two measurement calibrations calling each other on different qubits
        let c3 = Case {
            cals: vec![
                Cal { name: MEAS, ppat: Some(0), q: Q::F(0), body: vec![m(Q::F(1))] },
                Cal { name: MEAS, ppat: Some(0), q: Q::F(1), body: vec![I::Nop, m(Q::F(0))] },
            ],
            prog: vec![m(Q::F(0))],
        };
        do_case(&mut run, &mut ctl, &c3, "measure-cal-mutual", None);
    }

    // ---- 1. corpus ----------------------------------------------------------------------------
    let x = |q: Q| I::Gate(1, lit(0), q);
    let y = |q: Q| I::Gate(2, lit(0), q);
    let corpus = vec![
        // direct self recursion
        Case { cals: vec![Cal { name: 1, ppat: None, q: Q::F(0), body: vec![x(Q::F(0))] }], prog: vec![x(Q::F(0))] },
        // mutual recursion through a variable qubit
        Case {
            cals: vec![
                Cal { name: 1, ppat: None, q: Q::V, body: vec![I::Nop, y(Q::V)] },
                Cal { name: 2, ppat: None, q: Q::F(0), body: vec![x(Q::F(0))] },
            ],
            prog: vec![x(Q::F(1)), x(Q::F(0))],
        },
        // same instruction twice at top level and twice in a body: not recursive
        Case {
            cals: vec![
                Cal { name: 1, ppat: None, q: Q::V, body: vec![y(Q::V), y(Q::V)] },
                Cal { name: 2, ppat: Some(0), q: Q::V, body: vec![I::Nop] },
            ],
            prog: vec![x(Q::F(0)), x(Q::F(0))],
        },
        // RX(%t) -> RX(%t): recursion found on the second visit (bare variable)
        Case { cals: vec![Cal { name: 0, ppat: None, q: Q::V, body: vec![I::Gate(0, var.clone(), Q::V)] }], prog: vec![I::Gate(0, lit(2), Q::F(1))] },
        // growing chain caught by a later literal calibration: terminates
        Case {
            cals: vec![
                Cal { name: 0, ppat: None, q: Q::F(0), body: vec![I::Gate(0, var1.clone(), Q::F(0))] },
                Cal { name: 0, ppat: Some(3), q: Q::F(0), body: vec![I::Nop] },
            ],
            prog: vec![I::Gate(0, lit(0), Q::F(0))],
        },
        // the literal calibration defined FIRST loses the tie: diverges
        Case {
            cals: vec![
                Cal { name: 0, ppat: Some(3), q: Q::F(0), body: vec![I::Nop] },
                Cal { name: 0, ppat: None, q: Q::F(0), body: vec![I::Gate(0, var1.clone(), Q::F(0))] },
            ],
            prog: vec![I::Gate(0, lit(0), Q::F(0))],
        },
        // growing body on another qubit without calibration: terminates after one step
        Case { cals: vec![Cal { name: 0, ppat: None, q: Q::F(0), body: vec![I::Gate(0, var1.clone(), Q::F(1))] }], prog: vec![I::Gate(0, lit(0), Q::F(0))] },
        // closed growing-looking parameter: RX(1) -> RX((1+1)) -> literal 2
        Case {
            cals: vec![
                Cal { name: 0, ppat: Some(1), q: Q::V, body: vec![I::Gate(0, P { plus: 1, base: Some(1) }, Q::V)] },
                Cal { name: 0, ppat: Some(2), q: Q::V, body: vec![I::Gate(3, var.clone(), Q::V)] },
            ],
            prog: vec![I::Gate(0, lit(1), Q::F(2))],
        },
        // a diverging sibling AFTER a recursive one: the error wins
        Case {
            cals: vec![
                Cal { name: 1, ppat: None, q: Q::F(0), body: vec![x(Q::F(0))] },
                Cal { name: 0, ppat: None, q: Q::F(0), body: vec![I::Gate(0, var1.clone(), Q::F(0))] },
            ],
            prog: vec![x(Q::F(0)), I::Gate(0, lit(0), Q::F(0))],
        },
    ];
    let mut all: Vec<(Case, &'static str)> = Vec::new();
    for c in &corpus {
        all.push((c.clone(), "corpus"));
    }

    // ---- 1b. LONG chains: k = 1..9 distinct instructions G0 -> G1 -> ... -> G(k-1), closing a cycle
    //          (G(k-1) -> G0) or ending in NOP, entered through a tail of 0..3 further distinct
    //          instructions, optionally with NOPs around every call.  The instructions differ by
    //          literal parameter / qubit / gate name+parameter / raw closed expression ((j)+1).
    //          Every one of these runs in a child process first.
    {
        let mut n_long = 0u64;
        for k in 1..=9usize {
            for variant in 0..4usize {
                for tail in 0..=3usize {
                    for nops in [false, true] {
                        if !thorough && !(tail == 0 || tail == (k % 3) + 1) {
                            continue;
                        }
                        if !thorough && nops != ((k + variant + tail) % 2 == 0) {
                            continue;
                        }
                        for cyclic in [true, false] {
                            // G j: (name, literal parameter value, qubit pattern of its calibration, the instruction)
                            let node = |j: usize| -> (usize, u64, Q) {
                                match variant {
                                    0 => (1, j as u64, Q::V),                 // X(j) q
                                    1 => (1, 0, Q::F(j as u64)),             // X(0) j
                                    2 => (j % 3, (j / 3) as u64, Q::V),      // RX/X/Y (j/3) q
                                    _ => (0, j as u64, Q::V),                // RX(j) q, invoked as RX(((j-1)+1)) q
                                }
                            };
                            let call = |j: usize, from_cycle: bool| -> I {
                                let (n, v, q) = node(j);
                                let qq = if q == Q::V { Q::V } else { q };
                                if variant == 3 && j > 0 && from_cycle {
                                    I::Gate(n, P { plus: 1, base: Some(v - 1) }, qq)
                                } else {
                                    I::Gate(n, lit(v), qq)
                                }
                            };
                            let wrap = |i: I| -> Vec<I> { if nops { vec![I::Nop, i, I::Nop] } else { vec![i] } };
                            let mut cals: Vec<Cal> = Vec::new();
                            // tail T0 -> T1 -> ... -> G0 : FOO-free names, parameters 20.. so they never collide
                            for t in 0..tail {
                                let next = if t + 1 < tail { I::Gate(2, lit(20 + t as u64 + 1), Q::V) } else { call(0, false) };
                                cals.push(Cal { name: 2, ppat: Some(20 + t as u64), q: Q::V, body: wrap(next) });
                            }
                            for j in 0..k {
                                let (n, v, q) = node(j);
                                let body = if j + 1 < k {
                                    wrap(call(j + 1, true))
                                } else if cyclic {
                                    wrap(call(0, false))
                                } else {
                                    vec![I::Nop]
                                };
                                cals.push(Cal { name: n, ppat: Some(v), q, body });
                            }
                            // entry: concrete qubit 0 (variant 1: the chain walks over qubits 0..k-1)
                            let conc = |i: I| -> I {
                                match i {
                                    I::Gate(n, p, Q::V) => I::Gate(n, p, Q::F(0)),
                                    other => other,
                                }
                            };
                            let entry = if tail > 0 { I::Gate(2, lit(20), Q::F(0)) } else { conc(call(0, false)) };
                            let prog = if nops { vec![I::Nop, entry, I::Nop] } else { vec![entry] };
                            all.push((Case { cals, prog }, if cyclic { "long-cycle" } else { "long-chain" }));
                            n_long += 1;
                        }
                    }
                }
            }
        }
        run.count_n("long-chain family cases (k = 1..9, child-guarded)", n_long);
    }

    // ---- 2. exhaustive: one calibration, bodies of length <= 2 (+ every pair of one-instruction
    //         calibrations in thorough) ----------------------------------------------------------
    let mut alpha: Vec<I> = vec![I::Nop];
    for n in 0..2 {
        for p in [lit(0), var.clone(), var1.clone()] {
            for q in [Q::F(0), Q::V] {
                alpha.push(I::Gate(n, p.clone(), q));
            }
        }
    }
    let mut bodies: Vec<Vec<I>> = Vec::new();
    for a in &alpha {
        bodies.push(vec![a.clone()]);
    }
    for a in &alpha {
        for b in &alpha {
            bodies.push(vec![a.clone(), b.clone()]);
        }
    }
    let progs = [vec![I::Gate(0, lit(0), Q::F(0))], vec![I::Gate(1, lit(0), Q::F(0)), I::Gate(0, lit(1), Q::F(0))]];
    let mut heads = Vec::new();
    for name in 0..2 {
        for ppat in [None, Some(0)] {
            for q in [Q::F(0), Q::V] {
                heads.push((name, ppat, q));
            }
        }
    }
    for (name, ppat, q) in &heads {
        for body in &bodies {
            for prog in &progs {
                let c = Case { cals: vec![Cal { name: *name, ppat: *ppat, q: *q, body: body.clone() }], prog: prog.clone() };
                all.push((c, "E1"));
            }
        }
    }
    // pairs of one-instruction calibrations (mutual recursion in all shapes)
    let stride = if thorough { 1 } else { 8 };
    let mut k = 0usize;
    for (n1, p1, q1) in &heads {
        for b1 in &alpha {
            for (n2, p2, q2) in &heads {
                for b2 in &alpha {
                    k += 1;
                    if k % stride != 0 {
                        continue;
                    }
                    let c = Case {
                        cals: vec![
                            Cal { name: *n1, ppat: *p1, q: *q1, body: vec![b1.clone()] },
                            Cal { name: *n2, ppat: *p2, q: *q2, body: vec![b2.clone()] },
                        ],
                        prog: progs[1].clone(),
                    };
                    all.push((c, "E2"));
                }
            }
        }
    }

    // ---- 3. seeded random: 2..4 calibrations over RX, X, Y (+ uncalibrated FOO) -----------------
    let mut rng = Rng::new(args.seed);
    let nrand = if thorough { 20000 } else { 2000 };
    for _ in 0..nrand {
        let allow_grow = rng.chance(1, 6);
        let rand_p = |rng: &mut Rng, body: bool| -> P {
            match rng.below(10) {
                0..=3 => P { plus: 0, base: Some(rng.below(3) as u64) },
                4..=6 if body => P { plus: 0, base: None },
                7 => P { plus: rng.range(1, 2) as u32, base: Some(rng.below(2) as u64) },
                8 if body && allow_grow => P { plus: rng.range(1, 2) as u32, base: None },
                _ => P { plus: 0, base: Some(rng.below(3) as u64) },
            }
        };
        let rand_q = |rng: &mut Rng, body: bool| -> Q {
            if body && rng.chance(1, 3) {
                Q::V
            } else {
                Q::F(rng.below(2) as u64)
            }
        };
        let rand_i = |rng: &mut Rng, body: bool| -> I {
            if rng.chance(1, 8) {
                I::Nop
            } else {
                let n = if rng.chance(1, 10) { 3 } else { rng.below(3) };
                I::Gate(n, rand_p(rng, body), rand_q(rng, body))
            }
        };
        let ncal = rng.range(1, 4);
        let cals: Vec<Cal> = (0..ncal)
            .map(|_| Cal {
                name: rng.below(3),
                ppat: if rng.chance(1, 2) { None } else { Some(rng.below(4) as u64) },
                q: if rng.chance(1, 2) { Q::V } else { Q::F(rng.below(2) as u64) },
                body: (0..rng.range(1, 3)).map(|_| rand_i(&mut rng, true)).collect(),
            })
            .collect();
        let prog: Vec<I> = (0..rng.range(1, 3)).map(|_| rand_i(&mut rng, false)).collect();
        all.push((Case { cals, prog }, "R"));
    }

    // ---- run: children for the growing class (8 at a time), then everything in order ------------
    let mut grow_idx: Vec<usize> = (0..all.len()).filter(|&k| growing(&all[k].0)).collect();
    // quick tier: at most ~250 child processes (every n-th growing case beyond the corpus)
    let mut skipped: std::collections::HashSet<usize> = Default::default();
    if !thorough && grow_idx.len() > 250 {
        let n = (grow_idx.len() + 249) / 250;
        let keep: Vec<usize> = grow_idx.iter().enumerate().filter(|(j, k)| j % n == 0 || all[**k].1 == "corpus").map(|(_, k)| *k).collect();
        for k in &grow_idx {
            if !keep.contains(k) {
                skipped.insert(*k);
            }
        }
        grow_idx = keep;
    }
    // the long-chain family is never capped
    grow_idx.extend((0..all.len()).filter(|&k| all[k].1.starts_with("long-") && !growing(&all[k].0)));
    let results: std::sync::Mutex<std::collections::HashMap<usize, ChildResult>> = Default::default();
    let next = std::sync::atomic::AtomicUsize::new(0);
    let timeout = ctl.small_timeout;
    std::thread::scope(|sc| {
        for _ in 0..8 {
            sc.spawn(|| loop {
                let k = next.fetch_add(1, std::sync::atomic::Ordering::SeqCst);
                if k >= grow_idx.len() {
                    break;
                }
                let r = run_child(&all[grow_idx[k]].0, true, timeout);
                results.lock().unwrap().insert(grow_idx[k], r);
            });
        }
    });
    let mut results = results.into_inner().unwrap();
    let mut exhaustive_cases = 0u64;
    for (k, (c, tag)) in all.iter().enumerate() {
        if *tag != "R" {
            exhaustive_cases += 1;
        }
        if skipped.contains(&k) {
            run.count("growing-class case skipped (quick tier cap on child processes)");
            continue;
        }
        do_case(&mut run, &mut ctl, c, tag, results.remove(&k));
    }

    run.count_n("child processes", ctl.children);
    run.count_n("child crashes (known finding)", ctl.crashes);
    run.finish(
        "corpus of hand-written self-/mutually-recursive, literal-caught and diverging sets; exhaustive: every single \
         calibration over {RX,X} x {%t,0} x {0,q} with every body of length <= 2 over NOP and gates {RX,X} x {0,%t,%t+1} x {0,q}, \
         two programs each, and pairs of one-instruction calibrations (every 8th in quick tier); seeded random sets of 1..4 \
         calibrations over RX/X/Y (+ uncalibrated FOO) with bodies of 1..3 instructions; LONG chains of k = 1..9 distinct \
         instructions (distinct by literal parameter / qubit / name+parameter / raw closed expression) closing a cycle or ending \
         in NOP, entered through a tail of 0..3 further instructions, with and without NOPs around the calls. Sets in the growing \
         class, sets with measurement calibrations and the whole long-chain family run in a child process first (a crash or \
         timeout outside the growing class is a violation). Distinct by Quil text; non-trivial = something was expanded or the recursive error was returned.",
        true,
        serde_json::json!({"exhaustive_cases": exhaustive_cases, "random_cases": nrand, "children": ctl.children, "crashes": ctl.crashes, "mutant": mutant()}),
    );
}
