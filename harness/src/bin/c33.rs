//! C33 — wrapping a program in a loop repeats its body exactly n times.
//!
//! Every case: a real `Program` parsed from Quil text (definitions + body), a counter reference, a
//! start target and an iteration count; observed: `program.wrap_in_loop(..)` — its body, its memory
//! declarations (in order) and all its other definitions — abstracted to the skeleton of
//! Model/Loop.v.  In Coq the model's `wrap` is compared structurally and, for 2 <= n <= 6, the
//! interpreter is run on the IMPLEMENTATION's wrapped body.
use qv::{gallina as g, Args, Rng, Run};
use quil_rs::instruction::{
    ArithmeticOperand, ArithmeticOperator, Instruction, MemoryReference, ScalarType, Target,
    TargetPlaceholder,
};
use quil_rs::quil::Quil;
use quil_rs::Program;
use std::collections::HashMap;

#[derive(Clone, Debug, PartialEq)]
enum I {
    Event(u64),
    Use(u64),
    Move((u64, u64), i64),
    Sub((u64, u64), i64),
    Label(u64),
    Jump(u64),
    JumpWhen(u64, (u64, u64)),
    JumpUnless(u64, (u64, u64)),
    Halt,
}

struct Interner {
    names: HashMap<String, u64>,
}
impl Interner {
    fn new(first: &str) -> Self {
        let mut names = HashMap::new();
        names.insert(first.to_string(), 0);
        Interner { names }
    }
    fn id(&mut self, s: &str) -> u64 {
        let n = self.names.len() as u64;
        *self.names.entry(s.to_string()).or_insert(n)
    }
}

/// does the Quil text mention the identifier `name` (as a whole token)?
fn mentions(text: &str, name: &str) -> bool {
    text.split(|c: char| !(c.is_alphanumeric() || c == '_' || c == '-'))
        .any(|tok| tok == name)
}

struct Abs {
    cname: String,
    regions: Interner,
    labels: Interner,
    events: Interner,
    start: Target,
}

impl Abs {
    fn new(cname: &str, start: &Target) -> Self {
        Abs {
            cname: cname.to_string(),
            regions: Interner::new(cname),
            labels: Interner::new("\u{0}start-target"),
            events: Interner::new("\u{0}none"),
            start: start.clone(),
        }
    }
    fn mref(&mut self, m: &MemoryReference) -> (u64, u64) {
        (self.regions.id(&m.name), m.index)
    }
    fn target(&mut self, t: &Target) -> u64 {
        if *t == self.start {
            return 0;
        }
        match t {
            Target::Fixed(s) => self.labels.id(s),
            Target::Placeholder(p) => self.labels.id(&format!("\u{0}placeholder:{}", p.as_inner())),
        }
    }
    fn other(&mut self, i: &Instruction) -> I {
        let text = i.to_quil_or_debug();
        let id = self.events.id(&text);
        if mentions(&text, &self.cname) {
            I::Use(id)
        } else {
            I::Event(id)
        }
    }
    fn instr(&mut self, i: &Instruction) -> I {
        match i {
            Instruction::Move(m) => match &m.source {
                ArithmeticOperand::LiteralInteger(v) => I::Move(self.mref(&m.destination), *v),
                _ => self.other(i),
            },
            Instruction::Arithmetic(a) if a.operator == ArithmeticOperator::Subtract => match &a.source {
                ArithmeticOperand::LiteralInteger(v) => I::Sub(self.mref(&a.destination), *v),
                _ => self.other(i),
            },
            Instruction::Label(l) => I::Label(self.target(&l.target)),
            Instruction::Jump(j) => I::Jump(self.target(&j.target)),
            Instruction::JumpWhen(j) => {
                let r = self.mref(&j.condition);
                I::JumpWhen(self.target(&j.target), r)
            }
            Instruction::JumpUnless(j) => {
                let r = self.mref(&j.condition);
                I::JumpUnless(self.target(&j.target), r)
            }
            Instruction::Halt() => I::Halt,
            other => self.other(other),
        }
    }
}

#[derive(Clone, Debug)]
struct P {
    decls: Vec<(u64, u64, u64)>,
    defs: Vec<u64>,
    body: Vec<I>,
}

fn scalar(t: &ScalarType) -> u64 {
    match t {
        ScalarType::Bit => 0,
        ScalarType::Integer => 1,
        ScalarType::Octet => 2,
        ScalarType::Real => 3,
    }
}

fn abstract_program(abs: &mut Abs, defs: &mut Interner, p: &Program) -> P {
    let decls = p
        .memory_regions
        .iter()
        .map(|(name, r)| (abs.regions.id(name), scalar(&r.size.data_type), r.size.length))
        .collect();
    let all = p.to_instructions();
    let nbody = p.body_instructions().count();
    let mut d: Vec<u64> = all[..all.len() - nbody]
        .iter()
        .filter(|i| !matches!(i, Instruction::Declaration(_)))
        .map(|i| defs.id(&i.to_quil_or_debug()))
        .collect();
    // FrameSet is a HashMap (its order is C08's subject); definitions are compared as a sorted list
    d.sort();
    let body = p.body_instructions().map(|i| abs.instr(i)).collect();
    P { decls, defs: d, body }
}

fn r_coq(r: &(u64, u64)) -> String {
    format!("({}%N, {}%N)", r.0, r.1)
}
fn i_coq(i: &I) -> String {
    match i {
        I::Event(e) => format!("IEvent {e}%N"),
        I::Use(e) => format!("IUse {e}%N"),
        I::Move(r, v) => format!("IMove {} {}", r_coq(r), g::z(*v)),
        I::Sub(r, v) => format!("ISub {} {}", r_coq(r), g::z(*v)),
        I::Label(l) => format!("ILabel {l}%N"),
        I::Jump(l) => format!("IJump {l}%N"),
        I::JumpWhen(l, r) => format!("IJumpWhen {l}%N {}", r_coq(r)),
        I::JumpUnless(l, r) => format!("IJumpUnless {l}%N {}", r_coq(r)),
        I::Halt => "IHalt".to_string(),
    }
}
fn p_coq(p: &P) -> String {
    format!(
        "(mkprog {} {} {})",
        g::list(&p.decls.iter().map(|(n, t, l)| format!("({n}%N, ({t}%N, {l}%N))")).collect::<Vec<_>>()),
        g::list(&p.defs.iter().map(|d| format!("{d}%N")).collect::<Vec<_>>()),
        g::list(&p.body.iter().map(i_coq).collect::<Vec<_>>())
    )
}

#[derive(Clone, Debug)]
enum Start {
    Fixed(&'static str),
    Placeholder(&'static str),
}

/// QV_MUTANT: perturb the observed wrapped program the way a subtly wrong implementation would.
fn mutate(m: u32, w: &mut P, c: (u64, u64), n: u64) {
    if n < 2 {
        if m == 4 && n == 0 {
            // n = 0 also drops the declarations
            w.decls.clear();
        }
        return;
    }
    let len = w.body.len();
    match m {
        // 1: the snapshot's defect: SUB on index 0 of the region, declaration of length 1
        1 => {
            if let Some(I::Sub(r, _)) = w.body.get_mut(len - 2) {
                r.1 = 0;
            }
            for d in w.decls.iter_mut() {
                if d.0 == c.0 {
                    d.2 = 1;
                }
            }
        }
        // 2: off-by-one: counter initialised to n - 1
        2 => {
            if let Some(I::Move(_, v)) = w.body.get_mut(0) {
                *v -= 1;
            }
        }
        // 3: swapped order: the label is placed before the MOVE (the counter is reset every time)
        3 => w.body.swap(0, 1),
        // 5: JUMP-UNLESS instead of JUMP-WHEN
        5 => {
            if let Some(I::JumpWhen(l, r)) = w.body.last().cloned() {
                w.body[len - 1] = I::JumpUnless(l, r);
            }
        }
        _ => {}
    }
}

struct Ctx {
    mutant: u32,
}

#[allow(clippy::too_many_arguments)]
fn run_case(
    run: &mut Run,
    cx: &Ctx,
    defs_text: &[&str],
    body_text: &[String],
    counter: (&str, u64),
    start: &Start,
    n: u32,
    kind: &str,
) {
    let text = defs_text
        .iter()
        .map(|s| s.to_string())
        .chain(body_text.iter().cloned())
        .collect::<Vec<_>>()
        .join("\n");
    let program: Program = text.parse().unwrap_or_else(|e| panic!("does not parse: {e}\n{text}"));
    assert_eq!(program.body_instructions().count(), body_text.len(), "body lines lost:\n{text}");
    let target = match start {
        Start::Fixed(s) => Target::Fixed(s.to_string()),
        Start::Placeholder(s) => Target::Placeholder(TargetPlaceholder::new(s.to_string())),
    };
    let cref = MemoryReference { name: counter.0.to_string(), index: counter.1 };
    let desc = format!(
        "wrap_in_loop(counter={}[{}], start={:?}, n={n}) of:\n{text}",
        counter.0, counter.1, start
    );
    let wrapped = {
        let (p, c, t) = (program.clone(), cref.clone(), target.clone());
        match qv::catch(move || p.wrap_in_loop(c, t, n)) {
            Ok(w) => w,
            Err(msg) => {
                run.process_failure(&format!("wrap_in_loop panicked: {msg}"), &desc, None);
                return;
            }
        }
    };
    let mut abs = Abs::new(counter.0, &target);
    let mut defs = Interner::new("\u{0}none");
    let orig = abstract_program(&mut abs, &mut defs, &program);
    let mut w = abstract_program(&mut abs, &mut defs, &wrapped);
    let c = (0u64, counter.1);
    mutate(cx.mutant, &mut w, c, n as u64);
    let coq = format!("({}, {}, 0%N, {}%N, {})", p_coq(&orig), r_coq(&c), n, p_coq(&w));
    let admissible = orig.body.iter().all(|i| match i {
        I::Event(_) => true,
        I::Move(r, _) | I::Sub(r, _) => r.0 != 0,
        I::Label(l) => *l != 0,
        _ => false,
    });
    run.count(&format!("{kind} n={}", if n > 6 { "big".to_string() } else { n.to_string() }));
    run.count(if admissible { "body admissible (run checked for 2<=n<=6)" } else { "body not admissible (structure only)" });
    run.count(&format!("counter index {}", counter.1));
    if program.memory_regions.contains_key(counter.0) {
        run.count("counter region already declared");
    }
    let nontrivial = n >= 2 && !orig.body.is_empty();
    run.case(coq, &desc, nontrivial, None);
}

const DEFS: &[&str] = &[
    "DECLARE ro BIT[4]",
    "DECLARE x INTEGER[8]",
    "DECLARE theta REAL[2]",
    "DEFFRAME 0 \"rf\":\n    SAMPLE-RATE: 1.0",
    "DEFWAVEFORM w:\n    1.0, 1.0",
    "DEFCAL X 0:\n    PULSE 0 \"rf\" w",
    "DEFCAL MEASURE 0 addr:\n    CAPTURE 0 \"rf\" w addr",
    "DEFGATE G AS MATRIX:\n    1, 0\n    0, 1",
    "DEFCIRCUIT BELL a b:\n    H a\n    CNOT a b",
    "PRAGMA EXTERN foo \"INTEGER (x : INTEGER)\"",
];

const BODY_OK: &[&str] = &[
    "X 0",
    "H 1",
    "CNOT 0 1",
    "RX(theta[0]) 2",
    "G 3",
    "PRAGMA foo",
    "PRAGMA bar \"baz\"",
    "PULSE 0 \"rf\" w",
    "CAPTURE 0 \"rf\" w ro[0]",
    "DELAY 0 1.0",
    "FENCE 0 1",
    "SET-PHASE 0 \"rf\" 1.0",
    "MEASURE 0 ro[0]",
    "MEASURE 1 ro[1]",
    "RESET",
    "NOP",
    "WAIT",
    "MOVE ro[2] 1",
    "MOVE x[1] 7",
    "ADD x[2] 3",
    "SUB x[3] 1",
    "AND ro[0] ro[1]",
    "EXCHANGE x[4] x[5]",
    "LABEL @other",
    "BELL 0 1",
];

/// lines that make the body inadmissible for the theorem (structure still compared)
const BODY_BAD: &[&str] = &[
    "JUMP @other",
    "HALT",
    "JUMP-WHEN @other ro[0]",
    "JUMP-UNLESS @other ro[3]",
    "LABEL @loop_start",
    "MOVE c[0] 5",
    "SUB c[3] 1",
    "MOVE lc[1] 2",
];

const COUNTERS: &[(&str, u64)] = &[("c", 0), ("c", 3), ("lc", 1), ("x", 0), ("x", 2), ("ro", 5), ("c", 1000)];
const NS: &[u32] = &[0, 1, 2, 3, 4, 5, 6, 7, 1000, 65536, 4294967295];

fn main() {
    let args = Args::parse();
    let cx = Ctx {
        mutant: std::env::var("QV_MUTANT").ok().and_then(|s| s.parse().ok()).unwrap_or(0),
    };
    if let Some(d) = &args.replay {
        println!("{}", d.replace("\\n", "\n"));
        println!("required: for n >= 2 the wrapped program is DECLARE counter INTEGER[index+1]; MOVE counter n; LABEL start; <body>; SUB counter 1; JUMP-WHEN start counter (so that running it executes the body exactly n times and stops with counter = 0); n = 1 unchanged; n = 0 body removed; all other definitions preserved");
        return;
    }
    let header = "From Coq Require Import List NArith ZArith.\nFrom QV Require Import Model.Loop.\nImport ListNotations.";
    let mut run = Run::new(&args.out, header, "case", "failing", 250);
    let starts = [Start::Fixed("loop_start"), Start::Placeholder("loop"), Start::Fixed("a")];

    // systematic: every short body (<= 2 lines over a small alphabet) x every n x counters
    let small: Vec<&str> = vec!["X 0", "PRAGMA foo", "PULSE 0 \"rf\" w", "MOVE x[1] 7", "LABEL @other"];
    let mut bodies: Vec<Vec<String>> = vec![vec![]];
    for a in &small {
        bodies.push(vec![a.to_string()]);
        for b in &small {
            bodies.push(vec![a.to_string(), b.to_string()]);
        }
    }
    let maxlen3 = args.thorough();
    if maxlen3 {
        for a in &small {
            for b in &small {
                for c in &small {
                    bodies.push(vec![a.to_string(), b.to_string(), c.to_string()]);
                }
            }
        }
    }
    for body in &bodies {
        for n in NS {
            for (ci, counter) in [("c", 0u64), ("c", 3), ("x", 2)].iter().enumerate() {
                let defs: &[&str] = if ci == 2 { &DEFS[..3] } else { &[] };
                run_case(&mut run, &cx, defs, body, *counter, &starts[ci % 3], *n, "sys");
            }
        }
    }
    let systematic = run.evaluations;

    // random: definitions subset, longer bodies, all counters / targets / n
    let mut rng = Rng::new(args.seed);
    let nrand = if args.thorough() { 30000 } else { 8000 };
    for _ in 0..nrand {
        let defs: Vec<&str> = DEFS.iter().filter(|_| rng.chance(1, 2)).copied().collect();
        let len = rng.range(0, 10);
        let bad = rng.chance(1, 8);
        let mut body = Vec::new();
        for _ in 0..len {
            if bad && rng.chance(1, 4) {
                body.push(rng.pick(BODY_BAD).to_string());
            } else {
                body.push(rng.pick(BODY_OK).to_string());
            }
        }
        let counter = *rng.pick(COUNTERS);
        let start = rng.pick(&starts).clone();
        let n = if rng.chance(3, 4) { rng.range(0, 6) as u32 } else { *rng.pick(NS) };
        run_case(&mut run, &cx, &defs, &body, counter, &start, n, "rnd");
    }
    run.finish(
        "systematic: every body of <= 2 (thorough 3) lines over {X 0, PRAGMA foo, PULSE, MOVE x[1] 7, LABEL @other} x \
         n in {0..7, 1000, 65536, 2^32-1} x counters {c[0], c[3], x[2] with x already declared INTEGER[8]} x \
         {fixed, placeholder} start targets; random: a random subset of 10 definitions (DECLARE, DEFFRAME, DEFWAVEFORM, \
         DEFCAL, DEFCAL MEASURE, DEFGATE, DEFCIRCUIT, PRAGMA EXTERN), bodies of 0..10 lines over gates, pragmas, pulses, \
         captures, measurements, classical instructions on other regions and other labels (1 in 8 bodies also with jumps / \
         HALT / the start label / counter writes: structure only), 7 counter references, 3 start targets. \
         Distinct by call + program text; non-trivial = n >= 2 and a non-empty body.",
        false,
        serde_json::json!({"systematic_cases": systematic, "random_cases": nrand, "mutant": cx.mutant}),
    );
}
