//! C22 — every block's dependency graph is a well-formed DAG (model of ScheduledBasicBlock::build).
//! Also runs the block-level memory check of C23 (verdict code 5) on the same cases.
#[path = "../graphgen.rs"]
mod graphgen;
use graphgen::*;
use qv::{Args, Rng, Run};

fn main() {
    let args = Args::parse();
    if let Some(case) = &args.replay {
        replay(case);
        return;
    }
    let mut run = Run::new(&args.out, COQ_HEADER, CASE_TYPE, "gfailing 22", 300);
    let thorough = args.thorough();
    if thorough {
        exhaustive(&mut run, 3, 4, 4);
    } else {
        exhaustive(&mut run, 2, 3, 3);
    }
    let exhaustive_cases = run.evaluations;
    for t in FIXED_E2E {
        run_e2e_text(&mut run, &format!("{E2E_HEADER}{t}"), "fixed");
    }
    let mut rng = Rng::new(args.seed);
    let (nr, ne) = if thorough { (12000, 8000) } else { (1200, 1000) };
    random_blocks(&mut run, &mut rng, nr, 50);
    random_e2e(&mut run, &mut rng, ne, 55);
    run.finish(
        "exhaustive: every block over the 14-summary alphabet (classical/RF summaries over 2 frames and 2 regions) \
         up to length 2 (thorough 3) and over an 8-summary sub-alphabet up to length 3 (thorough 4), each x {no terminator, \
         JUMP, JUMP-WHEN reading r0}, plus every block up to length 3 (4) over a 6-summary alphabet containing the three \
         error-producing summaries; random abstract single/multi-block programs \
         (3 frames, <=3 regions, length <=12, occasionally not well-formed handler answers) through a table-driven \
         InstructionHandler; random and fixed Quil-T programs through the DefaultHandler. One case per basic block. \
         Distinct by block description; non-trivial = the block builds and has >= 2 instructions.",
        true,
        serde_json::json!({"exhaustive_cases": exhaustive_cases, "random_abstract_programs": nr, "random_quilt_programs": ne}),
    );
}

fn replay(case: &str) {
    println!("replaying: {case}");
    let tmp = std::env::temp_dir().join("qv-c22-replay");
    let mut run = Run::new(&tmp, COQ_HEADER, CASE_TYPE, "gfailing 22", 10);
    if let Some(rest) = case.strip_prefix("A ") {
        let b = ABlock::parse(rest).expect("abstract block");
        let (text, _) = concretise(&[b.clone()]);
        println!("program:\n{text}");
        run_abstract(&mut run, &[b], "replay");
    } else if let Some(rest) = case.strip_prefix("Q ") {
        let body = rest.split_once(" of: ").map(|x| x.1).unwrap_or(rest).replace("; ", "\n");
        let text = format!("{E2E_HEADER}{body}");
        println!("program:\n{text}");
        run_e2e_text(&mut run, &text, "replay");
    }
    run.finish("replay", false, serde_json::json!({}));
    println!("{}", std::fs::read_to_string(tmp.join("shard_0.v")).unwrap_or_default());
}
