//! C22 — every block's dependency graph is a well-formed DAG (model of ScheduledBasicBlock::build).
//! Also runs the block-level memory check of C23 (verdict code 5) on the same cases.
#[path = "../graphgen.rs"]
mod graphgen;
use graphgen::*;
use qv::{Args, Rng, Run};

fn main() {
    let args = Args::parse();
    if let Some(case) = &args.replay {
        replay(case);
        return;
    }
    let mut run = Run::new(&args.out, COQ_HEADER, CASE_TYPE, "gfailing 22", 300);
    let thorough = args.thorough();
    if thorough {
        exhaustive(&mut run, 3, 4, 4);
    } else {
        exhaustive(&mut run, 2, 3, 3);
    }
    let exhaustive_cases = run.evaluations;
    for t in FIXED_E2E {
        run_e2e_text(&mut run, &format!("{E2E_HEADER}{t}"), "fixed");
    }
    let mut rng = Rng::new(args.seed);
    let (nr, ne) = if thorough { (12000, 8000) } else { (1200, 1000) };
    random_blocks(&mut run, &mut rng, nr, 50);
    random_e2e(&mut run, &mut rng, ne, 55);
    let glue_programs = if thorough { 6000 } else { 500 };
    run.note(&format!(
        "glue stream (Model/DefaultInfo.v): {glue_programs} random + {} fixed Quil-T programs; per block, Coq recomputes \
         every DefaultHandler summary (role, is_scheduled, used/blocked frame numbers) from the abstract instruction and \
         compares it with what the real DefaultHandler reported (verdict 1 on mismatch)",
        FIXED_E2E.len()
    ));
    run.finish(
        "exhaustive: every block over the 14-summary alphabet (classical/RF summaries over 2 frames and 2 regions) \
         up to length 2 (thorough 3) and over an 8-summary sub-alphabet up to length 3 (thorough 4), each x {no terminator, \
         JUMP, JUMP-WHEN reading r0}, plus every block up to length 3 (4) over a 6-summary alphabet containing the three \
         error-producing summaries; random abstract single/multi-block programs \
         (3 frames, <=3 regions, length <=12, occasionally not well-formed handler answers) through a table-driven \
         InstructionHandler; random and fixed Quil-T programs through the DefaultHandler. One case per basic block. \
         Distinct by block description; non-trivial = the block builds and has >= 2 instructions.",
        true,
        serde_json::json!({"exhaustive_cases": exhaustive_cases, "random_abstract_programs": nr, "random_quilt_programs": ne,
                           "glue_programs": glue_programs}),
    );
    glue::stream(&args, glue_programs);
}

/// Validation of the Coq glue `default_info` (coq/Model/DefaultInfo.v) against the real
/// `DefaultHandler`: a second case stream with its own case type, written with a second `Run`
/// into a sibling directory and then appended to the main run (shards renumbered, cases.txt and
/// meta.json merged) so that the driver evaluates it like any other shard.
mod glue {
    use super::graphgen::*;
    use qv::{gallina as g, Args, Rng, Run};
    use quil_rs::instruction::{ExternSignatureMap, FrameIdentifier, Instruction, Qubit};
    use quil_rs::program::analysis::ControlFlowGraph;
    use quil_rs::quil::Quil;
    use quil_rs::Program;
    use std::str::FromStr;

    const HEADER: &str = "From Coq Require Import List NArith.\nFrom QV Require Import Model.DepQueue Model.Frames Model.Graph Model.DefaultInfo.\nImport ListNotations.\nOpen Scope N_scope.";

    fn qubits(qs: &[Qubit]) -> Option<Vec<u64>> {
        qs.iter().map(|q| if let Qubit::Fixed(n) = q { Some(*n) } else { None }).collect()
    }
    fn nl(v: &[u64]) -> String {
        g::list(&v.iter().map(|x| x.to_string()).collect::<Vec<_>>())
    }
    fn frame(f: &FrameIdentifier, names: &mut Interner) -> Option<String> {
        Some(format!("({}, {})", nl(&qubits(&f.qubits)?), names.id(&f.name)))
    }

    /// The abstract instruction: (Frames.finstr literal, okind).  The okind table transliterates the
    /// comment on `okind` in Model/DefaultInfo.v; it does NOT consult the handler.
    fn abstract_instruction(i: &Instruction, names: &mut Interner) -> Option<(String, &'static str)> {
        use Instruction::*;
        let play = |k: &str, blocking: bool, f: String| format!("FPlay {k} {} {f}", g::boolean(blocking));
        let fi = match i {
            Pulse(p) => play("KPulse", p.blocking, frame(&p.frame, names)?),
            Capture(c) => play("KCapture", c.blocking, frame(&c.frame, names)?),
            RawCapture(c) => play("KRawCapture", c.blocking, frame(&c.frame, names)?),
            Delay(d) => {
                let ns: Vec<u64> = d.frame_names.iter().map(|n| names.id(n)).collect();
                format!("FDelay {} {}", nl(&qubits(&d.qubits)?), nl(&ns))
            }
            Fence(f) => format!("FFence {}", nl(&qubits(&f.qubits)?)),
            Reset(r) => match &r.qubit {
                None => "FReset None".to_string(),
                Some(Qubit::Fixed(q)) => format!("FReset (Some {q})"),
                Some(_) => return None,
            },
            SetFrequency(x) => format!("FUpdate KSetFrequency {}", frame(&x.frame, names)?),
            SetPhase(x) => format!("FUpdate KSetPhase {}", frame(&x.frame, names)?),
            SetScale(x) => format!("FUpdate KSetScale {}", frame(&x.frame, names)?),
            ShiftFrequency(x) => format!("FUpdate KShiftFrequency {}", frame(&x.frame, names)?),
            ShiftPhase(x) => format!("FUpdate KShiftPhase {}", frame(&x.frame, names)?),
            SwapPhases(x) => format!("FSwapPhases {} {}", frame(&x.frame_1, names)?, frame(&x.frame_2, names)?),
            _ => "FOther".to_string(),
        };
        let other = match i {
            Arithmetic(_) | Call(_) | Comparison(_) | Convert(_) | BinaryLogic(_) | UnaryLogic(_) | Move(_)
            | Exchange(_) | Load(_) | Nop() | Pragma(_) | Store(_) => "OClassical",
            Halt() | Jump(_) | JumpWhen(_) | JumpUnless(_) => "OJump",
            Wait() => "OWait",
            // definitions, DECLARE, gates, INCLUDE, LABEL, MEASURE; also the field nobody reads for frame instructions
            _ => "OCompose",
        };
        Some((fi, other))
    }

    fn dinstr(i: &Instruction, info: &Info, names: &mut Interner) -> Option<String> {
        let (fi, other) = abstract_instruction(i, names)?;
        let mem = if info.memerr {
            "None".to_string()
        } else {
            format!("(Some ({}, {}, {}))", nl(&info.reads), nl(&info.writes), nl(&info.caps))
        };
        Some(format!("(MkD ({fi}) {other} {mem})"))
    }

    /// Emulated handler bugs (QV_MUTANT=8, 9), applied to the reported summary.
    fn mutate_info(i: &Instruction, info: &mut Info) {
        let k: u32 = std::env::var("QV_MUTANT").ok().and_then(|s| s.parse().ok()).unwrap_or(0);
        match k {
            // 8: is_scheduled loses its RESET arm: RESET reported as scheduled
            8 => {
                if matches!(i, Instruction::Reset(_)) {
                    info.sched = true;
                }
            }
            // 9: a blocking pulse reports the frames sharing a qubit as used instead of blocked
            9 => {
                if matches!(i, Instruction::Pulse(_)) {
                    let b = std::mem::take(&mut info.blocked);
                    info.used.extend(b);
                    info.used.sort();
                }
            }
            _ => {}
        }
    }

    fn program_cases(run: &mut Run, text: &str) {
        let program = match Program::from_str(text) {
            Ok(p) => p,
            Err(_) => return, // reported by the main stream
        };
        let ext = ExternSignatureMap::try_from(program.extern_pragma_map.clone()).unwrap_or_default();
        let mut names = Interner::new();
        let mut frames = Interner::new();
        let mut regions = Interner::new();
        // frame numbering exactly as graphgen::e2e_blocks: position in the sorted key list
        let mut keys: Vec<&FrameIdentifier> = program.frames.get_keys();
        keys.sort_by_key(|k| k.to_quil_or_debug());
        let mut key_lits = vec![];
        for k in keys.iter() {
            frames.id(&k.to_quil_or_debug());
            match frame(k, &mut names) {
                Some(l) => key_lits.push(l),
                None => return,
            }
        }
        let mut avail = match qubits(&program.get_used_qubits().iter().cloned().collect::<Vec<_>>()) {
            Some(a) => a,
            None => return,
        };
        avail.sort();
        let body = text.strip_prefix(E2E_HEADER).unwrap_or(text).replace('\n', "; ");
        for (bi, bb) in ControlFlowGraph::from(&program).into_blocks().into_iter().enumerate() {
            let mut ds = vec![];
            let mut obs = vec![];
            let mut ok = true;
            let mut frame_related = 0;
            for i in bb.instructions().iter() {
                let mut info = default_info(&program, &ext, &mut frames, &mut regions, i);
                match dinstr(i, &info, &mut names) {
                    Some(d) => ds.push(d),
                    None => ok = false,
                }
                if info.role == 1 {
                    frame_related += 1;
                }
                mutate_info(i, &mut info);
                obs.push(info.coq());
            }
            let term = bb.terminator().clone().into_instruction();
            let mut dt = None;
            let mut obst = None;
            if let Some(t) = &term {
                let info = default_info(&program, &ext, &mut frames, &mut regions, t);
                match dinstr(t, &info, &mut names) {
                    Some(d) => dt = Some(d),
                    None => ok = false,
                }
                obst = Some(info.coq());
            }
            if !ok {
                continue;
            }
            let coq = format!(
                "({}, {}, {}, {}, {}, {})",
                g::list(&key_lits),
                nl(&avail),
                g::list(&ds),
                g::option(dt),
                g::list(&obs),
                g::option(obst)
            );
            run.count(&format!("glue:rf-instructions={}", frame_related.min(9)));
            run.case(coq, &format!("G block {bi} of: {body}"), frame_related >= 1, None);
        }
    }

    fn random_text(rng: &mut Rng) -> String {
        let mut text = String::from(E2E_HEADER);
        let nblocks = if rng.chance(1, 3) { rng.range(2, 3) } else { 1 };
        for bi in 0..nblocks {
            if bi > 0 {
                text.push_str(&format!("LABEL @b{bi}\n"));
            }
            for _ in 0..rng.range(1, 8) {
                let r = rng.below(100);
                let line = if r < 70 {
                    *rng.pick(E2E_RF)
                } else if r < 92 {
                    *rng.pick(E2E_CLASSICAL)
                } else {
                    *rng.pick(E2E_BAD)
                };
                text.push_str(line);
                text.push('\n');
            }
            match rng.below(6) {
                0 => text.push_str(&format!("JUMP @b{}\n", rng.below(nblocks))),
                1 => text.push_str(&format!("JUMP-WHEN @b{} ro[{}]\n", rng.below(nblocks), rng.below(4))),
                2 => text.push_str(&format!("JUMP-UNLESS @b{} ro[{}]\n", rng.below(nblocks), rng.below(4))),
                3 => text.push_str("HALT\n"),
                _ => {}
            }
        }
        text
    }

    pub fn stream(args: &Args, programs: usize) {
        let dir = args.out.with_file_name(format!(
            "{}_glue",
            args.out.file_name().and_then(|s| s.to_str()).unwrap_or("cases")
        ));
        let mut run = Run::new(&dir, HEADER, "dcase", "dfailing", 400);
        for t in FIXED_E2E {
            program_cases(&mut run, &format!("{E2E_HEADER}{t}"));
        }
        let mut rng = Rng::new(args.seed ^ 0x6c75_65);
        for _ in 0..programs {
            let text = random_text(&mut rng);
            program_cases(&mut run, &text);
        }
        run.finish("glue", false, serde_json::json!({}));
        merge(&args.out, &dir);
    }

    pub fn replay(rest: &str) {
        let body = rest.split_once(" of: ").map(|x| x.1).unwrap_or(rest).replace("; ", "\n");
        let text = format!("{E2E_HEADER}{body}");
        println!("program:\n{text}");
        let tmp = std::env::temp_dir().join("qv-c22-replay");
        let mut run = Run::new(&tmp, HEADER, "dcase", "dfailing", 50);
        program_cases(&mut run, &text);
        run.finish("replay", false, serde_json::json!({}));
        println!("{}", std::fs::read_to_string(tmp.join("shard_0.v")).unwrap_or_default());
    }

    /// Append the run in `extra` to the run in `main`.
    fn merge(main: &std::path::Path, extra: &std::path::Path) {
        use serde_json::Value;
        let read = |d: &std::path::Path| -> Value {
            serde_json::from_str(&std::fs::read_to_string(d.join("meta.json")).expect("meta.json")).expect("json")
        };
        let mut m = read(main);
        let e = read(extra);
        let base = m["shards"].as_u64().unwrap_or(0);
        let n = e["shards"].as_u64().unwrap_or(0);
        for k in 0..n {
            std::fs::rename(extra.join(format!("shard_{k}.v")), main.join(format!("shard_{}.v", base + k))).expect("move shard");
        }
        let mut cases = std::fs::read_to_string(main.join("cases.txt")).unwrap_or_default();
        for line in std::fs::read_to_string(extra.join("cases.txt")).unwrap_or_default().lines() {
            if let Some((k, rest)) = line.split_once(' ') {
                let k: u64 = k.parse().expect("shard index");
                cases.push_str(&format!("{} {rest}\n", base + k));
            }
        }
        std::fs::write(main.join("cases.txt"), cases).expect("cases.txt");
        for key in ["shards", "evaluations", "distinct", "distinct_nontrivial"] {
            m[key] = Value::from(m[key].as_u64().unwrap_or(0) + e[key].as_u64().unwrap_or(0));
        }
        if let (Some(md), Some(ed)) = (m["distribution"].as_object().cloned(), e["distribution"].as_object()) {
            let mut md = md;
            for (k, v) in ed {
                md.insert(k.clone(), v.clone());
            }
            m["distribution"] = Value::Object(md);
        }
        if let (Some(mp), Some(ep)) = (m["process_failures"].as_array().cloned(), e["process_failures"].as_array()) {
            let mut mp = mp;
            mp.extend(ep.iter().cloned());
            m["process_failures"] = Value::Array(mp);
        }
        std::fs::write(main.join("meta.json"), serde_json::to_string_pretty(&m).unwrap()).expect("meta.json");
        let _ = std::fs::remove_dir_all(extra);
    }
}

fn replay(case: &str) {
    println!("replaying: {case}");
    if let Some(rest) = case.strip_prefix("G ") {
        glue::replay(rest);
        return;
    }
    let tmp = std::env::temp_dir().join("qv-c22-replay");
    let mut run = Run::new(&tmp, COQ_HEADER, CASE_TYPE, "gfailing 22", 10);
    if let Some(rest) = case.strip_prefix("A ") {
        let b = ABlock::parse(rest).expect("abstract block");
        let (text, _) = concretise(&[b.clone()]);
        println!("program:\n{text}");
        run_abstract(&mut run, &[b], "replay");
    } else if let Some(rest) = case.strip_prefix("Q ") {
        let body = rest.split_once(" of: ").map(|x| x.1).unwrap_or(rest).replace("; ", "\n");
        let text = format!("{E2E_HEADER}{body}");
        println!("program:\n{text}");
        run_e2e_text(&mut run, &text, "replay");
    }
    run.finish("replay", false, serde_json::json!({}));
    println!("{}", std::fs::read_to_string(tmp.join("shard_0.v")).unwrap_or_default());
}
