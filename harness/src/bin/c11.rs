//! C11 — concatenation appends bodies and merges definitions.
//! Real `Program`s are built from generated instruction sequences; `a + b`, `a += b`, `a + ∅`,
//! `∅ + b` are observed (listing via `to_instructions`, used-qubit set) and printed next to the
//! sequences; the Coq shard runs the verified checker `chk_concat` on the observations and
//! compares them with the model.
#[path = "../proggen.rs"]
mod proggen;
use proggen::*;
use qv::{Args, Rng, Run};
use quil_rs::program::Program;

type Obs = (Vec<AI>, Vec<u64>);

fn mutate(m: u32, oa: &Obs, ob: &Obs, oab: &mut Obs) {
    match m {
        // rhs body prepended instead of appended
        1 => {
            let defs: Vec<AI> = oab.0.iter().filter(|x| !x.is_body()).cloned().collect();
            let ba: Vec<AI> = oa.0.iter().filter(|x| x.is_body()).cloned().collect();
            let bb: Vec<AI> = ob.0.iter().filter(|x| x.is_body()).cloned().collect();
            oab.0 = defs.into_iter().chain(bb).chain(ba).collect();
        }
        // waveforms of the right operand are not merged
        2 => {
            let a_waves: Vec<AI> = oa.0.iter().filter(|x| matches!(x, AI::WaveDef { .. })).cloned().collect();
            let mut out = Vec::new();
            let mut done = false;
            for x in oab.0.iter() {
                if matches!(x, AI::WaveDef { .. }) {
                    if !done {
                        out.extend(a_waves.iter().cloned());
                        done = true;
                    }
                } else {
                    out.push(x.clone());
                }
            }
            oab.0 = out;
        }
        // the cache of the right operand is not united
        3 => oab.1 = oa.1.clone(),
        // a rebound memory region keeps the LEFT value (entry().or_insert instead of insert)
        4 => {
            for x in oab.0.iter_mut() {
                if let AI::Decl { name, .. } = x {
                    if let Some(old) = oa.0.iter().find(|y| matches!(y, AI::Decl { name: n, .. } if n == name)) {
                        *x = old.clone();
                    }
                }
            }
        }
        _ => {}
    }
}

fn run_pair(run: &mut Run, u: &mut U, sa: &[AI], sb: &[AI], mutant: u32) {
    let a = build(u, sa);
    let b = build(u, sb);
    let oa = u.obs(&a);
    let ob = u.obs(&b);
    let sum = a.clone() + b.clone();
    let mut oab = u.obs(&sum);
    let mut acc = a.clone();
    acc += b.clone();
    let oab2 = u.obs(&acc);
    let a0 = a.clone() + Program::new();
    let zb = Program::new() + b.clone();
    let oa0 = u.obs(&a0);
    let o0b = u.obs(&zb);
    let (e1, e2, e3) = (a0 == a, zb == b, sum == acc);
    // (class computed on the unperturbed observation)
    let ncal = |o: &Obs| o.0.iter().filter(|x| matches!(x, AI::Calib { .. } | AI::MeasureCalib { .. })).count();
    let replaced = ncal(&oab) < ncal(&oa) + ncal(&ob);
    let missing = oa.1.iter().chain(ob.1.iter()).any(|q| !oab.1.contains(q));
    mutate(mutant, &oa, &ob, &mut oab);

    let coq = format!(
        "{}, {}, ({}, {}, {}, {}, {}, {}), ({}, {}, {}))",
        u.coq_list(sa),
        u.coq_list(sb),
        u.coq_obs(&oa),
        u.coq_obs(&ob),
        u.coq_obs(&oab),
        u.coq_obs(&oab2),
        u.coq_obs(&oa0),
        u.coq_obs(&o0b),
        coq_bool(e1),
        coq_bool(e2),
        coq_bool(e3)
    );
    let desc = format!("A: {} ++ B: {}", u.describe(sa), u.describe(sb));
    // non-trivial: both operands non-empty and some key of b is already bound in a
    let rebinding = sb.iter().any(|y| y.route().is_some() && sa.iter().any(|x| x.route() == y.route()));
    let nontrivial = !sa.is_empty() && !sb.is_empty() && rebinding;
    run.count(if rebinding { "rebinding" } else { "disjoint-keys" });
    run.count(&format!("lenA={}", sa.len().min(9)));
    // known class union-after-calibration-replacement: a calibration of A was replaced by B (the
    // implementation's own calibration-count test, on the observed listings) and some qubit of
    // used(A) U used(B) is missing from used(A+B)
    if replaced {
        run.count("calibration-replaced");
    }
    let known = if replaced && missing { Some("union-after-calibration-replacement") } else { None };
    report_unknown(u, run, &desc);
    if known.is_some() {
        // still compared with the model, untagged
        run.case(format!("(0, {coq}"), &format!("corr {desc}"), nontrivial, None);
    }
    run.case(format!("(1, {coq}"), &desc, nontrivial, known);
}

fn main() {
    let args = Args::parse();
    let mutant: u32 = std::env::var("QV_MUTANT").ok().and_then(|s| s.parse().ok()).unwrap_or(0);
    let header = "From Coq Require Import List NArith.\nFrom QV Require Import Model.Program.\nImport ListNotations.\nOpen Scope N_scope.";
    let mut run = Run::new(&args.out, header, "c11_case", "c11_failing", 1000);
    let mut u = U::new();

    // (1) exhaustive small scope: all pairs of sequences of length <= 2 over a small alphabet with
    // colliding keys of several kinds
    let alphabet = vec![
        AI::Decl { name: 0, payload: 0 },
        AI::Decl { name: 0, payload: 1 },
        AI::Decl { name: 1, payload: 0 },
        AI::Decl { name: 0, payload: 4 },
        AI::MeasureCalib { sig: 0, payload: 0 },
        AI::MeasureCalib { sig: 3, payload: 0 },
        AI::Calib { sig: 0, payload: 0 },
        AI::Calib { sig: 0, payload: 1 },
        AI::Extern { name: None, payload: 1 },
        AI::Extern { name: Some(0), payload: 0 },
        AI::FrameDef { key: 0, payload: 0 },
        AI::FrameDef { key: 0, payload: 1 },
        AI::Body { k: 0, qs: vec![0] },
        AI::Body { k: 1, qs: vec![1, 2] },
    ];
    let maxlen = if args.thorough() { 2 } else { 2 };
    let mut small: Vec<Vec<AI>> = vec![vec![]];
    let mut frontier: Vec<Vec<AI>> = vec![vec![]];
    for _ in 0..maxlen {
        let mut next = Vec::new();
        for s in &frontier {
            for x in &alphabet {
                let mut t = s.clone();
                t.push(x.clone());
                next.push(t);
            }
        }
        small.extend(next.iter().cloned());
        frontier = next;
    }
    let stride = if args.thorough() { 1 } else { 11 };
    let mut n_ex = 0u64;
    for (ia, sa) in small.iter().enumerate() {
        for (ib, sb) in small.iter().enumerate() {
            // quick tier: a deterministic fifth of the pairs (all pairs in the thorough tier)
            if (ia + 2 * ib) % stride != 0 {
                continue;
            }
            run_pair(&mut run, &mut u, sa, sb, mutant);
            n_ex += 1;
        }
    }

    // (2) random pool of rich programs (2-4 definitions of every kind incl. redefinitions), all pairs
    let mut rng = Rng::new(args.seed);
    let g = Gen { nkeys: 3, npayloads: 3, placeholders: false, variables: true };
    let npool = if args.thorough() { 60 } else { 20 };
    let mut pool: Vec<Vec<AI>> = Vec::new();
    for i in 0..npool {
        if i % 4 == 3 {
            let len = rng.range(1, 8);
            pool.push(g.seq(&mut rng, &mut u, len));
        } else {
            pool.push(g.rich_seq(&mut rng, &mut u));
        }
    }
    for sa in pool.clone().iter() {
        for sb in pool.clone().iter() {
            run_pair(&mut run, &mut u, sa, sb, mutant);
        }
    }
    run.finish(
        "pairs (A, B) of instruction sequences; each program is Program::from_instructions of the \
         concretised sequence. Exhaustive part: all pairs of sequences of length <= 2 over an alphabet \
         of 14 instructions with colliding DECLARE (incl. SHARING-only difference) / DEFCAL / DEFCAL \
         MEASURE (incl. target-name-only difference) / PRAGMA EXTERN / DEFFRAME keys (every \
         eleventh pair in the quick tier). Random part: all ordered pairs from a seeded pool of programs \
         with 2-4 definitions of every kind. Non-trivial = both operands non-empty and B rebinds a \
         key of A.",
        true,
        serde_json::json!({"exhaustive_pairs": n_ex, "pool": npool, "mutant": mutant}),
    );
}
