//! C06 — names are preserved exactly and consistently by parsing.
//!
//! LexC cases: a text starting with an identifier character or a sigil; the real lexer's first
//! token (kind, name, bytes spanned) through the hook `verif::lex_debug`, compared in Coq with
//! `lex_name_token` of the model.
//! PosC cases: a name placed in a name-taking position of real Quil text parsed with
//! `Instruction::from_str` / `Program::from_str` (+ `type_check` as an end-to-end observer); the
//! name found in the AST is the observation.
use quil_rs::expression::Expression;
use quil_rs::instruction::{
    ArithmeticOperand, Instruction, PragmaArgument, Qubit, Target, UnresolvedCallArgument,
};
use quil_rs::program::type_check::type_check;
use quil_rs::Program;
use qv::{gallina as g, Args, Rng, Run};
use std::str::FromStr;

fn mutant() -> u32 {
    std::env::var("QV_MUTANT").ok().and_then(|s| s.parse().ok()).unwrap_or(0)
}

#[derive(Clone, Debug, PartialEq)]
enum Outcome {
    Name(String),
    Err,
    Const(u64),
    Other,
}

impl Outcome {
    fn coq(&self) -> String {
        match self {
            Outcome::Name(n) => format!("(OName {})", g::bytes(n.as_bytes())),
            Outcome::Err => "OErr".into(),
            Outcome::Const(k) => format!("(OConst {})", g::n(*k)),
            Outcome::Other => "OOther".into(),
        }
    }
    fn class(&self) -> &'static str {
        match self {
            Outcome::Name(_) => "name",
            Outcome::Err => "err",
            Outcome::Const(_) => "const",
            Outcome::Other => "other",
        }
    }
}

/// (position name, class, text before the name, text after it)
const POSITIONS: &[(&str, u64, &str, &str)] = &[
    ("DECLARE", 0, "DECLARE ", " REAL"),
    ("MOVE-destination", 0, "MOVE ", " 1"),
    ("MOVE-destination-indexed", 0, "MOVE ", "[1] 1"),
    ("MOVE-source", 0, "MOVE ro ", ""),
    ("gate-name", 0, "", " 0"),
    ("gate-name-modified", 0, "DAGGER ", " 0"),
    ("DEFGATE-name", 0, "DEFGATE ", " AS PERMUTATION:\n\t0, 1"),
    ("DEFCIRCUIT-name", 0, "DEFCIRCUIT ", " q:\n\tX q"),
    ("DEFCIRCUIT-qubit", 0, "DEFCIRCUIT C ", ":\n\tX 0"),
    ("DEFCAL-name", 0, "DEFCAL ", " 0:\n\tNOP"),
    ("DEFCAL-qubit", 0, "DEFCAL G ", ":\n\tNOP"),
    ("waveform-name", 0, "PULSE 0 \"f\" ", ""),
    ("DEFWAVEFORM-name", 0, "DEFWAVEFORM ", ":\n\t1, 1"),
    ("waveform-parameter", 0, "PULSE 0 \"f\" w(", ": 1)"),
    ("PRAGMA-name", 0, "PRAGMA ", ""),
    ("PRAGMA-argument", 0, "PRAGMA P ", ""),
    ("CALL-name", 0, "CALL ", " 1"),
    ("CALL-argument", 0, "CALL f ", ""),
    ("qubit-variable", 0, "X ", ""),
    ("frame-attribute-key", 0, "DEFFRAME 0 \"f\":\n\t", ": 1"),
    ("SHARING-name", 0, "DECLARE a BIT SHARING ", ""),
    ("LOAD-source", 0, "LOAD a ", " b"),
    ("STORE-destination", 0, "STORE ", " a b"),
    ("EXCHANGE-left", 0, "EXCHANGE ", " b"),
    ("CONVERT-source", 0, "CONVERT a ", ""),
    ("JUMP-WHEN-condition", 0, "JUMP-WHEN @l ", ""),
    ("MEASURE-target", 0, "MEASURE 0 ", ""),
    ("NOT-operand", 0, "NOT ", ""),
    ("EQ-destination", 0, "EQ ", " a b"),
    ("AND-source", 0, "AND a ", ""),
    ("LABEL", 1, "LABEL @", ""),
    ("JUMP", 1, "JUMP @", ""),
    ("JUMP-WHEN", 1, "JUMP-WHEN @", " c"),
    ("JUMP-UNLESS", 1, "JUMP-UNLESS @", " c"),
    ("expression-variable", 2, "RX(%", ") 0"),
    ("qubit-percent-variable", 2, "X %", ""),
    ("DEFGATE-parameter", 2, "DEFGATE G(%", ") AS MATRIX:\n\t1, 0\n\t0, 1"),
    ("DEFCIRCUIT-parameter", 2, "DEFCIRCUIT C(%", ") q:\n\tX q"),
    ("expression-name", 3, "RX(", ") 0"),
    ("SET-PHASE-name", 3, "SET-PHASE 0 \"f\" ", ""),
    ("expression-name-in-sum", 3, "RX(1+", ") 0"),
    ("expression-indexed", 4, "RX(", "[1]) 0"),
    ("declare-use-typecheck", 5, "DECLARE ", ""),
];

fn expr_outcome(e: &Expression) -> Outcome {
    match e {
        Expression::Address(m) => Outcome::Name(m.name.clone()),
        Expression::PiConstant() => Outcome::Const(1),
        Expression::Number(c) if c.re == 0.0 && c.im == 1.0 => Outcome::Const(2),
        Expression::Variable(v) => Outcome::Name(v.clone()),
        Expression::Infix(i) => expr_outcome(&i.right),
        _ => Outcome::Other,
    }
}

fn target(t: &Target) -> Outcome {
    match t {
        Target::Fixed(n) => Outcome::Name(n.clone()),
        Target::Placeholder(_) => Outcome::Other,
    }
}

fn qubit(q: Option<&Qubit>) -> Outcome {
    match q {
        Some(Qubit::Variable(n)) => Outcome::Name(n.clone()),
        _ => Outcome::Other,
    }
}

fn opt(n: Option<&String>) -> Outcome {
    n.map(|n| Outcome::Name(n.clone())).unwrap_or(Outcome::Other)
}

fn observe(pos: usize, name: &str) -> Result<Outcome, String> {
    let (pname, class, pre, post) = POSITIONS[pos];
    if class == 5 {
        let text = format!("DECLARE {name} REAL\nDEFFRAME 0 \"f\":\n\tDIRECTION: \"tx\"\nSET-PHASE 0 \"f\" {name}");
        return qv::catch(move || {
            let Ok(program) = Program::from_str(&text) else { return Outcome::Err };
            let phase = program.body_instructions().find_map(|i| match i {
                Instruction::SetPhase(s) => Some(s.phase.clone()),
                _ => None,
            });
            match phase {
                Some(Expression::Address(m)) => {
                    if type_check(&program).is_ok() {
                        Outcome::Name(m.name.clone())
                    } else {
                        Outcome::Err
                    }
                }
                _ => Outcome::Other,
            }
        });
    }
    let text = format!("{pre}{name}{post}");
    let parsed = qv::catch(move || Instruction::from_str(&text))?;
    let i = match parsed {
        Ok(i) => i,
        Err(_) => return Ok(Outcome::Err),
    };
    Ok(match (pname, &i) {
        ("DECLARE", Instruction::Declaration(d)) => Outcome::Name(d.name.clone()),
        ("MOVE-destination" | "MOVE-destination-indexed", Instruction::Move(m)) => {
            Outcome::Name(m.destination.name.clone())
        }
        ("MOVE-source", Instruction::Move(m)) => match &m.source {
            ArithmeticOperand::MemoryReference(r) => Outcome::Name(r.name.clone()),
            _ => Outcome::Other,
        },
        ("gate-name" | "gate-name-modified", Instruction::Gate(gate)) => Outcome::Name(gate.name.clone()),
        ("DEFGATE-name", Instruction::GateDefinition(d)) => Outcome::Name(d.name.clone()),
        ("DEFCIRCUIT-name", Instruction::CircuitDefinition(d)) => Outcome::Name(d.name.clone()),
        ("DEFCIRCUIT-qubit", Instruction::CircuitDefinition(d)) => opt(d.qubit_variables.first()),
        ("DEFCAL-name", Instruction::CalibrationDefinition(d)) => Outcome::Name(d.identifier.name.clone()),
        ("DEFCAL-qubit", Instruction::CalibrationDefinition(d)) => qubit(d.identifier.qubits.first()),
        ("waveform-name", Instruction::Pulse(p)) => Outcome::Name(p.waveform.name.clone()),
        ("DEFWAVEFORM-name", Instruction::WaveformDefinition(d)) => Outcome::Name(d.name.clone()),
        ("waveform-parameter", Instruction::Pulse(p)) => opt(p.waveform.parameters.keys().next()),
        ("PRAGMA-name", Instruction::Pragma(p)) => Outcome::Name(p.name.clone()),
        ("PRAGMA-argument", Instruction::Pragma(p)) => match p.arguments.as_slice() {
            [PragmaArgument::Identifier(n)] => Outcome::Name(n.clone()),
            _ => Outcome::Other,
        },
        ("CALL-name", Instruction::Call(c)) => Outcome::Name(c.name.clone()),
        ("CALL-argument", Instruction::Call(c)) => match c.arguments.as_slice() {
            [UnresolvedCallArgument::Identifier(n)] => Outcome::Name(n.clone()),
            _ => Outcome::Other,
        },
        ("qubit-variable" | "qubit-percent-variable", Instruction::Gate(gate)) => qubit(gate.qubits.first()),
        ("frame-attribute-key", Instruction::FrameDefinition(d)) => opt(d.attributes.keys().next()),
        ("SHARING-name", Instruction::Declaration(d)) => opt(d.sharing.as_ref().map(|s| &s.name)),
        ("LOAD-source", Instruction::Load(l)) => Outcome::Name(l.source.clone()),
        ("STORE-destination", Instruction::Store(s)) => Outcome::Name(s.destination.clone()),
        ("EXCHANGE-left", Instruction::Exchange(e)) => Outcome::Name(e.left.name.clone()),
        ("CONVERT-source", Instruction::Convert(c)) => Outcome::Name(c.source.name.clone()),
        ("JUMP-WHEN-condition", Instruction::JumpWhen(j)) => Outcome::Name(j.condition.name.clone()),
        ("MEASURE-target", Instruction::Measurement(m)) => opt(m.target.as_ref().map(|t| &t.name)),
        ("NOT-operand", Instruction::UnaryLogic(u)) => Outcome::Name(u.operand.name.clone()),
        ("EQ-destination", Instruction::Comparison(c)) => Outcome::Name(c.destination.name.clone()),
        ("AND-source", Instruction::BinaryLogic(b)) => match &b.source {
            quil_rs::instruction::BinaryOperand::MemoryReference(r) => Outcome::Name(r.name.clone()),
            _ => Outcome::Other,
        },
        ("LABEL", Instruction::Label(l)) => target(&l.target),
        ("JUMP", Instruction::Jump(j)) => target(&j.target),
        ("JUMP-WHEN", Instruction::JumpWhen(j)) => target(&j.target),
        ("JUMP-UNLESS", Instruction::JumpUnless(j)) => target(&j.target),
        ("expression-variable" | "expression-name" | "expression-indexed" | "expression-name-in-sum", Instruction::Gate(gate)) => {
            match gate.parameters.as_slice() {
                [e] => expr_outcome(e),
                _ => Outcome::Other,
            }
        }
        ("DEFGATE-parameter", Instruction::GateDefinition(d)) => opt(d.parameters.first()),
        ("DEFCIRCUIT-parameter", Instruction::CircuitDefinition(d)) => opt(d.parameters.first()),
        ("SET-PHASE-name", Instruction::SetPhase(s)) => expr_outcome(&s.phase),
        _ => Outcome::Other,
    })
}

/// first token of a text: (kind, name, bytes spanned); kinds as in Model/LexIdent.v
fn lex_observe(full: &str) -> Result<Option<(u64, String, usize)>, String> {
    let mut text = full;
    let owned = full.to_string();
    match qv::catch(move || quil_rs::verif::lex_debug(&owned))? {
        Ok(_) => {}
        Err(msg) => {
            // the error message carries the column where the failing token starts
            let col = msg
                .split("column ")
                .nth(1)
                .and_then(|r| r.split(|c: char| !c.is_ascii_digit()).next())
                .and_then(|d| d.parse::<usize>().ok())
                .unwrap_or(1);
            if col <= 1 || col - 1 > full.len() || !full.is_ascii() {
                return Ok(None);
            }
            text = &full[..col - 1];
        }
    }
    let owned = text.to_string();
    let tokens = match qv::catch(move || quil_rs::verif::lex_debug(&owned))? {
        Ok(t) => t,
        Err(_) => return Ok(None),
    };
    let Some(t1) = tokens.first() else { return Ok(None) };
    let strip = |p: &str| t1.strip_prefix(p).and_then(|s| s.strip_suffix(')')).map(|s| s.to_string());
    let (kind, name) = if let Some(n) = strip("IDENTIFIER(") {
        (0, n)
    } else if let Some(n) = strip("VARIABLE(") {
        (3, n)
    } else if let Some(n) = t1.strip_prefix('@') {
        (2, n.to_string())
    } else if let Some(n) = strip("COMMAND(").or_else(|| strip("DATATYPE(")).or_else(|| strip("MODIFIER(")) {
        (1, n)
    } else if t1.chars().all(|c| c.is_ascii_alphabetic() || c == '-') {
        (1, t1.clone()) // keyword tokens print as their spelling
    } else {
        return Ok(None);
    };
    let used = name.len() + if kind >= 2 { 1 } else { 0 };
    Ok(Some((kind, name, used)))
}

fn lex_case(run: &mut Run, text: &str, family: &str) {
    let mut obs = match lex_observe(text) {
        Ok(o) => o,
        Err(p) => {
            run.process_failure(&format!("panic while lexing: {p}"), text, None);
            return;
        }
    };
    if mutant() == 2 {
        // keyword recognition made case-insensitive
        if let Some((0, n, u)) = &obs {
            let up = n.to_uppercase();
            if ["DECLARE", "MOVE", "BIT", "REAL", "DAGGER", "AS"].contains(&up.as_str()) {
                obs = Some((1, up, *u));
            }
        }
    }
    if mutant() == 3 {
        // an identifier lexer that swallows a trailing dash
        if let Some((k, n, u)) = &obs {
            if text.as_bytes().get(*u) == Some(&b'-') {
                obs = Some((*k, format!("{n}-"), u + 1));
            }
        }
    }
    let o = g::option(obs.as_ref().map(|(k, n, u)| format!("({}, {}, {})", g::n(*k), g::bytes(n.as_bytes()), g::n(*u as u64))));
    run.count(&format!(
        "lex:{family}:{}",
        match &obs {
            None => "error",
            Some((0, ..)) => "identifier",
            Some((1, ..)) => "reserved",
            Some((2, ..)) => "target",
            _ => "variable",
        }
    ));
    let nontrivial = matches!(&obs, Some((_, n, _)) if n.len() > 1);
    run.case(format!("LexC {} {o}", g::bytes(text.as_bytes())), &format!("lex {text:?}"), nontrivial, None);
}

fn pos_case(run: &mut Run, pos: usize, name: &str) {
    let (pname, class, ..) = POSITIONS[pos];
    let mut obs = match observe(pos, name) {
        Ok(o) => o,
        Err(p) => {
            run.process_failure(&format!("panic while parsing: {p}"), &format!("{pname}: {name}"), None);
            return;
        }
    };
    if mutant() == 1 && (class == 3 || class == 5) {
        // the expression parser lower-casing bare memory names (the defect that was fixed)
        if let Outcome::Name(n) = &obs {
            let lower = n.to_lowercase();
            obs = if class == 5 && lower != *n { Outcome::Err } else { Outcome::Name(lower) };
        }
    }
    run.count(&format!("pos:{pname}:{}", obs.class()));
    let coq = format!("PosC {} {} {}", g::n(class), g::bytes(name.as_bytes()), obs.coq());
    let nontrivial = matches!(obs, Outcome::Name(_)) && name.chars().any(|c| c.is_ascii_uppercase() || c == '-' || c == '_');
    run.case(coq, &format!("{pname}: name {name:?}"), nontrivial, None);
}

const RESERVED: &[&str] = &[
    "AS", "MATRIX", "mut", "NONBLOCKING", "OFFSET", "PAULI-SUM", "PERMUTATION", "SEQUENCE", "SHARING", "ADD", "AND",
    "ASHR", "CALL", "CAPTURE", "CONVERT", "DECLARE", "DEFCAL", "DEFCIRCUIT", "DEFFRAME", "DEFGATE", "DEFWAVEFORM",
    "DELAY", "DIV", "EQ", "EXCHANGE", "FENCE", "GE", "GT", "HALT", "INCLUDE", "IOR", "JUMP", "JUMP-UNLESS",
    "JUMP-WHEN", "LABEL", "LE", "LOAD", "LT", "MEASURE", "MOVE", "MUL", "NEG", "NOP", "NOT", "PRAGMA", "PULSE",
    "RAW-CAPTURE", "RESET", "SET-FREQUENCY", "SET-PHASE", "SET-SCALE", "SHIFT-FREQUENCY", "SHIFT-PHASE", "SHL", "SHR",
    "STORE", "SUB", "SWAP-PHASES", "WAIT", "XOR", "BIT", "OCTET", "REAL", "INTEGER", "CONTROLLED", "DAGGER", "FORKED",
];

const FIXED_NAMES: &[&str] = &[
    "Theta", "theta", "THETA", "tHeTa", "a", "A", "_", "_a", "a_", "a1", "A_1b", "a-b", "a--b", "A-1", "a-b-c", "a_-b",
    "q0-q1", "x9", "ro", "camelCase", "snake_case", "kebab-case", "Mixed-Case_9", "_-_", "__", "Z9-z", "Alpha-BETA-gamma",
    "pi", "Pi", "PI", "pI", "i", "I", "sin", "SIN", "Sin", "cos", "COS", "exp", "Exp", "cis", "CIS", "sqrt", "SQRT", "Sqrt",
    "pix", "ipi", "sinx", "Pi-2", "NaN", "nan", "inf", "Infinity", "e", "E", "e5", "x", "b", "o", "MUT", "Mut", "Pauli-Sum",
    "DEF-CAL", "DEF-GATE", "NON-BLOCKING", "Nonblocking", "JUMP-", "JUMPWHEN", "JUMP_WHEN", "Raw-Capture", "RAWCAPTURE",
];

fn capitalised(w: &str) -> String {
    let mut c = w.chars();
    match c.next() {
        Some(f) => f.to_uppercase().collect::<String>() + &c.as_str().to_lowercase(),
        None => String::new(),
    }
}

fn random_name(rng: &mut Rng) -> String {
    let heads = b"abcxyzABCXYZ_";
    let chars = b"abcxyzABCXYZ_0189";
    let mut s = String::new();
    s.push(heads[rng.below(heads.len())] as char);
    for _ in 0..rng.below(8) {
        s.push(chars[rng.below(chars.len())] as char);
    }
    for _ in 0..rng.below(3) {
        for _ in 0..rng.range(1, 2) {
            s.push('-');
        }
        for _ in 0..rng.range(1, 5) {
            s.push(chars[rng.below(chars.len())] as char);
        }
    }
    s
}

fn main() {
    let args = Args::parse();
    let header = "From Coq Require Import List NArith.\nFrom QV Require Import Model.LexIdent.\nImport ListNotations.\nOpen Scope N_scope.";
    let mut run = Run::new(&args.out, header, "case", "failing", 1200);
    let thorough = args.thorough();
    let mut rng = Rng::new(args.seed);

    let mut names: Vec<String> = FIXED_NAMES.iter().map(|s| s.to_string()).collect();
    let mut derived: std::collections::HashSet<String> = Default::default();
    for w in RESERVED {
        for v in [w.to_lowercase(), w.to_uppercase(), capitalised(w), format!("{w}X"), format!("x{w}"), format!("{w}-1")] {
            if v != *w {
                derived.insert(v);
            }
        }
        names.push(w.to_string());
        names.push(w.to_lowercase());
        names.push(w.to_uppercase());
        names.push(capitalised(w));
        names.push(format!("{w}X"));
        names.push(format!("x{w}"));
        names.push(format!("{w}-1"));
    }
    let nrand = if thorough { 1500 } else { 250 };
    for _ in 0..nrand {
        names.push(random_name(&mut rng));
    }
    names.sort();
    names.dedup();

    // (1) lexer: every name alone, with a sigil, followed by other material; exhaustive short texts
    for n in &names {
        lex_case(&mut run, n, "name");
        lex_case(&mut run, &format!("@{n}"), "target");
        lex_case(&mut run, &format!("%{n}"), "variable");
        lex_case(&mut run, &format!("{n}-"), "name-dash");
        lex_case(&mut run, &format!("{n}[1]"), "name-bracket");
    }
    let alphabet: &[&str] = &["a", "Z", "_", "-", "1", "@", "%"];
    let maxlen = if thorough { 6 } else { 5 };
    let mut texts = vec![];
    fn go(cur: &mut String, left: usize, alphabet: &[&str], out: &mut Vec<String>) {
        out.push(cur.clone());
        if left == 0 {
            return;
        }
        for a in alphabet {
            let n = cur.len();
            cur.push_str(a);
            go(cur, left - 1, alphabet, out);
            cur.truncate(n);
        }
    }
    for first in ["a", "Z", "_", "@", "%"] {
        go(&mut first.to_string(), maxlen - 1, alphabet, &mut texts);
    }
    let exhaustive_texts = texts.len();
    for t in &texts {
        lex_case(&mut run, t, "exhaustive");
    }

    // (2) positions
    let mut npos = 0u64;
    for (idx, n) in names.iter().enumerate() {
        // quick tier: names outside the fixed list (variants of reserved words, random names) go to a
        // rotating quarter of the positions
        let _ = &derived;
        let rotate = !thorough && !FIXED_NAMES.contains(&n.as_str()) && !RESERVED.contains(&n.as_str());
        for pos in 0..POSITIONS.len() {
            if rotate && (pos + idx) % 4 != 0 {
                continue;
            }
            pos_case(&mut run, pos, n);
            npos += 1;
        }
    }
    run.finish(
        "LexC: the real lexer's first token for every name of the pool (fixed mixed-case / dashed / underscore \
         names, every reserved word in 7 spelling variants, expression-reserved words in several cases, seeded \
         random identifiers) alone, with the target and variable sigils and followed by a dash or bracket, and for \
         every text of the stated length over {a,Z,_,-,1,@,%} starting with a letter, underscore or sigil; PosC: \
         every pool name in 43 name-taking positions (quick tier: names outside the fixed list in a rotating quarter of them). Distinct by text / (position, name); non-trivial = a name with \
         an upper-case letter, dash or underscore reached the AST (PosC), or a token longer than one byte (LexC).",
        true,
        serde_json::json!({"exhaustive_max_len": maxlen, "exhaustive_texts": exhaustive_texts, "names": names.len(),
            "positions": POSITIONS.len(), "position_cases": npos, "mutant": mutant()}),
    );
}
