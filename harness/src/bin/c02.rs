//! C02 — parsed programs print to text that re-parses to the same program, byte-stable.
//!
//! The real chain text1 -> P1 -> text2 -> P2 -> text3 is run on every accepted generated text
//! (require: printing succeeds, P1 == P2, text2 == text3).  For single instructions and block
//! definitions the model AST can represent, the real token streams of text1 and text2 and the real AST
//! are shipped to Coq, where the parser model must produce the AST from text1, the printer model must
//! produce text2's tokens from the AST, and the verified checker decides the round trip on the
//! implementation's output; for whole programs the instruction list of P1 and the tokens of text2.
#[path = "../quilgen.rs"]
mod quilgen;
#[path = "../ppmodel.rs"]
mod ppmodel;

use quil_rs::instruction::Instruction;
use quil_rs::quil::Quil;
use quil_rs::Program;
use quilgen::Interner;
use qv::{Args, Rng, Run};
use std::str::FromStr;

fn b(x: bool) -> &'static str {
    if x {
        "true"
    } else {
        "false"
    }
}

/// known-finding class of a parsed program (see known_findings.json)
fn known_class(instrs: &[Instruction]) -> Option<&'static str> {
    fn is_def(i: &Instruction) -> bool {
        matches!(
            i,
            Instruction::CalibrationDefinition(_)
                | Instruction::MeasureCalibrationDefinition(_)
                | Instruction::CircuitDefinition(_)
                | Instruction::GateDefinition(_)
                | Instruction::FrameDefinition(_)
                | Instruction::WaveformDefinition(_)
        )
    }
    fn body(b: &[Instruction]) -> Option<&'static str> {
        if b.iter().any(is_def) {
            Some("nested-block-definition")
        } else {
            b.iter().find_map(walk)
        }
    }
    fn walk(i: &Instruction) -> Option<&'static str> {
        match i {
            Instruction::CalibrationDefinition(d) => {
                body(&d.instructions)
            }
            Instruction::MeasureCalibrationDefinition(d) => body(&d.instructions),
            Instruction::CircuitDefinition(d) => body(&d.instructions).or_else(|| {
                // DEFCIRCUIT indents its body by splitting each instruction's text on '\n': a quoted
                // string containing a newline gets the indentation inserted INSIDE the string
                if d.instructions.iter().any(|i| i.to_quil_or_debug().contains('\n')) {
                    Some("defcircuit-multiline-string")
                } else {
                    None
                }
            }),
            Instruction::RawCapture(r) => {
                let dur = r.duration.to_quil_or_debug();
                if r.memory_reference.name == "i" && dur.chars().last().is_some_and(|c| c.is_ascii_digit() || c == '.') {
                    Some("rawcapture-region-i")
                } else {
                    None
                }
            }
            _ => None,
        }
    }
    instrs.iter().find_map(walk)
}

struct Ctx {
    run: Run,
    mutant: u32,
}

/// emulated printer bugs: perturb the text the implementation printed
fn mutate_print(mutant: u32, text2: String) -> String {
    match mutant {
        // 1: MEASURE drops its target
        1 if text2.starts_with("MEASURE ") && text2.matches(' ').count() == 2 => {
            text2.rsplit_once(' ').map(|(a, _)| a.to_string()).unwrap_or(text2)
        }
        // 2: EXCHANGE prints its operands in swapped order
        2 if text2.starts_with("EXCHANGE ") => {
            let p: Vec<&str> = text2.trim_end().split(' ').collect();
            if p.len() == 3 && p[1] != p[2] {
                format!("EXCHANGE {} {}", p[2], p[1])
            } else {
                text2
            }
        }
        // 3: nested infix operands lose their parentheses inside gate parameters
        3 if text2.contains("*(") => text2.replacen("*(", "*", 1).replacen(')', "", 1),
        // 4: negative integer operands lose their sign
        4 if text2.starts_with("MOVE ") && text2.contains(" -") => text2.replacen(" -", " ", 1),
        _ => text2,
    }
}

/// emulated parser bugs with a compensating printer (the real chain stays self-consistent; only the
/// comparison with the parser model on the input tokens can notice): perturb the observed AST
fn mutate_ast(mutant: u32, i: Instruction) -> Instruction {
    match (mutant, i) {
        // 5: the parser ignores NONBLOCKING (and the printer, given blocking = true, never prints it)
        (5, Instruction::Pulse(mut p)) => {
            p.blocking = true;
            Instruction::Pulse(p)
        }
        (5, Instruction::Capture(mut c)) => {
            c.blocking = true;
            Instruction::Capture(c)
        }
        // 6: parse_block drops the last line of a DEFCAL body of two or more lines (off by one)
        (6, Instruction::CalibrationDefinition(mut d)) if d.instructions.len() >= 2 => {
            d.instructions.pop();
            Instruction::CalibrationDefinition(d)
        }
        // 7: DEFFRAME attributes are collected in reverse order
        (7, Instruction::FrameDefinition(mut d)) if d.attributes.len() >= 2 => {
            d.attributes.reverse();
            Instruction::FrameDefinition(d)
        }
        (_, i) => i,
    }
}

impl Ctx {
    /// the real chain on a program text; ships an opaque case; returns false if text1 is rejected
    fn program_case(&mut self, text1: &str, class: &str) -> bool {
        let p1 = match Program::from_str(text1) {
            Ok(p) => p,
            Err(_) => {
                self.run.count(&format!("{class}:rejected"));
                return false;
            }
        };
        let instrs = p1.to_instructions();
        let known = known_class(&instrs);
        let (print_ok, eq, stable) = match p1.to_quil() {
            Err(_) => (false, false, false),
            Ok(t2) => {
                let t2 = mutate_print(self.mutant, t2);
                match Program::from_str(&t2) {
                    Err(_) => (true, false, false),
                    Ok(p2) => {
                        let t3 = p2.to_quil().unwrap_or_default();
                        (true, p2 == p1, t3 == t2)
                    }
                }
            }
        };
        self.run.count(&format!("{class}:{}", if print_ok && eq && stable { "roundtrip" } else { "FAIL" }));
        for i in &instrs {
            self.run.count(&format!("kind:{}", kind_name(i)));
        }
        if !(print_ok && eq && stable) && std::env::var("QV_DEBUG").is_ok() {
            eprintln!("FAIL[{known:?}] print_ok={print_ok} eq={eq} stable={stable} program {text1:?}");
        }
        // model correspondence for the whole program: the instruction list in the container's order
        // (= printing order) and the real tokens of the printed text
        let mut it = Interner::default();
        ppmodel::preintern(&instrs, &mut it);
        let items: Option<Vec<String>> = instrs.iter().map(|i| ppmodel::item(i, &mut it)).collect();
        let t2 = if self.mutant == 0 { p1.to_quil().ok() } else { p1.to_quil().ok().map(|t| mutate_print(self.mutant, t)) };
        let t2 = t2.and_then(|t| quilgen::tokens_to_coq(&t, &mut it));
        let coq = match (items, t2) {
            (Some(items), Some(t2)) if print_ok => {
                self.run.count(&format!("{class}:modelled"));
                format!("CProg [{}] {t2} {} {}", items.join("; "), b(eq), b(stable))
            }
            _ => {
                self.run.count(&format!("{class}:opaque"));
                format!("COpaque {} {} {}", b(print_ok), b(eq), b(stable))
            }
        };
        self.run.case(coq, &format!("program {text1:?}"), !instrs.is_empty(), known);
        true
    }

    /// a single instruction: the real chain plus, inside the fragment, model correspondence
    fn instruction_case(&mut self, text1: &str, class: &str) -> bool {
        let i1 = match Instruction::from_str(text1) {
            Ok(i) => i,
            Err(_) => {
                self.run.count(&format!("{class}:rejected"));
                return false;
            }
        };
        let i1 = mutate_ast(self.mutant, i1);
        let known = known_class(std::slice::from_ref(&i1));
        let mut it = Interner::default();
        // waveform parameter keys first: the model's key order is the interning order
        ppmodel::preintern(std::slice::from_ref(&i1), &mut it);
        let t1 = quilgen::tokens_to_coq(text1, &mut it);
        let is_def = ppmodel::is_definition(&i1);
        let ast = if is_def { ppmodel::item(&i1, &mut it) } else { ppmodel::instr(&i1, &mut it) };
        let (print_ok, eq, stable, t2) = match i1.to_quil() {
            Err(_) => (false, false, false, None),
            Ok(text2) => {
                let text2 = mutate_print(self.mutant, text2);
                let t2 = quilgen::tokens_to_coq(&text2, &mut it);
                match Instruction::from_str(&text2) {
                    Err(_) => (true, false, false, t2),
                    Ok(i2) => {
                        let text3 = i2.to_quil().unwrap_or_default();
                        (true, i2 == i1, text3 == text2, t2)
                    }
                }
            }
        };
        let ok = print_ok && eq && stable;
        self.run.count(&format!("kind:{}", kind_name(&i1)));
        let desc = format!("instruction {text1:?}");
        if !ok && std::env::var("QV_DEBUG").is_ok() {
            eprintln!("FAIL[{known:?}] print_ok={print_ok} eq={eq} stable={stable} {desc}");
        }
        match (t1, ast, t2) {
            (Some(t1), Some(ast), Some(t2)) if print_ok => {
                self.run.count(&format!("{class}:fragment:{}", if ok { "roundtrip" } else { "FAIL" }));
                self.run.count(&format!("modelled:{}", kind_name(&i1)));
                let ctor = if is_def { "CItem" } else { "CFrag" };
                let coq = format!("{ctor} {t1} ({ast}) {t2} {} {}", b(eq), b(stable));
                self.run.case(coq, &desc, true, known);
            }
            _ => {
                self.run.count(&format!("{class}:opaque:{}", if ok { "roundtrip" } else { "FAIL" }));
                self.run.count(&format!("opaque:{}", kind_name(&i1)));
                let coq = format!("COpaque {} {} {}", b(print_ok), b(eq), b(stable));
                self.run.case(coq, &desc, true, known);
            }
        }
        true
    }
}

fn kind_name(i: &Instruction) -> &'static str {
    match i {
        Instruction::Arithmetic(_) => "Arithmetic",
        Instruction::BinaryLogic(_) => "BinaryLogic",
        Instruction::CalibrationDefinition(_) => "CalibrationDefinition",
        Instruction::Call(_) => "Call",
        Instruction::Capture(_) => "Capture",
        Instruction::CircuitDefinition(_) => "CircuitDefinition",
        Instruction::Convert(_) => "Convert",
        Instruction::Comparison(_) => "Comparison",
        Instruction::Declaration(_) => "Declaration",
        Instruction::Delay(_) => "Delay",
        Instruction::Exchange(_) => "Exchange",
        Instruction::Fence(_) => "Fence",
        Instruction::FrameDefinition(_) => "FrameDefinition",
        Instruction::Gate(_) => "Gate",
        Instruction::GateDefinition(_) => "GateDefinition",
        Instruction::Halt() => "Halt",
        Instruction::Include(_) => "Include",
        Instruction::Jump(_) => "Jump",
        Instruction::JumpUnless(_) => "JumpUnless",
        Instruction::JumpWhen(_) => "JumpWhen",
        Instruction::Label(_) => "Label",
        Instruction::Load(_) => "Load",
        Instruction::MeasureCalibrationDefinition(_) => "MeasureCalibrationDefinition",
        Instruction::Measurement(_) => "Measurement",
        Instruction::Move(_) => "Move",
        Instruction::Nop() => "Nop",
        Instruction::Pragma(_) => "Pragma",
        Instruction::Pulse(_) => "Pulse",
        Instruction::RawCapture(_) => "RawCapture",
        Instruction::Reset(_) => "Reset",
        Instruction::SetFrequency(_) => "SetFrequency",
        Instruction::SetPhase(_) => "SetPhase",
        Instruction::SetScale(_) => "SetScale",
        Instruction::ShiftFrequency(_) => "ShiftFrequency",
        Instruction::ShiftPhase(_) => "ShiftPhase",
        Instruction::Store(_) => "Store",
        Instruction::SwapPhases(_) => "SwapPhases",
        Instruction::UnaryLogic(_) => "UnaryLogic",
        Instruction::WaveformDefinition(_) => "WaveformDefinition",
        Instruction::Wait() => "Wait",
    }
}

fn main() {
    let args = Args::parse();
    if let Some(case) = &args.replay {
        println!("replay: {case}");
        if let Some((k, t)) = case.split_once(' ') {
            let text: String = serde_json::from_str(t).unwrap_or_else(|_| t.to_string());
            println!("tokens1: {:?}", quil_rs::verif::lex_debug(&text));
            if k == "instruction" {
                match Instruction::from_str(&text) {
                    Ok(i) => {
                        println!("I1: {i:?}");
                        let t2 = i.to_quil();
                        println!("text2: {t2:?}");
                        if let Ok(t2) = t2 {
                            println!("tokens2: {:?}", quil_rs::verif::lex_debug(&t2));
                            println!("I2: {:?}", Instruction::from_str(&t2).map_err(|e| e.to_string()));
                        }
                    }
                    Err(e) => println!("rejected: {e}"),
                }
            } else {
                match Program::from_str(&text) {
                    Ok(p) => {
                        println!("P1: {:?}", p.to_instructions());
                        let t2 = p.to_quil();
                        println!("text2: {t2:?}");
                        if let Ok(t2) = t2 {
                            match Program::from_str(&t2) {
                                Ok(p2) => println!("P1==P2: {}; text3==text2: {}", p2 == p, p2.to_quil().ok().as_deref() == Some(&t2)),
                                Err(e) => println!("text2 rejected: {e}"),
                            }
                        }
                    }
                    Err(e) => println!("rejected: {e}"),
                }
            }
        }
        return;
    }
    let mutant: u32 = std::env::var("QV_MUTANT").ok().and_then(|s| s.parse().ok()).unwrap_or(0);
    let header = "From Coq Require Import List NArith ZArith.\nFrom QV Require Import Model.ParsePanic Model.PrintParse.\nImport ListNotations.\nOpen Scope N_scope.";
    let run = Run::new(&args.out, header, "PrintParse.case", "PrintParse.failing", 1500);
    let mut cx = Ctx { run, mutant };
    let thorough = args.thorough();
    let mut rng = Rng::new(args.seed);

    // (1) every instruction kind, single instructions (fragment -> model correspondence)
    let per_kind = if thorough { 400 } else { 80 };
    let mut accepted: Vec<String> = Vec::new();
    for kind in 0..quilgen::N_KINDS {
        for _ in 0..per_kind {
            let t = quilgen::instr_text(&mut rng, kind);
            if cx.instruction_case(&t, "single") {
                accepted.push(t);
            }
        }
    }
    // expressions of depth <= 3 in every expression position
    for _ in 0..(if thorough { 6000 } else { 1200 }) {
        let d = rng.below(4);
        let e = quilgen::expr_text(&mut rng, d);
        let t = match rng.below(8) {
            0 => format!("RX({e}) 0"),
            1 => format!("CPHASE({e}, {}) 0 1", quilgen::expr_text(&mut rng, 1)),
            2 => format!("DELAY 0 \"xy\" {e}"),
            3 => format!("SET-PHASE 0 \"xy\" {e}"),
            4 => format!("SHIFT-FREQUENCY 0 1 \"cz\" {e}"),
            5 => format!("RAW-CAPTURE 0 \"ro\" {e} iq[0]"),
            6 => format!("PULSE 0 \"xy\" flat(iq: {e}, duration: 1e-6)"),
            _ => format!("DELAY 0 ({e})"),
        };
        if cx.instruction_case(&t, "expr-position") {
            accepted.push(t);
        }
    }
    // the defect witnesses (fixed ones stay as regression corpus)
    for t in [
        "MOVE ro 1.0", "MOVE ro 1e300", "MOVE ro -0.0", "ADD ro 2.5e-7", "EQ a b[1] -1.0", "STORE a b[0] 3.0",
        "RX(-(-pi)) 0", "RX(-(-(-1))) 0", "RX(Theta) 0", "RX(PI) 0", "RX(SIN(1)) 0", "DELAY 0 \"a\\\"b\" 1",
        "DELAY 0 (pi)", "DELAY 0 (%x)", "DELAY 0 (2)+1", "DELAY 0 1 -2", "DELAY 0 5", "DELAY 5", "DELAY q 5",
        "RAW-CAPTURE 0 \"a\" (2) i[0]", "RAW-CAPTURE 0 \"a\" (2.5) i[0]", "RAW-CAPTURE 0 \"a\" pi i[0]",
        "MOVE ro -9223372036854775808", "MOVE ro 9223372036854775807", "RX(1e15) 0", "RX(999999999999999) 0",
        "RX(18446744073709551615) 0", "RX(2i) 0", "RX(i) 0", "RX(1+2i) 0", "RX(a-b) 0", "RX(a - b) 0", "RX(%x-3) 0",
        "RX(%x - 3) 0", "RX(1 - -1) 0", "RX(2^-1) 0", "RX(-2^2) 0", "RX((-2)^2) 0", "RX(1/2/3) 0", "RX(1/(2/3)) 0",
        "RX(2^3^4) 0", "RX(2^(3^4)) 0", "X pi", "X i", "MEASURE !n 0 ro", "pi 0", "sin(1) 0", "i(1) 0",
    ] {
        if cx.instruction_case(t, "corpus") {
            accepted.push(t.to_string());
        }
        cx.program_case(t, "corpus-program");
    }
    for t in [
        "DEFCAL DAGGER X 0:\n\tY 0",
        "DEFCAL CONTROLLED FORKED RX(%t) 0 1 2:\n\tNOP",
        "DEFCIRCUIT C:\n\tDEFCAL X 0:\n\tY 0",
        "DEFCIRCUIT C:\n\tX 0\n\t\nDEFCAL X 0:\n\tY 0",
        "DEFCIRCUIT C:\n\tDEFGATE G AS PERMUTATION:\n\t0, 1",
        "DEFCAL X 0:\n\tDEFWAVEFORM w:\n\t1, 2",
        "DEFCAL MEASURE 0:\n\tDEFCAL MEASURE 1:\n\tX 0",
        // open finding defcircuit-multiline-string: a string with a newline inside a DEFCIRCUIT body
        "DEFCIRCUIT BELL:\n\tDELAY 7 \"ro_rx\" \"r\n_rx\" (pi)",
        "DEFCIRCUIT C q:\n\tPRAGMA note \"two\nlines\"\n\tX q",
        // the same strings in a DEFCAL body round-trip (its writer does not split lines)
        "DEFCAL X 0:\n\tPRAGMA note \"two\nlines\"",
    ] {
        cx.program_case(t, "corpus-program");
    }

    // (2) whole programs over all kinds
    for _ in 0..(if thorough { 6000 } else { 1000 }) {
        let n = rng.range(1, 10);
        let t = quilgen::program_text(&mut rng, n);
        if cx.program_case(&t, "program") {
            accepted.push(t);
        }
    }
    // (3) mutations of accepted texts, restricted to those still accepted
    let nmut = if thorough { 60000 } else { 12000 };
    let mut kept = 0u64;
    for k in 0..nmut {
        let base = accepted[rng.below(accepted.len())].clone();
        let t = quilgen::mutate(&mut rng, &base);
        let ok = if k % 2 == 0 { cx.instruction_case(&t, "mutated") } else { cx.program_case(&t, "mutated-program") };
        if ok {
            kept += 1;
        }
    }
    cx.run.finish(
        "Every case is a text accepted by the real parser (Instruction::from_str for single instructions, \
         Program::from_str for programs) run through the real chain parse -> print -> parse -> print. \
         Generated: every one of 46 instruction-text kinds (all classical operand forms, gates, DEFGATE x4, \
         DEFCAL, DEFCAL MEASURE, DEFCIRCUIT, DEFFRAME, DEFWAVEFORM, control flow, CALL + PRAGMA EXTERN, PRAGMA, \
         INCLUDE, Quil-T), expressions of depth <= 3 in every expression position, a witness corpus, random \
         programs of 1..10 instructions, and accepted token/byte mutations of all of these. Distinct by text; \
         non-trivial = the program has at least one instruction.",
        false,
        serde_json::json!({"mutations_accepted": kept, "mutant": mutant}),
    );
}
