//! C28 — the control-flow graph partitions the body and locates its blocks.
//!
//! Every case is a real `Program` parsed from Quil text.  The body the model sees is the
//! abstraction of `program.body_instructions()` (not of the generator's intent; the two are
//! asserted equal), the observed output is `ControlFlowGraph::from(&program)`: per block its label,
//! instructions, terminator and `instruction_index_offset`, plus `has_dynamic_control_flow()`.
use qv::{gallina as g, Args, Rng, Run};
use quil_rs::instruction::{Instruction, MemoryReference, Target};
use quil_rs::program::analysis::{BasicBlockTerminator, ControlFlowGraph};
use quil_rs::quil::Quil;
use quil_rs::Program;
use std::collections::HashMap;

/// Plain (block-body) instructions: one text per variant the Rust pushes onto the current block,
/// then extra distinct gates.  The index in this pool is the abstract id `k` of `Plain k`.
const POOL: &[&str] = &[
    "X 0",
    "NOP",
    "ADD ro[0] 1",
    "AND ro[0] 1",
    "MEASURE 0 ro[0]",
    "MOVE ro[0] 1",
    "PRAGMA foo",
    "WAIT",
    "RESET",
    "FENCE 0",
    "DELAY 0 1.0",
    "NEG ro[0]",
    "EXCHANGE ro[0] ro[1]",
    "CONVERT ro[0] ro[1]",
    "EQ ro[0] ro[1] 1",
    "LOAD ro[0] ro ro[1]",
    "STORE ro ro[0] ro[1]",
    "PULSE 0 \"rf\" flat(duration: 1.0, iq: 1.0)",
    "CAPTURE 0 \"rf\" flat(duration: 1.0, iq: 1.0) ro[0]",
    "RAW-CAPTURE 0 \"rf\" 1.0 ro[0]",
    "SET-FREQUENCY 0 \"rf\" 1.0",
    "SET-PHASE 0 \"rf\" 1.0",
    "SET-SCALE 0 \"rf\" 1.0",
    "SHIFT-FREQUENCY 0 \"rf\" 1.0",
    "SHIFT-PHASE 0 \"rf\" 1.0",
    "SWAP-PHASES 0 \"rf\" 1 \"rf\"",
    "CALL foo ro[0]",
    "Y 0",
    "Z 0",
    "H 1",
    "CNOT 0 1",
    "RX(pi) 2",
    "MEASURE 1",
    "RESET 0",
    "CZ 1 2",
    "T 3",
    "S 3",
    "ISWAP 2 3",
    "MOVE ro[1] 2",
    "SUB ro[2] 3",
];

/// Lines that never reach the body (routed into the program's definition tables).
const NONBODY: &[&str] = &[
    "DECLARE ro BIT[4]",
    "DEFFRAME 0 \"rf\":\n    ATTRIBUTE: 1",
    "DEFCAL X 0:\n    Y 0",
    "DEFGATE G AS MATRIX:\n    1, 0\n    0, 1",
    "DEFWAVEFORM w:\n    1.0, 1.0",
    "DEFCAL MEASURE 0 addr:\n    NOP",
    "PRAGMA EXTERN foo \"(x : INTEGER)\"",
];

#[derive(Clone, Debug, PartialEq, Eq)]
enum Item {
    Plain(u64),
    Lbl(u64),
    Jmp(u64),
    JmpWhen(u64, u64),
    JmpUnless(u64, u64),
    Hlt,
    Skip(u64),
    /// generator only: a line that does not reach the body
    NonBody(usize),
}

const LABELS: [&str; 4] = ["a", "b", "c", "d"];

fn item_text(it: &Item) -> String {
    match it {
        Item::Plain(k) => POOL[*k as usize].to_string(),
        Item::Lbl(l) => format!("LABEL @{}", LABELS[*l as usize]),
        Item::Jmp(l) => format!("JUMP @{}", LABELS[*l as usize]),
        Item::JmpWhen(l, c) => format!("JUMP-WHEN @{} ro[{c}]", LABELS[*l as usize]),
        Item::JmpUnless(l, c) => format!("JUMP-UNLESS @{} ro[{c}]", LABELS[*l as usize]),
        Item::Hlt => "HALT".to_string(),
        Item::Skip(k) => format!("INCLUDE \"f{k}\""),
        Item::NonBody(i) => NONBODY[*i].to_string(),
    }
}

fn item_coq(it: &Item) -> String {
    match it {
        Item::Plain(k) => format!("Plain {k}"),
        Item::Lbl(l) => format!("Lbl {l}"),
        Item::Jmp(l) => format!("Jmp {l}"),
        Item::JmpWhen(l, c) => format!("JmpWhen {l} {c}"),
        Item::JmpUnless(l, c) => format!("JmpUnless {l} {c}"),
        Item::Hlt => "Hlt".to_string(),
        Item::Skip(k) => format!("Skip {k}"),
        Item::NonBody(_) => unreachable!(),
    }
}

struct Abs {
    pool: HashMap<String, u64>,
}

const UNKNOWN: u64 = 999_999;

impl Abs {
    fn new() -> Self {
        let mut pool = HashMap::new();
        for (i, t) in POOL.iter().enumerate() {
            let p: Program = t.parse().unwrap_or_else(|e| panic!("pool text {t}: {e}"));
            let ins: Vec<&Instruction> = p.body_instructions().collect();
            assert_eq!(ins.len(), 1, "pool text {t} is not one body instruction");
            let key = ins[0].to_quil_or_debug();
            assert!(pool.insert(key, i as u64).is_none(), "pool text {t} not distinct");
        }
        Abs { pool }
    }
    fn target(&self, t: &Target) -> u64 {
        match t {
            Target::Fixed(s) => LABELS
                .iter()
                .position(|x| x == s)
                .map(|i| i as u64)
                .unwrap_or(UNKNOWN),
            Target::Placeholder(_) => UNKNOWN,
        }
    }
    fn cond(&self, m: &MemoryReference) -> u64 {
        if m.name == "ro" {
            m.index
        } else {
            UNKNOWN
        }
    }
    fn plain(&self, i: &Instruction) -> u64 {
        *self.pool.get(&i.to_quil_or_debug()).unwrap_or(&UNKNOWN)
    }
    /// Independent classification of a body instruction (mirrors the list of variants, not the
    /// CFG code's control flow).
    fn item(&self, i: &Instruction) -> Item {
        match i {
            Instruction::Label(l) => Item::Lbl(self.target(&l.target)),
            Instruction::Jump(j) => Item::Jmp(self.target(&j.target)),
            Instruction::JumpWhen(j) => Item::JmpWhen(self.target(&j.target), self.cond(&j.condition)),
            Instruction::JumpUnless(j) => {
                Item::JmpUnless(self.target(&j.target), self.cond(&j.condition))
            }
            Instruction::Halt() => Item::Hlt,
            Instruction::Include(inc) => Item::Skip(
                inc.filename
                    .strip_prefix('f')
                    .and_then(|s| s.parse().ok())
                    .unwrap_or(UNKNOWN),
            ),
            Instruction::CalibrationDefinition(_)
            | Instruction::CircuitDefinition(_)
            | Instruction::Declaration(_)
            | Instruction::FrameDefinition(_)
            | Instruction::GateDefinition(_)
            | Instruction::MeasureCalibrationDefinition(_)
            | Instruction::WaveformDefinition(_) => Item::Skip(UNKNOWN),
            other => Item::Plain(self.plain(other)),
        }
    }
}

#[derive(Clone, Debug)]
struct Blk {
    label: Option<u64>,
    instrs: Vec<u64>,
    offset: u64,
    term: Term,
}
#[derive(Clone, Debug, PartialEq)]
enum Term {
    Continue,
    Jump(u64),
    Cond(bool, u64, u64),
    Halt,
}

fn observe(abs: &Abs, program: &Program) -> (Vec<Blk>, bool) {
    let graph = ControlFlowGraph::from(program);
    let dynamic = graph.has_dynamic_control_flow();
    let blocks = graph
        .into_blocks()
        .iter()
        .map(|b| Blk {
            label: b.label().map(|t| abs.target(t)),
            instrs: b.instructions().iter().map(|i| abs.plain(i)).collect(),
            offset: b.instruction_index_offset() as u64,
            term: match b.terminator() {
                BasicBlockTerminator::Continue => Term::Continue,
                BasicBlockTerminator::Jump { target } => Term::Jump(abs.target(target)),
                BasicBlockTerminator::ConditionalJump {
                    condition,
                    target,
                    jump_if_condition_zero,
                } => Term::Cond(*jump_if_condition_zero, abs.target(target), abs.cond(condition)),
                BasicBlockTerminator::Halt => Term::Halt,
            },
        })
        .collect();
    (blocks, dynamic)
}

/// QV_MUTANT: perturb the observed output the way a subtly wrong implementation would.
fn mutate(m: u32, blocks: &mut Vec<Blk>, dynamic: &mut bool) {
    match m {
        // 1: the snapshot's offset arithmetic ("+1 for the label" even when the closed block has none)
        1 => {
            let mut off = 0u64;
            for i in 0..blocks.len() {
                blocks[i].offset = off;
                let b = &blocks[i];
                off += b.instrs.len() as u64
                    + if b.term == Term::Continue { 1 } else { 1 + b.label.is_some() as u64 };
            }
        }
        // 2: dropped case: has_dynamic_control_flow forgets JUMP-UNLESS
        2 => *dynamic = blocks.iter().any(|b| matches!(b.term, Term::Cond(false, _, _))),
        // 3: swapped: JUMP-WHEN / JUMP-UNLESS polarity exchanged
        3 => {
            for b in blocks.iter_mut() {
                if let Term::Cond(z, l, c) = b.term.clone() {
                    b.term = Term::Cond(!z, l, c);
                }
            }
        }
        // 4: dropped case: a trailing block consisting only of a label is not emitted
        4 => {
            if let Some(b) = blocks.last() {
                if b.instrs.is_empty() && b.term == Term::Continue {
                    blocks.pop();
                }
            }
        }
        // 5: off-by-one: the terminator arm forgets the closed block's label
        5 => {
            let mut off = 0u64;
            for i in 0..blocks.len() {
                blocks[i].offset = off;
                let b = &blocks[i];
                off += b.instrs.len() as u64
                    + if b.term == Term::Continue { b.label.is_some() as u64 } else { 1 };
            }
        }
        _ => {}
    }
}

fn blk_coq(b: &Blk) -> String {
    let term = match &b.term {
        Term::Continue => "TContinue".to_string(),
        Term::Jump(l) => format!("(TJump {l})"),
        Term::Cond(z, l, c) => format!("(TCond {} {l} {c})", g::boolean(*z)),
        Term::Halt => "THalt".to_string(),
    };
    format!(
        "(mkblk {} {} {}%nat {})",
        g::option(b.label.map(|l| l.to_string())),
        g::list(&b.instrs.iter().map(|k| k.to_string()).collect::<Vec<_>>()),
        b.offset,
        term
    )
}

/// The class repaired by the pending offset fix: an unlabelled, non-empty block closed by a LABEL.
fn in_offset_fix_class(body: &[Item]) -> bool {
    let (mut has_label, mut n) = (false, 0usize);
    for it in body {
        match it {
            Item::Plain(_) => n += 1,
            Item::Skip(_) | Item::NonBody(_) => {}
            Item::Lbl(_) => {
                if n > 0 && !has_label {
                    return true;
                }
                has_label = true;
                n = 0;
            }
            _ => {
                has_label = false;
                n = 0;
            }
        }
    }
    false
}

struct Ctx {
    abs: Abs,
    mutant: u32,
    fix_landed: bool,
}

fn run_case(run: &mut Run, cx: &Ctx, gen: &[Item], kind: &str) {
    let text = gen.iter().map(item_text).collect::<Vec<_>>().join("\n");
    let intended: Vec<Item> = gen
        .iter()
        .filter(|i| !matches!(i, Item::NonBody(_)))
        .cloned()
        .collect();
    let program: Program = match text.parse() {
        Ok(p) => p,
        Err(e) => panic!("generated program does not parse: {e}\n{text}"),
    };
    let body: Vec<Item> = program.body_instructions().map(|i| cx.abs.item(i)).collect();
    assert_eq!(body, intended, "body abstraction differs from the generated body:\n{text}");
    let (mut blocks, mut dynamic) = match qv::catch(|| observe(&cx.abs, &program)) {
        Ok(x) => x,
        Err(msg) => {
            run.process_failure(&format!("ControlFlowGraph::from panicked: {msg}"), &text, None);
            return;
        }
    };
    mutate(cx.mutant, &mut blocks, &mut dynamic);
    let coq = format!(
        "({}, {}, {})",
        g::list(&body.iter().map(item_coq).collect::<Vec<_>>()),
        g::list(&blocks.iter().map(blk_coq).collect::<Vec<_>>()),
        g::boolean(dynamic)
    );
    let nontrivial = blocks.len() >= 2;
    run.count(&format!("{kind} len={}", body.len()));
    run.count(&format!("blocks={}", blocks.len().min(8)));
    let in_class = in_offset_fix_class(&body);
    if in_class {
        run.count("unlabelled block closed by LABEL");
    }
    if body.iter().any(|i| matches!(i, Item::Skip(_))) {
        run.count("has INCLUDE");
    }
    let known = if in_class && !cx.fix_landed { Some("pending-fix-label-offset") } else { None };
    run.case(coq, &text, nontrivial, known);
}

const SYMS: usize = 8;
fn sym(s: usize, pos: usize) -> Item {
    match s {
        0 => Item::Plain(pos as u64),
        1 => Item::Lbl(0),
        2 => Item::Lbl(1),
        3 => Item::Jmp(0),
        4 => Item::JmpWhen(0, 0),
        5 => Item::JmpUnless(1, 1),
        6 => Item::Hlt,
        _ => Item::Skip(pos as u64),
    }
}

fn enumerate(run: &mut Run, cx: &Ctx, body: &mut Vec<Item>, max: usize) {
    run_case(run, cx, body, "exh");
    if body.len() == max {
        return;
    }
    for s in 0..SYMS {
        body.push(sym(s, body.len()));
        enumerate(run, cx, body, max);
        body.pop();
    }
}

fn random_body(rng: &mut Rng) -> Vec<Item> {
    let len = rng.range(7, 30);
    // profile: plain-heavy, label-heavy or terminator-heavy
    let profile = rng.below(3);
    let mut v = Vec::new();
    for _ in 0..len {
        let r = rng.below(100);
        let (p_plain, p_label, p_term, p_skip) = match profile {
            0 => (60, 15, 15, 5),
            1 => (30, 40, 15, 7),
            _ => (30, 15, 40, 7),
        };
        let it = if r < p_plain {
            Item::Plain(rng.below(POOL.len()) as u64)
        } else if r < p_plain + p_label {
            Item::Lbl(rng.below(4) as u64)
        } else if r < p_plain + p_label + p_term {
            match rng.below(4) {
                0 => Item::Jmp(rng.below(4) as u64),
                1 => Item::JmpWhen(rng.below(4) as u64, rng.below(4) as u64),
                2 => Item::JmpUnless(rng.below(4) as u64, rng.below(4) as u64),
                _ => Item::Hlt,
            }
        } else if r < p_plain + p_label + p_term + p_skip {
            Item::Skip(rng.below(50) as u64)
        } else {
            Item::NonBody(rng.below(NONBODY.len()))
        };
        v.push(it);
    }
    v
}

fn fix_landed() -> bool {
    // decided by behaviour, not by reading git: the witness of the defect
    let p: Program = "X 0\nLABEL @a\nY 0\nLABEL @b\nZ 0".parse().unwrap();
    let offs: Vec<usize> = ControlFlowGraph::from(&p)
        .into_blocks()
        .iter()
        .map(|b| b.instruction_index_offset())
        .collect();
    offs == vec![0, 1, 3]
}

fn main() {
    let args = Args::parse();
    let cx = Ctx {
        abs: Abs::new(),
        mutant: std::env::var("QV_MUTANT").ok().and_then(|s| s.parse().ok()).unwrap_or(0),
        fix_landed: fix_landed(),
    };
    if let Some(text) = &args.replay {
        let text = text.replace("\\n", "\n");
        let program: Program = text.parse().expect("replay text parses");
        let body: Vec<Item> = program.body_instructions().map(|i| cx.abs.item(i)).collect();
        let (blocks, dynamic) = observe(&cx.abs, &program);
        println!("body (abstract): {}", g::list(&body.iter().map(item_coq).collect::<Vec<_>>()));
        for (i, it) in program.body_instructions().enumerate() {
            println!("  body[{i}] = {}", it.to_quil_or_debug());
        }
        println!("implementation: has_dynamic_control_flow = {dynamic}");
        for b in &blocks {
            println!("  {}", blk_coq(b));
        }
        println!("required: each block's offset = number of body instructions (INCLUDE not counted) written by the blocks before it; blocks flatten to the body");
        return;
    }
    let header = "From Coq Require Import List NArith.\nFrom QV Require Import Model.Cfg.\nImport ListNotations.\nOpen Scope N_scope.";
    let mut run = Run::new(&args.out, header, "case", "failing", 1500);
    let max = if args.thorough() { 6 } else { 5 };
    enumerate(&mut run, &cx, &mut Vec::new(), max);
    let exhaustive_cases = run.evaluations;
    // pinned regression inputs: the defect witness and the three offset cases of the test-suite
    for text in [
        vec![Item::Plain(0), Item::Lbl(0), Item::Plain(27), Item::Lbl(1), Item::Plain(28)],
        vec![Item::Lbl(0), Item::Jmp(0), Item::Lbl(1), Item::Jmp(1), Item::Lbl(2), Item::Jmp(2)],
        vec![Item::Lbl(0), Item::Lbl(1), Item::Lbl(2), Item::Jmp(2)],
        vec![Item::NonBody(1), Item::NonBody(2), Item::Plain(0)],
        vec![Item::Skip(1), Item::Lbl(0), Item::Plain(0), Item::Skip(2), Item::Plain(1), Item::Hlt, Item::Plain(2)],
    ] {
        run_case(&mut run, &cx, &text, "pinned");
    }
    let mut rng = Rng::new(args.seed);
    let nrand = if args.thorough() { 30000 } else { 4000 };
    for _ in 0..nrand {
        let b = random_body(&mut rng);
        run_case(&mut run, &cx, &b, "rnd");
    }
    if !cx.fix_landed {
        run.note("offset fix not landed: cases where an unlabelled non-empty block is closed by a LABEL are tagged pending-fix-label-offset");
    }
    run.finish(
        "exhaustive: every body up to the stated length over {plain (a distinct instruction per position), \
         LABEL @a, LABEL @b, JUMP @a, JUMP-WHEN @a ro[0], JUMP-UNLESS @b ro[1], HALT, INCLUDE}, parsed from Quil text; \
         plus seeded random bodies of length 7..30 over 40 plain instructions (all 27 block-body variants), 4 labels, \
         4 conditions, INCLUDE and interleaved definitions (DECLARE/DEFCAL/DEFFRAME/...) that never reach the body. \
         Distinct by program text; non-trivial = the graph has at least two blocks.",
        true,
        serde_json::json!({"exhaustive_max_len": max, "exhaustive_cases": exhaustive_cases, "random_cases": nrand,
                           "mutant": cx.mutant, "offset_fix_landed": cx.fix_landed}),
    );
}
