//! C35 — dead-code removal keeps execution and removes exactly unused definitions.
//!
//! Programs are generated as Quil text over small frame / waveform / extern / calibration
//! alphabets and parsed by the real parser.  The real `expand_calibrations` and `simplify` results
//! are abstracted to the records of coq/Model/Simplify35.v (names and definition texts interned),
//! together with the real `matching_frames` answers for every expanded-body instruction against
//! the expanded and against the simplified program.  Schedule equality (`as_schedule_seconds`
//! items of every block, simplified vs expanded) is compared here, in the harness.
use qv::{gallina as g, Args, Rng, Run};
use quil_rs::instruction::{
    DefaultHandler, FrameDefinition, FrameIdentifier, Instruction, InstructionHandler, PragmaArgument, Qubit,
    WaveformDefinition,
};
use quil_rs::program::scheduling::ScheduledProgram;
use quil_rs::quil::Quil;
use quil_rs::Program;
use std::collections::HashMap;
use std::str::FromStr;

#[derive(Default)]
struct Intern {
    ids: HashMap<String, u64>,
}
impl Intern {
    fn id(&mut self, s: &str) -> u64 {
        let n = self.ids.len() as u64;
        *self.ids.entry(s.to_string()).or_insert(n)
    }
}

/// frame identifier -> (qubits, name id); None if a qubit is not fixed
fn frame(it: &mut Intern, f: &FrameIdentifier) -> Option<(Vec<u64>, u64)> {
    let mut qs = vec![];
    for q in &f.qubits {
        match q {
            Qubit::Fixed(n) => qs.push(*n),
            _ => return None,
        }
    }
    Some((qs, it.id(&format!("frame-name:{}", f.name))))
}
fn coq_frame(f: &(Vec<u64>, u64)) -> String {
    format!("({}, {})", nlist(&f.0), f.1)
}
fn nlist(v: &[u64]) -> String {
    g::list(&v.iter().map(|n| n.to_string()).collect::<Vec<_>>())
}
fn fixed(qs: &[Qubit]) -> Option<Vec<u64>> {
    qs.iter()
        .map(|q| match q {
            Qubit::Fixed(n) => Some(*n),
            _ => None,
        })
        .collect()
}
fn optn(o: Option<u64>) -> String {
    match o {
        Some(n) => format!("(Some {n})"),
        None => "None".to_string(),
    }
}

/// the frame-relevant part of a body instruction (Model: finstr)
fn finstr(it: &mut Intern, i: &Instruction) -> Option<String> {
    Some(match i {
        Instruction::Pulse(x) => format!("FPlay {} {}", g::boolean(x.blocking), coq_frame(&frame(it, &x.frame)?)),
        Instruction::Capture(x) => format!("FPlay {} {}", g::boolean(x.blocking), coq_frame(&frame(it, &x.frame)?)),
        Instruction::RawCapture(x) => format!("FPlay {} {}", g::boolean(x.blocking), coq_frame(&frame(it, &x.frame)?)),
        Instruction::Delay(x) => {
            let names: Vec<u64> = x.frame_names.iter().map(|n| it.id(&format!("frame-name:{n}"))).collect();
            format!("FDelay {} {}", nlist(&fixed(&x.qubits)?), nlist(&names))
        }
        Instruction::Fence(x) => format!("FFence {}", nlist(&fixed(&x.qubits)?)),
        Instruction::Reset(x) => match &x.qubit {
            None => "FReset None".to_string(),
            Some(Qubit::Fixed(n)) => format!("FReset (Some {n})"),
            Some(_) => return None,
        },
        Instruction::SetFrequency(x) => format!("FUpdate {}", coq_frame(&frame(it, &x.frame)?)),
        Instruction::SetPhase(x) => format!("FUpdate {}", coq_frame(&frame(it, &x.frame)?)),
        Instruction::SetScale(x) => format!("FUpdate {}", coq_frame(&frame(it, &x.frame)?)),
        Instruction::ShiftFrequency(x) => format!("FUpdate {}", coq_frame(&frame(it, &x.frame)?)),
        Instruction::ShiftPhase(x) => format!("FUpdate {}", coq_frame(&frame(it, &x.frame)?)),
        Instruction::SwapPhases(x) => format!(
            "FSwapPhases {} {}",
            coq_frame(&frame(it, &x.frame_1)?),
            coq_frame(&frame(it, &x.frame_2)?)
        ),
        _ => "FOther".to_string(),
    })
}

/// Abstract view of a program; `frames` and `avail` sorted (unordered containers).
struct AProg {
    body: Vec<String>,
    cals: Vec<u64>,
    frames: Vec<((Vec<u64>, u64), u64)>,
    waveforms: Vec<(u64, u64)>,
    externs: Vec<(Option<u64>, u64)>,
    decls: Vec<(u64, u64)>,
    gates: Vec<(u64, u64)>,
    circuits: Vec<(u64, u64)>,
    avail: Vec<u64>,
}

fn q(i: &impl Quil) -> String {
    i.to_quil_or_debug()
}

fn abstract_program(it: &mut Intern, p: &Program, strict: bool) -> Option<AProg> {
    let mut body = vec![];
    for i in p.body_instructions() {
        let f = finstr(it, i)?;
        let wf = match i {
            Instruction::Pulse(x) => Some(it.id(&format!("wf:{}", x.waveform.name))),
            Instruction::Capture(x) => Some(it.id(&format!("wf:{}", x.waveform.name))),
            _ => None,
        };
        let call = match i {
            Instruction::Call(c) => Some(it.id(&format!("ext:{}", c.name))),
            _ => None,
        };
        body.push(format!("BI ({f}) {} {} {}", optn(wf), optn(call), it.id(&q(i))));
    }
    let cals = p.calibrations.to_instructions().iter().map(|i| it.id(&q(i))).collect();
    let mut frames = vec![];
    for (id, attrs) in p.frames.iter() {
        let def = Instruction::FrameDefinition(FrameDefinition { identifier: id.clone(), attributes: attrs.clone() });
        frames.push((frame(it, id)?, it.id(&q(&def))));
    }
    frames.sort();
    let waveforms = p
        .waveforms
        .iter()
        .map(|(name, def)| {
            let d = Instruction::WaveformDefinition(WaveformDefinition { name: name.clone(), definition: def.clone() });
            (it.id(&format!("wf:{name}")), it.id(&q(&d)))
        })
        .collect();
    let externs = p
        .extern_pragma_map
        .to_instructions()
        .iter()
        .map(|i| {
            let key = match i {
                Instruction::Pragma(pr) => match pr.arguments.first() {
                    Some(PragmaArgument::Identifier(n)) => Some(it.id(&format!("ext:{n}"))),
                    _ => None,
                },
                _ => None,
            };
            (key, it.id(&q(i)))
        })
        .collect();
    let decls = p
        .memory_regions
        .iter()
        .map(|(name, r)| {
            (it.id(&format!("mem:{name}")), it.id(&format!("{name} {:?} {:?}", r.size, r.sharing)))
        })
        .collect();
    let gates = p
        .gate_definitions
        .iter()
        .map(|(name, d)| (it.id(&format!("gate:{name}")), it.id(&q(&Instruction::GateDefinition(d.clone())))))
        .collect();
    let circuits = p
        .circuits
        .iter()
        .map(|(name, d)| (it.id(&format!("circ:{name}")), it.id(&q(&Instruction::CircuitDefinition(d.clone())))))
        .collect();
    // the used-qubit cache of the ORIGINAL program also holds the formal qubits of calibrations; it
    // is never consulted by simplify (which matches against the expanded program), so only the
    // fixed ones are kept there.  For the expanded / simplified program every entry must be fixed.
    let used: Vec<Qubit> = p.get_used_qubits().iter().cloned().collect();
    let mut avail = if strict {
        fixed(&used)?
    } else {
        used.iter().filter_map(|q| if let Qubit::Fixed(n) = q { Some(*n) } else { None }).collect()
    };
    avail.sort();
    Some(AProg { body, cals, frames, waveforms, externs, decls, gates, circuits, avail })
}

fn pairs(v: &[(u64, u64)]) -> String {
    g::list(&v.iter().map(|(a, b)| format!("({a}, {b})")).collect::<Vec<_>>())
}
fn coq_prog(a: &AProg) -> String {
    format!(
        "(Prog {} {} {} {} {} {} {} {} {})",
        g::list(&a.body),
        nlist(&a.cals),
        g::list(&a.frames.iter().map(|(f, p)| format!("({}, {p})", coq_frame(f))).collect::<Vec<_>>()),
        pairs(&a.waveforms),
        g::list(&a.externs.iter().map(|(k, p)| format!("({}, {p})", optn(*k))).collect::<Vec<_>>()),
        pairs(&a.decls),
        pairs(&a.gates),
        pairs(&a.circuits),
        nlist(&a.avail)
    )
}

/// the implementation's matching_frames answers for the body of `of`, asked of program `against`
fn observations(it: &mut Intern, of: &Program, against: &Program) -> Option<Vec<String>> {
    let mut out = vec![];
    for i in of.body_instructions() {
        match DefaultHandler.matching_frames(against, i) {
            None => out.push("None".to_string()),
            Some(m) => {
                let mut u = vec![];
                for f in &m.used {
                    u.push(frame(it, f)?);
                }
                let mut b = vec![];
                for f in &m.blocked {
                    b.push(frame(it, f)?);
                }
                u.sort();
                b.sort();
                out.push(format!(
                    "(Some ({}, {}))",
                    g::list(&u.iter().map(coq_frame).collect::<Vec<_>>()),
                    g::list(&b.iter().map(coq_frame).collect::<Vec<_>>())
                ));
            }
        }
    }
    Some(out)
}

/// Every block's schedule: Ok(list of (items sorted by index as (index, start, duration), total)) or the error.
fn schedules(p: &Program) -> Result<Vec<Result<(Vec<(usize, f64, f64)>, f64, Vec<usize>), String>>, String> {
    let sp = ScheduledProgram::from_program(p, &DefaultHandler).map_err(|e| format!("{:?}", e.variant))?;
    Ok(sp
        .basic_blocks()
        .iter()
        .map(|b| {
            b.as_schedule_seconds(p, &DefaultHandler)
                .map(|s| {
                    let order: Vec<usize> = s.items().iter().map(|i| i.instruction_index).collect();
                    let mut items: Vec<(usize, f64, f64)> = s
                        .items()
                        .iter()
                        .map(|i| (i.instruction_index, i.time_span.start_time().0, i.time_span.duration().0))
                        .collect();
                    items.sort_by(|a, b| a.0.cmp(&b.0));
                    (items, s.duration().0, order)
                })
                .map_err(|e| match e {
                    // which instruction is reported depends on the traversal order of the graph
                    quil_rs::program::scheduling::ComputedScheduleError::UnknownDuration { .. } => {
                        "UnknownDuration".to_string()
                    }
                    other => format!("{other:?}"),
                })
        })
        .collect())
}

struct Ctx {
    run: Run,
    mutant: u32,
}

fn run_case(cx: &mut Ctx, src: &str) {
    let desc = src.trim_end().replace('\n', "\\n");
    let program = match Program::from_str(src) {
        Ok(p) => p,
        Err(e) => {
            cx.run.process_failure(&format!("harness: generated program does not parse: {e}"), &desc, None);
            return;
        }
    };
    let expanded = qv::catch(std::panic::AssertUnwindSafe(|| program.expand_calibrations()));
    let simplified = qv::catch(std::panic::AssertUnwindSafe(|| program.simplify(&DefaultHandler)));
    let (expanded, simplified) = match (expanded, simplified) {
        (Ok(e), Ok(s)) => (e.ok(), s.ok()),
        (e, s) => {
            // a panic in expansion is C18's business unless simplify behaves differently
            if e.is_err() != s.is_err() {
                cx.run.process_failure("panic in exactly one of expand_calibrations / simplify", &desc, None);
            }
            cx.run.count("skipped: panic in calibration expansion");
            return;
        }
    };
    let mut it = Intern::default();
    let Some(ap) = abstract_program(&mut it, &program, false) else {
        cx.run.count("skipped: non-fixed qubit in a frame or body");
        return;
    };
    let ae = match &expanded {
        Some(e) => match abstract_program(&mut it, e, true) {
            Some(a) => Some(a),
            None => {
                cx.run.count("skipped: non-fixed qubit in a frame or body");
                return;
            }
        },
        None => None,
    };
    let mut as_ = match &simplified {
        Some(s) => match abstract_program(&mut it, s, true) {
            Some(a) => Some(a),
            None => {
                cx.run.count("skipped: non-fixed qubit in a frame or body");
                return;
            }
        },
        None => None,
    };
    let (obs_e, mut obs_s) = match (&expanded, &simplified) {
        (Some(e), Some(s)) => {
            let (Some(a), Some(b)) = (observations(&mut it, e, e), observations(&mut it, e, s)) else {
                cx.run.count("skipped: non-fixed qubit in a frame or body");
                return;
            };
            (a, b)
        }
        _ => (vec![], vec![]),
    };

    // schedule equality, block by block
    let mut nontrivial = false;
    if let (Some(e), Some(s)) = (&expanded, &simplified) {
        if e.frames.len() != program.frames.len() {
            cx.run.count("expansion changed the frame set");
        }
        let removed = e.frames.len() - s.frames.len().min(e.frames.len())
            + (e.waveforms.len() - s.waveforms.len().min(e.waveforms.len()))
            + (e.calibrations.len());
        nontrivial = removed > 0 && e.body_instructions().count() > 0;
        let se = qv::catch(std::panic::AssertUnwindSafe(|| schedules(e)));
        let ss = qv::catch(std::panic::AssertUnwindSafe(|| schedules(s)));
        match (se, ss) {
            (Ok(se), Ok(ss)) => {
                match (&se, &ss) {
                    (Ok(be), Ok(bs)) => {
                        cx.run.count("schedule: graph built");
                        if be.len() != bs.len() {
                            cx.run.process_failure("number of scheduled blocks differs", &desc, None);
                        }
                        for (k, (x, y)) in be.iter().zip(bs.iter()).enumerate() {
                            match (x, y) {
                                (Ok((ie, de, oe)), Ok((is, ds, os))) => {
                                    cx.run.count("schedule: block computed");
                                    if ie != is || de != ds {
                                        cx.run.process_failure(
                                            &format!("block {k} schedule differs: expanded {ie:?} total {de}, simplified {is:?} total {ds}"),
                                            &desc,
                                            None,
                                        );
                                    } else if oe != os {
                                        cx.run.count("schedule: same items, different item order");
                                    }
                                    if ie.iter().any(|i| i.1 > 0.0) {
                                        cx.run.count("schedule: some start time > 0");
                                    }
                                }
                                (Err(a), Err(b)) => {
                                    cx.run.count("schedule: block duration unknown (both)");
                                    if a != b {
                                        cx.run.process_failure(&format!("block {k} schedule errors differ: {a} vs {b}"), &desc, None);
                                    }
                                }
                                (a, b) => cx.run.process_failure(
                                    &format!("block {k}: schedule computed for only one of expanded/simplified: {a:?} vs {b:?}"),
                                    &desc,
                                    None,
                                ),
                            }
                        }
                    }
                    (Err(a), Err(b)) => {
                        cx.run.count(&format!("schedule: graph error {a}"));
                        if a != b {
                            cx.run.process_failure(&format!("schedule graph errors differ: {a} vs {b}"), &desc, None);
                        }
                    }
                    // an invalid PRAGMA EXTERN that no CALL uses makes the expanded program
                    // unschedulable; simplify removes it.  No schedule exists to compare with.
                    (Err(a), Ok(_)) if a == "Extern" => {
                        cx.run.count("schedule: expanded program unschedulable (invalid unused PRAGMA EXTERN), simplified schedulable");
                    }
                    (a, b) => cx.run.process_failure(
                        &format!("schedule graph built for only one of expanded/simplified: {:?} vs {:?}", a.is_ok(), b.is_ok()),
                        &desc,
                        None,
                    ),
                }
            }
            (a, b) => {
                if a.is_err() != b.is_err() {
                    cx.run.process_failure("panic while scheduling exactly one of expanded/simplified", &desc, None);
                }
                cx.run.count("schedule: panic (both)");
            }
        }
    }

    // emulated bugs: perturb the observed simplified program
    if let (Some(e), Some(ae), Some(s)) = (&expanded, &ae, &mut as_) {
        match cx.mutant {
            // 1: frames kept = used or blocked
            1 => {
                for i in e.body_instructions() {
                    if let Some(m) = DefaultHandler.matching_frames(e, i) {
                        for f in m.blocked {
                            let fr = frame(&mut it, f).unwrap();
                            if let Some(d) = ae.frames.iter().find(|(g, _)| *g == fr) {
                                if !s.frames.contains(d) {
                                    s.frames.push(d.clone());
                                }
                            }
                        }
                    }
                }
            }
            // 2: waveforms not pruned
            2 => s.waveforms = ae.waveforms.clone(),
            // 3: the extern retain keeps pragmas that are not called when some CALL exists
            3 => {
                if !s.externs.is_empty() {
                    s.externs = ae.externs.clone()
                }
            }
            // 4: frames used by the ORIGINAL body (before calibration expansion)
            4 => {
                let mut keep = vec![];
                for i in program.body_instructions() {
                    if let Some(m) = DefaultHandler.matching_frames(e, i) {
                        for f in m.used {
                            keep.push(frame(&mut it, f).unwrap());
                        }
                    }
                }
                s.frames.retain(|(f, _)| keep.contains(f));
            }
            // 5: matching on the simplified program loses its last blocked frame
            5 => {
                for o in obs_s.iter_mut().rev() {
                    if o.contains("], [(") {
                        let cut = o.rfind("], [(").unwrap();
                        *o = format!("{}], []))", &o[..cut]);
                        break;
                    }
                }
            }
            _ => {}
        }
    }

    let coq = format!(
        "({}, {}, {}, {}, {})",
        coq_prog(&ap),
        g::option(ae.as_ref().map(coq_prog)),
        g::option(as_.as_ref().map(coq_prog)),
        g::list(&obs_e),
        g::list(&obs_s)
    );
    cx.run.count(&format!("body-len={}", program.body_instructions().count().min(9)));
    cx.run.count(match (&expanded, &simplified) {
        (Some(_), Some(_)) => "outcome=simplified",
        (None, None) => "outcome=expansion error (both)",
        _ => "outcome=MISMATCH",
    });
    if let (Some(e), Some(s)) = (&expanded, &simplified) {
        cx.run.count(&format!("frames {}->{}", e.frames.len(), s.frames.len()));
        if obs_e.iter().any(|o| o.contains("], [(")) {
            cx.run.count("some instruction blocks a frame");
        }
    }
    cx.run.case(coq, &desc, nontrivial, None);
}

// ---------------------------------------------------------------------------------------------
// alphabets

const FRAMES: [&str; 7] = [
    "DEFFRAME 0 \"rf\":\n    SAMPLE-RATE: 1.0\n",
    "DEFFRAME 1 \"rf\":\n    SAMPLE-RATE: 2.0\n",
    "DEFFRAME 0 \"ro\":\n    SAMPLE-RATE: 1.0\n",
    "DEFFRAME 0 1 \"cz\":\n    SAMPLE-RATE: 1.0\n",
    "DEFFRAME 1 0 \"cz\":\n    SAMPLE-RATE: 1.0\n",
    "DEFFRAME 2 \"rf\":\n    SAMPLE-RATE: 1.0\n",
    "DEFFRAME 1 \"ro\":\n    INITIAL-FREQUENCY: 10.0\n",
];
const WAVEFORMS: [&str; 3] = [
    "DEFWAVEFORM w1:\n    1.0, 1.0\n",
    "DEFWAVEFORM w2:\n    1.0, 1.0, 1.0, 1.0\n",
    "DEFWAVEFORM w3:\n    1.0\n",
];
const EXTERNS: [&str; 3] = [
    "PRAGMA EXTERN foo \"(x : mut INTEGER)\"\n",
    "PRAGMA EXTERN bar \"INTEGER (x : INTEGER)\"\n",
    "PRAGMA EXTERN baz \"(x : mut INTEGER)\"\n",
];
const DECLS: [&str; 3] = ["DECLARE ro BIT[2]\n", "DECLARE x INTEGER[2]\n", "DECLARE th REAL\n"];
const GATES: [&str; 2] = [
    "DEFGATE H1:\n    1.0, 0.0\n    0.0, 1.0\n",
    "DEFGATE PH(%a) AS MATRIX:\n    1.0, 0.0\n    0.0, cis(%a)\n",
];
const CIRCUITS: [&str; 2] = ["DEFCIRCUIT BELL a b:\n    X a\n    CZ a b\n", "DEFCIRCUIT FLIP a:\n    X a\n"];
const CALS: [&str; 9] = [
    "DEFCAL X 0:\n    PULSE 0 \"rf\" w1\n",
    "DEFCAL X 1:\n    PULSE 1 \"rf\" flat(duration: 1.0)\n",
    "DEFCAL X q:\n    SET-PHASE q \"rf\" 1.0\n    NONBLOCKING PULSE q \"rf\" w3\n",
    "DEFCAL CZ 0 1:\n    FENCE 0 1\n    NONBLOCKING PULSE 0 1 \"cz\" w2\n    SHIFT-PHASE 0 \"rf\" 0.5\n",
    "DEFCAL MEASURE 0 addr:\n    CAPTURE 0 \"ro\" flat(duration: 2.0) addr\n",
    "DEFCAL Y 0:\n    DECLARE tmp BIT\n    X 0\n    DELAY 0 \"rf\" 0.5\n",
    "DEFCAL Z 0:\n    PRAGMA EXTERN qux \"(x : mut INTEGER)\"\n    SHIFT-FREQUENCY 0 \"rf\" 1.0\n",
    "DEFCAL MEASURE 1 addr:\n    FENCE 1\n    CAPTURE 1 \"ro\" w1 addr\n",
    "DEFCAL T 0:\n    SWAP-PHASES 0 \"rf\" 0 \"ro\"\n    CALL foo x\n",
];
const BODY_RF: [&str; 30] = [
    "X 0",
    "X 1",
    "X 2",
    "Y 0",
    "Z 0",
    "T 0",
    "CZ 0 1",
    "MEASURE 0 ro[0]",
    "MEASURE 1 ro[1]",
    "PULSE 0 \"rf\" w1",
    "NONBLOCKING PULSE 1 \"rf\" w2",
    "PULSE 0 \"xx\" w3",
    "PULSE 1 \"rf\" gaussian(duration: 1.0, fwhm: 2.0, t0: 3.0)",
    "PULSE 0 1 \"cz\" w2",
    "CAPTURE 0 \"ro\" flat(duration: 1.0) ro[0]",
    "NONBLOCKING CAPTURE 1 \"ro\" w2 ro[1]",
    "RAW-CAPTURE 0 \"ro\" 1.0 th",
    "DELAY 0 1.0",
    "DELAY 0 \"rf\" 1.0",
    "DELAY 0 1 0.5",
    "DELAY 1 \"rf\" \"ro\" 2.0",
    "FENCE",
    "FENCE 0",
    "FENCE 0 1",
    "SET-PHASE 0 \"rf\" 1.0",
    "SHIFT-FREQUENCY 1 \"rf\" 2.0",
    "SET-SCALE 2 \"rf\" 1.0",
    "SWAP-PHASES 0 \"rf\" 1 \"rf\"",
    "RESET 0",
    "RESET",
];
const BODY_CLASSICAL: [&str; 7] = [
    "CALL foo x",
    "CALL bar x[1] 2",
    "MOVE x 1",
    "ADD x[1] 1",
    "NOP",
    "PRAGMA hello",
    "WAIT",
];
const BODY_CONTROL: [&str; 8] = [
    "LABEL @l",
    "JUMP @l",
    "JUMP-WHEN @m ro[0]",
    "LABEL @m",
    "HALT",
    "HALT",
    "JUMP-UNLESS @l ro[1]",
    "JUMP @m",
];
const BODY_UNSCHEDULABLE: [&str; 2] = ["H1 0", "BELL 0 1"];

/// Instructions that, in the full environment, are the only user of some frame / waveform /
/// extern pragma when nothing else in the body touches it (directly, or through a DEFCAL /
/// DEFCAL MEASURE expansion, or a CALL inside a calibration body).
const SOLE_USERS: [&str; 27] = [
    "PULSE 0 \"rf\" w1",
    "NONBLOCKING PULSE 0 1 \"cz\" w2",
    "CAPTURE 0 \"ro\" flat(duration: 1.0) ro[0]",
    "CAPTURE 0 \"ro\" w2 ro[0]",
    "RAW-CAPTURE 0 \"ro\" 1.0 th",
    "SET-FREQUENCY 0 \"rf\" 1.0",
    "SET-PHASE 0 \"rf\" 1.0",
    "SET-SCALE 0 \"rf\" 1.0",
    "SHIFT-FREQUENCY 0 \"ro\" 2.0",
    "SHIFT-PHASE 1 0 \"cz\" 2.0",
    "SWAP-PHASES 0 \"rf\" 1 \"rf\"",
    "DELAY 0 \"rf\" 1.0",
    "DELAY 0 1.0",
    "DELAY 0 1 \"cz\" 1.0",
    "FENCE 0",
    "FENCE",
    "RESET 0",
    "X 0",
    "X 1",
    "Y 0",
    "Z 0",
    "T 0",
    "CZ 0 1",
    "MEASURE 0 ro[0]",
    "MEASURE 1 ro[1]",
    "CALL foo x",
    "CALL bar x[1] 2",
];
/// another user of unrelated definitions (frame 2 "rf", waveform w3, through DEFCAL X q)
const OTHER_USER: &str = "X 2";

/// Control-flow skeletons: `U` = the sole user, `V` = the other user.  HALT / JUMP / JUMP-WHEN /
/// JUMP-UNLESS / LABEL in every position relative to U: before, between, after, HALT first,
/// several HALTs, dead code after an unconditional JUMP, code reachable only through a label
/// behind a HALT, loops.
const SKELETONS: [&[&str]; 22] = [
    &["U"],
    &["HALT", "U"],
    &["U", "HALT"],
    &["HALT", "HALT", "U"],
    &["HALT", "U", "HALT"],
    &["V", "HALT", "U"],
    &["U", "HALT", "V"],
    &["HALT", "V", "HALT", "U", "HALT"],
    &["JUMP @a", "U", "LABEL @a"],
    &["JUMP @a", "HALT", "LABEL @a", "U"],
    &["JUMP-WHEN @a ro[0]", "HALT", "LABEL @a", "U"],
    &["JUMP-UNLESS @a ro[0]", "HALT", "LABEL @a", "U", "HALT"],
    &["JUMP-UNLESS @a ro[0]", "U", "HALT", "LABEL @a", "V"],
    &["LABEL @a", "U", "JUMP @a"],
    &["LABEL @a", "HALT", "LABEL @b", "U"],
    &["JUMP @b", "LABEL @a", "U", "HALT", "LABEL @b", "JUMP-WHEN @a ro[0]", "HALT"],
    &["V", "JUMP-UNLESS @a ro[0]", "V", "HALT", "LABEL @a", "V", "HALT", "U"],
    &["HALT", "LABEL @a", "U", "JUMP-WHEN @a ro[0]", "HALT", "V"],
    &["U", "JUMP @a", "HALT", "LABEL @a", "HALT"],
    &["V", "JUMP @a", "U", "HALT", "LABEL @a", "V"],
    &["LABEL @a", "V", "JUMP-WHEN @b ro[1]", "HALT", "LABEL @b", "U", "JUMP-UNLESS @a ro[0]", "HALT"],
    &["JUMP @a", "LABEL @b", "HALT", "LABEL @a", "JUMP @c", "HALT", "LABEL @c", "U"],
];

fn skeleton_program(env: &str, skeleton: &[&str], user: &str) -> String {
    let mut s = env.to_string();
    for line in skeleton {
        s.push_str(match *line {
            "U" => user,
            "V" => OTHER_USER,
            other => other,
        });
        s.push('\n');
    }
    s
}

fn subset(rng: &mut Rng, items: &[&str], num: usize, den: usize) -> String {
    let mut s = String::new();
    for i in items {
        if rng.chance(num, den) {
            s.push_str(i);
        }
    }
    s
}

fn random_program(rng: &mut Rng) -> String {
    let mut s = String::new();
    s.push_str(&subset(rng, &EXTERNS, 1, 2));
    // declarations: all of them most of the time (CALL / CAPTURE need them only for type checking)
    if rng.chance(5, 6) {
        s.push_str(&DECLS.concat());
    } else {
        s.push_str(&subset(rng, &DECLS, 1, 2));
    }
    let dense = rng.chance(1, 2);
    // pulse mode: only RF-control instructions (and block boundaries), all calibrations present
    // most of the time, so that block schedules are actually computed
    let pulse_mode = rng.chance(3, 5);
    s.push_str(&subset(rng, &FRAMES, if dense { 4 } else { 1 }, if dense { 5 } else { 2 }));
    s.push_str(&subset(rng, &WAVEFORMS, if pulse_mode { 5 } else { 2 }, if pulse_mode { 6 } else { 3 }));
    if pulse_mode && rng.chance(3, 4) {
        s.push_str(&CALS.concat());
    } else {
        s.push_str(&subset(rng, &CALS, if dense { 3 } else { 1 }, if dense { 4 } else { 3 }));
    }
    s.push_str(&subset(rng, &GATES, 1, 3));
    s.push_str(&subset(rng, &CIRCUITS, 1, 3));
    let len = rng.range(0, 8);
    for _ in 0..len {
        let line = if pulse_mode {
            match rng.below(20) {
                0..=17 => *rng.pick(&BODY_RF),
                _ => *rng.pick(&BODY_CONTROL),
            }
        } else {
            match rng.below(20) {
                0..=12 => *rng.pick(&BODY_RF),
                13..=16 => *rng.pick(&BODY_CLASSICAL),
                17 | 18 => *rng.pick(&BODY_CONTROL),
                _ => *rng.pick(&BODY_UNSCHEDULABLE),
            }
        };
        s.push_str(line);
        s.push('\n');
    }
    s
}

fn main() {
    let args = Args::parse();
    let mutant: u32 = std::env::var("QV_MUTANT").ok().and_then(|s| s.parse().ok()).unwrap_or(0);
    let header = "From Coq Require Import List NArith.\nFrom QV Require Import Model.Simplify35.\nImport ListNotations.\nOpen Scope N_scope.";
    let run = Run::new(&args.out, header, "case", "failing", 240);
    let mut cx = Ctx { run, mutant };
    if mutant != 0 {
        cx.run.note(&format!("QV_MUTANT={mutant}: observed outputs perturbed"));
    }
    if let Some(src) = &args.replay {
        run_case(&mut cx, &src.replace("\\n", "\n"));
        cx.run.finish("replay", false, serde_json::json!({}));
        return;
    }

    // (1) exhaustive small scope: the full definition environment, every body of length <= 2
    //     (thorough: a reduced alphabet at length 3) over the RF alphabet plus a few others
    let env = format!(
        "{}{}{}{}{}{}{}",
        EXTERNS.concat(),
        DECLS.concat(),
        FRAMES.concat(),
        WAVEFORMS.concat(),
        CALS.concat(),
        GATES.concat(),
        CIRCUITS.concat()
    );
    let mut alpha: Vec<&str> = BODY_RF.to_vec();
    alpha.extend_from_slice(&["CALL foo x", "MOVE x 1", "H1 0"]);
    run_case(&mut cx, &env);
    for a in &alpha {
        run_case(&mut cx, &format!("{env}{a}\n"));
        for b in &alpha {
            run_case(&mut cx, &format!("{env}{a}\n{b}\n"));
        }
    }
    if args.thorough() {
        let small = ["X 0", "X 1", "CZ 0 1", "PULSE 0 \"xx\" w3", "PULSE 1 \"rf\" w2", "FENCE", "DELAY 0 1.0", "RESET", "MEASURE 0 ro[0]", "SWAP-PHASES 0 \"rf\" 1 \"rf\""];
        for a in &small {
            for b in &small {
                for c in &small {
                    run_case(&mut cx, &format!("{env}{a}\n{b}\n{c}\n"));
                }
            }
        }
    }
    // a few fixed corner programs
    for src in [
        "",
        "DEFFRAME 0 \"rf\":\n    SAMPLE-RATE: 1.0\n",
        // two pulses on different frames both blocking an unused two-qubit frame
        "DEFFRAME 0 \"rf\":\n    SAMPLE-RATE: 1.0\nDEFFRAME 1 \"rf\":\n    SAMPLE-RATE: 1.0\nDEFFRAME 0 1 \"cz\":\n    SAMPLE-RATE: 1.0\nPULSE 0 \"rf\" flat(duration: 1.0)\nPULSE 1 \"rf\" flat(duration: 1.0)\n",
        // a pulse on an undefined frame blocks a defined one that nobody uses
        "DEFFRAME 0 \"rf\":\n    SAMPLE-RATE: 1.0\nPULSE 0 \"nope\" flat(duration: 1.0)\nPULSE 0 \"nope\" flat(duration: 2.0)\n",
        // recursive calibration: expansion error on both sides
        "DEFCAL X 0:\n    X 0\nX 0\n",
        // extern pragma without a name
        "PRAGMA EXTERN\nDECLARE x INTEGER\nMOVE x 1\n",
    ] {
        run_case(&mut cx, src);
    }
    // (1c) control-flow skeletons x sole users, in the full environment
    for sk in SKELETONS.iter() {
        for u in SOLE_USERS.iter() {
            cx.run.count("skeleton case");
            run_case(&mut cx, &skeleton_program(&env, sk, u));
        }
    }
    // two different sole users on either side of a HALT / behind a jump
    for (k, u1) in SOLE_USERS.iter().enumerate() {
        let u2 = SOLE_USERS[(k * 7 + 3) % SOLE_USERS.len()];
        for body in [
            format!("{u1}\nHALT\n{u2}\n"),
            format!("JUMP-WHEN @a ro[0]\n{u1}\nHALT\nLABEL @a\n{u2}\nHALT\n"),
            format!("HALT\nLABEL @a\n{u1}\nJUMP @b\n{u2}\nLABEL @b\nHALT\n{u2}\n"),
        ] {
            cx.run.count("skeleton case");
            run_case(&mut cx, &format!("{env}{body}"));
        }
    }
    let exhaustive_cases = cx.run.evaluations;

    // (2) seeded random programs over random sub-environments
    let mut rng = Rng::new(args.seed);
    let nrand = if args.thorough() { 20000 } else { 2500 };
    for _ in 0..nrand {
        let src = random_program(&mut rng);
        run_case(&mut cx, &src);
    }
    cx.run.finish(
        "exhaustive: the full environment (3 externs, 3 declarations, 7 frames, 3 waveforms, 9 calibrations, 2 gate \
         definitions, 2 circuits) with every body of length <= 2 over 33 instructions (thorough: plus length 3 over 10), \
         and 22 control-flow skeletons (HALT / JUMP / JUMP-WHEN / JUMP-UNLESS / LABEL before, between and after; HALT first; \
         several HALTs; dead code after JUMP; code only reachable behind a HALT) x 27 instructions that are the sole user of a \
         frame / waveform / extern (directly, via DEFCAL / DEFCAL MEASURE expansion, via CALL in a calibration body); \
         random: random sub-environments with bodies of 0..8 instructions incl. classical, control flow (several blocks) and \
         unschedulable gates. Distinct by program text; non-trivial = simplification removed at least one definition and the \
         body is not empty.",
        true,
        serde_json::json!({"exhaustive_cases": exhaustive_cases, "random_cases": nrand, "mutant": mutant}),
    );
}
