//! C31 — extern signatures round-trip and CALL resolution follows the rules.
//!
//! Four kinds of cases (see `coq/Model/Extern.v`, type `case`):
//!   CName  a byte string and whether `ExternParameter::try_new` accepts it as a name
//!   CSig   a signature built with the real constructors, its `to_quil()` text, `from_str` of it
//!   CText  free (mostly malformed) text and `ExternSignature::from_str` of it
//!   CCall  declarations + signature + CALL arguments and the real `Call::resolve_arguments`
use qv::{gallina as g, Args, Rng, Run};
use quil_rs::instruction::{
    Call, CallArgumentError, CallArgumentResolutionError, CallResolutionError, CallSignatureError,
    Declaration, ExternError, ExternParameter, ExternParameterType, ExternSignature, Instruction,
    MemoryReference, Pragma, PragmaArgument, ResolvedCallArgument, ScalarType,
    UnresolvedCallArgument, Vector,
};
use quil_rs::quil::Quil;
use quil_rs::Program;
use std::str::FromStr;

const SCALARS: [ScalarType; 4] = [ScalarType::Bit, ScalarType::Octet, ScalarType::Integer, ScalarType::Real];

fn c_scalar(t: ScalarType) -> &'static str {
    match t {
        ScalarType::Bit => "SBit",
        ScalarType::Octet => "SOctet",
        ScalarType::Integer => "SInteger",
        ScalarType::Real => "SReal",
    }
}
fn c_ptype(t: &ExternParameterType) -> String {
    match t {
        ExternParameterType::Scalar(s) => format!("(PScalar {})", c_scalar(*s)),
        ExternParameterType::FixedLengthVector(v) => format!("(PFixed {} {})", c_scalar(v.data_type), v.length),
        ExternParameterType::VariableLengthVector(s) => format!("(PVar {})", c_scalar(*s)),
    }
}
fn c_sig(s: &ExternSignature) -> String {
    let ps: Vec<String> = s
        .parameters()
        .iter()
        .map(|p| {
            format!(
                "(mkParam {} {} {})",
                g::bytes(p.name().as_bytes()),
                g::boolean(p.mutable()),
                c_ptype(p.data_type())
            )
        })
        .collect();
    let ret = match s.return_type() {
        Some(t) => format!("(Some {})", c_scalar(*t)),
        None => "None".to_string(),
    };
    format!("({ret}, {})", g::list(&ps))
}
fn c_presult(r: &Result<ExternSignature, ExternError>) -> (String, &'static str) {
    match r {
        Ok(s) => (format!("(POk {})", c_sig(s)), "ok"),
        Err(ExternError::Lex(_)) => ("PErrLex".into(), "lex"),
        Err(ExternError::Syntax(_)) => ("PErrSyntax".into(), "syntax"),
        Err(ExternError::NoReturnOrParameters) => ("PErrEmpty".into(), "empty"),
        Err(ExternError::Name(_)) => ("PErrName".into(), "name"),
        Err(other) => panic!("unexpected ExternError from from_str: {other:?}"),
    }
}

struct Ctx {
    mutant: u32,
}

// ---------------------------------------------------------------------------------------------
// names

const RESERVED: &[&str] = &[
    "mut", "BIT", "OCTET", "REAL", "INTEGER", "AS", "MATRIX", "NONBLOCKING", "OFFSET", "PAULI-SUM", "PERMUTATION",
    "SEQUENCE", "SHARING", "ADD", "AND", "ASHR", "CALL", "CAPTURE", "CONVERT", "DECLARE", "DEFCAL", "DEFCIRCUIT",
    "DEFFRAME", "DEFGATE", "DEFWAVEFORM", "DELAY", "DIV", "EQ", "EXCHANGE", "FENCE", "GE", "GT", "HALT", "INCLUDE",
    "IOR", "JUMP", "JUMP-UNLESS", "JUMP-WHEN", "LABEL", "LE", "LOAD", "LT", "MEASURE", "MOVE", "MUL", "NEG", "NOP",
    "NOT", "PRAGMA", "PULSE", "RAW-CAPTURE", "RESET", "SET-FREQUENCY", "SET-PHASE", "SET-SCALE", "SHIFT-FREQUENCY",
    "SHIFT-PHASE", "SHL", "SHR", "STORE", "SUB", "SWAP-PHASES", "WAIT", "XOR", "CONTROLLED", "DAGGER", "FORKED",
    "CAN", "CCNOT", "CNOT", "CPHASE", "CPHASE00", "CPHASE01", "CPHASE10", "CSWAP", "CZ", "H", "I", "ISWAP", "PHASE",
    "PISWAP", "PSWAP", "RX", "RY", "RZ", "S", "SWAP", "T", "X", "XY", "Y", "Z", "i", "pi",
];
const SHAPES: &[&str] = &[
    "", "a", "_", "-", "a-", "-a", "a-b", "a--b", "a_-b", "a-_", "9a", "a9", "a-9", "9", "A", "Mut", "MUT", "ii",
    "Pi", "PI", "a b", "a.b", "a:b", "\u{e9}", "a\u{e9}", "x_y", "baz-2", "q--r", "Integer", "integer", "bit", "hH",
    "pi2", "i_", "_i", "__", "a-b-c", "a1-2b", "Z9", "sin",
];
const GOOD_NAMES: [&str; 12] =
    ["a", "bar", "baz-2", "x_y", "_", "q--r", "Integer", "MUT", "hH", "pi2", "i_", "Jump-when"];

fn name_cases(run: &mut Run, ctx: &Ctx) {
    let mut words: Vec<String> = Vec::new();
    for w in RESERVED {
        words.push(w.to_string());
        words.push(w.to_lowercase());
        words.push(w.to_uppercase());
        words.push(format!("{w}x"));
        words.push(format!("{w}-a"));
        words.push(format!("_{w}"));
        if w.len() > 1 {
            words.push(w[..w.len() - 1].to_string());
        }
    }
    for w in SHAPES.iter().chain(GOOD_NAMES.iter()) {
        words.push(w.to_string());
    }
    for w in words {
        let ok = ExternParameter::try_new(w.clone(), false, ExternParameterType::Scalar(ScalarType::Bit)).is_ok();
        run.count(if ok { "name:accepted" } else { "name:rejected" });
        run.case(
            format!("CName {} {}", g::bytes(w.as_bytes()), g::boolean(ok)),
            &format!("name {w:?}"),
            true,
            None,
        );
        // every accepted name must also survive print -> lex -> parse as a parameter name
        if ok {
            let k = w.len();
            let ty = match k % 3 {
                0 => PT::Scalar(k % 4),
                1 => PT::Fixed(k % 4, (k % 5) as u64),
                _ => PT::Var(k % 4),
            };
            let ret = if k % 2 == 0 { Some(k % 4) } else { None };
            let sig = build_sig(ret, &[(ty, k % 2 == 1)], &[w.as_str()]);
            run.count("name:roundtripped-in-signature");
            sig_case(run, ctx, &sig, k % 4 == 0);
        }
    }
}

// ---------------------------------------------------------------------------------------------
// signatures

#[derive(Clone, Copy, Debug, PartialEq)]
enum PT {
    Scalar(usize),
    Fixed(usize, u64),
    Var(usize),
}
fn pt_real(t: PT) -> ExternParameterType {
    match t {
        PT::Scalar(s) => ExternParameterType::Scalar(SCALARS[s]),
        PT::Fixed(s, n) => ExternParameterType::FixedLengthVector(Vector::new(SCALARS[s], n)),
        PT::Var(s) => ExternParameterType::VariableLengthVector(SCALARS[s]),
    }
}
/// the 32 (type, mutability) combinations of the exhaustive scope
fn slot_types() -> Vec<(PT, bool)> {
    let mut v = Vec::new();
    for s in 0..4 {
        for m in [false, true] {
            v.push((PT::Scalar(s), m));
            v.push((PT::Fixed(s, 1), m));
            v.push((PT::Fixed(s, 2), m));
            v.push((PT::Var(s), m));
        }
    }
    v
}
fn build_sig(ret: Option<usize>, slots: &[(PT, bool)], names: &[&str]) -> ExternSignature {
    let params: Vec<ExternParameter> = slots
        .iter()
        .zip(names)
        .map(|((t, m), n)| ExternParameter::try_new(n.to_string(), *m, pt_real(*t)).expect("valid name"))
        .collect();
    ExternSignature::new(ret.map(|r| SCALARS[r]), params)
}

fn sig_case(run: &mut Run, ctx: &Ctx, sig: &ExternSignature, via_pragma: bool) {
    let mut printed = sig.to_quil().expect("to_quil");
    if ctx.mutant == 1 {
        // printer forgets the blank between the return type and the parameter list
        if sig.return_type().is_some() {
            printed = printed.replacen(" (", "(", 1);
        }
    }
    let mut parsed = ExternSignature::from_str(&printed);
    if ctx.mutant == 2 {
        // parser loses `mut` on vector parameters
        if let Ok(s) = &parsed {
            let ps: Vec<ExternParameter> = s
                .parameters()
                .iter()
                .map(|p| {
                    let m = p.mutable() && matches!(p.data_type(), ExternParameterType::Scalar(_));
                    ExternParameter::try_new(p.name().to_string(), m, p.data_type().clone()).unwrap()
                })
                .collect();
            parsed = Ok(ExternSignature::new(s.return_type().copied(), ps));
        }
    }
    if via_pragma {
        // the same text through PRAGMA EXTERN in a parsed program
        let text = format!("PRAGMA EXTERN ff \"{printed}\"\n");
        match Program::from_str(&text) {
            Ok(p) => match (p.try_extern_signature_map_from_pragma_map(), &parsed) {
                (Ok(map), Ok(s)) => {
                    let got = map.iter().next().map(|(n, s2)| (n.clone(), s2.clone()));
                    if got != Some(("ff".to_string(), s.clone())) && ctx.mutant == 0 {
                        run.process_failure("PRAGMA EXTERN path differs from from_str", &text, None);
                    }
                }
                (Err(_), Err(_)) => {}
                (a, b) => {
                    if ctx.mutant == 0 {
                        run.process_failure(
                            &format!("PRAGMA EXTERN path ({}) differs from from_str ({})", a.is_ok(), b.is_ok()),
                            &text,
                            None,
                        )
                    }
                }
            },
            Err(e) => run.process_failure(&format!("PRAGMA EXTERN does not parse: {e}"), &text, None),
        }
        run.count("sig:also-via-PRAGMA");
    }
    let (c_parsed, kind) = c_presult(&parsed);
    run.count(&format!("sig:arity={}", sig.parameters().len()));
    run.count(&format!("sig:roundtrip-{kind}"));
    let nontrivial = !sig.parameters().is_empty();
    run.case(
        format!("CSig {} {} {}", c_sig(sig), g::bytes(printed.as_bytes()), c_parsed),
        &format!("sig {:?}", sig.to_quil().unwrap()),
        nontrivial,
        None,
    );
}

fn signature_cases(run: &mut Run, ctx: &Ctx, rng: &mut Rng, thorough: bool) -> Vec<ExternSignature> {
    let slots = slot_types();
    let mut all = Vec::new();
    let rets: [Option<usize>; 5] = [None, Some(0), Some(1), Some(2), Some(3)];
    let mut count = 0usize;
    // exhaustive up to arity 2
    for ret in rets {
        let s0 = build_sig(ret, &[], &[]);
        sig_case(run, ctx, &s0, true);
        all.push(s0);
        for (i, a) in slots.iter().enumerate() {
            let s1 = build_sig(ret, &[*a], &[GOOD_NAMES[(i + count) % GOOD_NAMES.len()]]);
            sig_case(run, ctx, &s1, true);
            all.push(s1);
            count += 1;
            for (j, b_) in slots.iter().enumerate() {
                // arity 2: exhaustive in the thorough tier, every fourth pair (varying with the
                // return type) in the quick tier
                if !thorough && (i + j + ret.map(|r| r + 1).unwrap_or(0)) % 4 != 0 {
                    continue;
                }
                let s2 = build_sig(
                    ret,
                    &[*a, *b_],
                    &[GOOD_NAMES[(i + j) % GOOD_NAMES.len()], GOOD_NAMES[(i * 5 + j * 3 + 1) % GOOD_NAMES.len()]],
                );
                sig_case(run, ctx, &s2, (i + j) % 16 == 0);
                all.push(s2);
            }
        }
    }
    // arity 3: the whole scope has 5 * 32^3 = 163840 signatures; exhaustive in the thorough tier
    // would be ~15 min of Coq, so both tiers sample it (seeded), the thorough one ten times denser
    let n3 = if thorough { 20000 } else { 700 };
    for _ in 0..n3 {
        let ret = rets[rng.below(5)];
        let sl: Vec<(PT, bool)> = (0..3).map(|_| slots[rng.below(32)]).collect();
        let nm: Vec<&str> = (0..3).map(|_| GOOD_NAMES[rng.below(GOOD_NAMES.len())]).collect();
        let s3 = build_sig(ret, &sl, &nm);
        sig_case(run, ctx, &s3, false);
        all.push(s3);
    }
    // beyond the scope: arity 4..6, extreme lengths
    let lens = [0u64, 1, 2, 9, 10, 255, 1000, 4294967296, u64::MAX - 1, u64::MAX];
    for _ in 0..(if thorough { 3000 } else { 250 }) {
        let ret = rets[rng.below(5)];
        let k = rng.range(1, 6);
        let sl: Vec<(PT, bool)> = (0..k)
            .map(|_| {
                let s = rng.below(4);
                let t = match rng.below(3) {
                    0 => PT::Scalar(s),
                    1 => PT::Fixed(s, lens[rng.below(lens.len())]),
                    _ => PT::Var(s),
                };
                (t, rng.chance(1, 2))
            })
            .collect();
        let nm: Vec<&str> = (0..k).map(|_| GOOD_NAMES[rng.below(GOOD_NAMES.len())]).collect();
        let s = build_sig(ret, &sl, &nm);
        sig_case(run, ctx, &s, rng.chance(1, 8));
    }
    all
}

// ---------------------------------------------------------------------------------------------
// free text

fn supported(text: &str) -> bool {
    let bts = text.as_bytes();
    for (k, c) in bts.iter().enumerate() {
        let ok = c.is_ascii_alphanumeric() || b"_-()[],: ".contains(c);
        if !ok {
            return false;
        }
        // a digit run that starts a token must not be followed by a letter, `_` or `.`
        if c.is_ascii_digit() {
            let mut s = k;
            while s > 0 && bts[s - 1].is_ascii_digit() {
                s -= 1;
            }
            let starts_token = s == 0 || !(bts[s - 1].is_ascii_alphanumeric() || bts[s - 1] == b'_');
            // (a dash before the digits may or may not belong to an identifier: be conservative)
            let after_dash = s > 0 && bts[s - 1] == b'-';
            if (starts_token || after_dash) && k + 1 < bts.len() {
                let n = bts[k + 1];
                if n.is_ascii_alphabetic() || n == b'_' || n == b'.' {
                    return false;
                }
            }
        }
    }
    true
}

fn text_case(run: &mut Run, text: &str) {
    if !supported(text) {
        run.count("text:skipped-unsupported");
        return;
    }
    let parsed = qv::catch(|| ExternSignature::from_str(text));
    let parsed = match parsed {
        Ok(p) => p,
        Err(msg) => {
            run.process_failure(&format!("ExternSignature::from_str panicked: {msg}"), text, None);
            return;
        }
    };
    let (c_parsed, kind) = c_presult(&parsed);
    run.count(&format!("text:{kind}"));
    run.case(
        format!("CText {} {}", g::bytes(text.as_bytes()), c_parsed),
        &format!("text {text:?}"),
        true,
        None,
    );
}

fn text_cases(run: &mut Run, rng: &mut Rng, sigs: &[ExternSignature], count: usize) {
    let fixed = [
        "", " ", "    ", "     ", "INTEGER", " INTEGER", "INTEGER ", "INTEGER    ", "INTEGER     ", "()", "( )", "INTEGER ()",
        "INTEGER()", "(a : INTEGER, )", "(a : INTEGER,)", "(, a : INTEGER)", "(a : INTEGER", "a : INTEGER)", "(a INTEGER)",
        "(a : )", "(a : mut)", "(a : mut mut INTEGER)", "(mut : INTEGER)", "(a : INTEGER[])", "(a : INTEGER[ ])",
        "(a : INTEGER [2])", "(a : INTEGER[2 ])", "(a : INTEGER[-2])", "(a : INTEGER[2][3])", "(a : INTEGER[007])",
        "(a : INTEGER[18446744073709551615])", "(a : INTEGER[18446744073709551616])", "(a : INTEGER[99999999999999999999999])",
        "(a : INTEGER[2)", "(a : INTEGER]2[)", "(H : INTEGER)", "(i : INTEGER)", "(pi : REAL)", "(BIT : BIT)", "(a- : BIT)",
        "(a-b : BIT)", "(a--b : BIT)", "(a - b : BIT)", "(-a : BIT)", "(a : BIT, a : BIT)", "(a:BIT,b:mut OCTET[3])",
        "(a  :  BIT)", "(a   :   BIT)", "(a    : BIT)", "BIT BIT", "BIT (a : BIT) BIT", "BIT (a : BIT))", "((a : BIT))",
        "REAL(a : REAL)", "real (a : REAL)", "(a : real)", "(a : Integer)", "(a : MUT BIT)", "(a : mutBIT)", "(a : mut-BIT)",
        "(ADD : BIT)", "(DAGGER : BIT)", "(SET-PHASE : BIT)", "(SET-PHASEx : BIT)", "(SET- : BIT)", "(NONBLOCKING : BIT)",
        "(a : BIT,,b : BIT)", "(a : BIT b : BIT)", "OCTET (a : mut OCTET[2], b_2 : REAL[], c : BIT)", "(a : BIT[1] , b : BIT)",
        "1", "(1 : BIT)", "(a : 1)", "a", "mut", "[]", "[2]", ":", ",", "-", "(a : BIT-)", "(a : BIT[2]-)",
    ];
    for t in fixed {
        text_case(run, t);
    }
    let alphabet: Vec<&str> = vec![
        "(", ")", "[", "]", ",", ":", " ", "  ", "    ", "-", "_", "a", "Z", "1", "0", "mut", "BIT", "REAL", "INTEGER", "OCTET",
        " : ", ", ", "[]", "[2]", "mut ", "H", "pi", "x-y",
    ];
    for _ in 0..count {
        let base = sigs[rng.below(sigs.len())].to_quil().unwrap();
        let mut t: Vec<u8> = base.into_bytes();
        let nmut = rng.range(1, 3);
        for _ in 0..nmut {
            match rng.below(5) {
                0 if !t.is_empty() => {
                    let k = rng.below(t.len());
                    t.remove(k);
                }
                1 if !t.is_empty() => {
                    let k = rng.below(t.len());
                    let c = t[k];
                    t.insert(k, c);
                }
                2 if t.len() >= 2 => {
                    let k = rng.below(t.len() - 1);
                    t.swap(k, k + 1);
                }
                3 if !t.is_empty() => {
                    // delete a span
                    let k = rng.below(t.len());
                    let l = rng.range(1, 4).min(t.len() - k);
                    t.drain(k..k + l);
                }
                _ => {
                    let k = rng.below(t.len() + 1);
                    let ins = alphabet[rng.below(alphabet.len())].as_bytes();
                    for (o, c) in ins.iter().enumerate() {
                        t.insert(k + o, *c);
                    }
                }
            }
        }
        text_case(run, &String::from_utf8(t).unwrap());
    }
}

// ---------------------------------------------------------------------------------------------
// CALL resolution

const REGIONS: [(&str, usize, u64); 5] = [("r1", 3, 1), ("r2", 3, 2), ("n2", 2, 2), ("b1", 0, 1), ("o3", 1, 3)];
const UNDECLARED: &str = "zz";

fn region_id(name: &str) -> u64 {
    if let Some(k) = REGIONS.iter().position(|r| r.0 == name) {
        return k as u64;
    }
    if name == UNDECLARED {
        return 5;
    }
    900 + qv::fnv1a(name) % 100
}

#[derive(Clone, Debug, PartialEq)]
enum GA {
    Ident(usize), // index into REGIONS, 5 = undeclared
    Ref(usize, u64),
    Imm(f64, f64),
}
fn ga_name(k: usize) -> String {
    if k < 5 {
        REGIONS[k].0.to_string()
    } else {
        UNDECLARED.to_string()
    }
}
fn ga_real(a: &GA) -> UnresolvedCallArgument {
    match a {
        GA::Ident(k) => UnresolvedCallArgument::Identifier(ga_name(*k)),
        GA::Ref(k, i) => UnresolvedCallArgument::MemoryReference(MemoryReference::new(ga_name(*k), *i)),
        GA::Imm(re, im) => UnresolvedCallArgument::Immediate(num_complex::Complex64::new(*re, *im)),
    }
}
fn ga_coq(a: &GA) -> String {
    match a {
        GA::Ident(k) => format!("(AIdent {k})"),
        GA::Ref(k, i) => format!("(ARef {k} {i})"),
        GA::Imm(..) => "AImm".to_string(),
    }
}
fn ga_text(a: &GA) -> String {
    match a {
        GA::Ident(k) => ga_name(*k),
        GA::Ref(k, i) => format!("{}[{}]", ga_name(*k), i),
        GA::Imm(re, im) => {
            if *im == 0.0 {
                format!("{re:?}")
            } else {
                format!("{im:?}i")
            }
        }
    }
}

fn c_rerr(e: &CallArgumentResolutionError) -> String {
    match e {
        CallArgumentResolutionError::UndeclaredMemoryReference(n) => format!("(RUndeclared {})", region_id(n)),
        CallArgumentResolutionError::MismatchedVector { .. } => "RMismatchedVector".into(),
        CallArgumentResolutionError::MismatchedScalar { .. } => "RMismatchedScalar".into(),
        CallArgumentResolutionError::InvalidVectorArgument(_) => "RInvalidVectorArgument".into(),
        CallArgumentResolutionError::ReturnArgument { .. } => "RReturnArgument".into(),
        CallArgumentResolutionError::ImmediateArgumentForMutable(_) => "RImmediateForMutable".into(),
    }
}

/// observed result, abstracted
#[derive(Clone, Debug)]
enum Obs {
    Ok(Vec<String>),
    Count(usize, usize),
    Args(Vec<(Option<usize>, String, bool)>), // (None = return | Some(index), error literal, is length-only vector mismatch)
    Other(String),
}

fn observe_call(sig: &ExternSignature, args: &[GA]) -> Obs {
    let mut p = Program::new();
    for (n, t, len) in REGIONS {
        p.add_instruction(Instruction::Declaration(Declaration::new(
            n.to_string(),
            Vector::new(SCALARS[t], len),
            None,
        )));
    }
    p.add_instruction(Instruction::Pragma(Pragma::new(
        "EXTERN".to_string(),
        vec![PragmaArgument::Identifier("ff".to_string())],
        Some(sig.to_quil().unwrap()),
    )));
    let call = Call::try_new("ff".to_string(), args.iter().map(ga_real).collect()).expect("call");
    let map = match p.try_extern_signature_map_from_pragma_map() {
        Ok(m) => m,
        Err((_, e)) => return Obs::Other(format!("signature map: {e}")),
    };
    match call.resolve_arguments(&p.memory_regions, &map) {
        Ok(rs) => Obs::Ok(
            rs.iter()
                .map(|r| match r {
                    ResolvedCallArgument::Vector { memory_region_name, vector, mutable } => format!(
                        "(RVec {} {} {} {})",
                        region_id(memory_region_name),
                        c_scalar(vector.data_type),
                        vector.length,
                        g::boolean(*mutable)
                    ),
                    ResolvedCallArgument::MemoryReference { memory_reference, scalar_type, mutable } => format!(
                        "(RMem {} {} {} {})",
                        region_id(&memory_reference.name),
                        memory_reference.index,
                        c_scalar(*scalar_type),
                        g::boolean(*mutable)
                    ),
                    ResolvedCallArgument::Immediate { scalar_type, .. } => format!("(RImm {})", c_scalar(*scalar_type)),
                })
                .collect(),
        ),
        Err(CallResolutionError::Signature { error: CallSignatureError::ParameterCount { expected, found }, .. }) => {
            Obs::Count(expected, found)
        }
        Err(CallResolutionError::Signature { error: CallSignatureError::Arguments(errs), .. }) => Obs::Args(
            errs.iter()
                .map(|e| {
                    let (idx, inner) = match e {
                        CallArgumentError::Return(inner) => (None, inner),
                        CallArgumentError::Argument { index, error } => (Some(*index), error),
                    };
                    let length_only = matches!(inner,
                        CallArgumentResolutionError::MismatchedVector { expected, found } if expected.data_type == found.data_type);
                    (idx, c_rerr(inner), length_only)
                })
                .collect(),
        ),
        Err(other) => Obs::Other(format!("{other:?}")),
    }
}

fn call_case(run: &mut Run, ctx: &Ctx, sig: &ExternSignature, args: &[GA], tag: &str) {
    let mut obs = observe_call(sig, args);
    // the same CALL through Quil text
    if ctx.mutant == 0 {
        let mut text = String::new();
        for (n, t, len) in REGIONS {
            let ty = ["BIT", "OCTET", "INTEGER", "REAL"][t];
            text.push_str(&format!("DECLARE {n} {ty}[{len}]\n"));
        }
        text.push_str(&format!("PRAGMA EXTERN ff \"{}\"\nCALL ff", sig.to_quil().unwrap()));
        for a in args {
            text.push(' ');
            text.push_str(&ga_text(a));
        }
        text.push('\n');
        match Program::from_str(&text) {
            Ok(p) => {
                let call = p.body_instructions().find_map(|i| match i {
                    Instruction::Call(c) => Some(c.clone()),
                    _ => None,
                });
                let expect = Call::try_new("ff".to_string(), args.iter().map(ga_real).collect()).unwrap();
                if call.as_ref() != Some(&expect) {
                    run.process_failure("CALL parsed from text differs from the constructed CALL", &text, None);
                }
            }
            Err(e) => run.process_failure(&format!("CALL program does not parse: {e}"), &text, None),
        }
    }
    let has_ret = sig.return_type().is_some();
    match ctx.mutant {
        3 => {
            // fixed-length vector slots stop comparing the length
            if let Obs::Args(errs) = &obs {
                let kept: Vec<_> = errs.iter().filter(|e| !e.2).cloned().collect();
                obs = if kept.is_empty() { Obs::Ok(vec![]) } else { Obs::Args(kept) };
            }
        }
        4 => {
            // the fold short-circuits: only the first error is reported
            if let Obs::Args(errs) = &obs {
                obs = Obs::Args(errs[..1].to_vec());
            }
        }
        5 => {
            // argument errors are numbered by argument position, not parameter position
            if let Obs::Args(errs) = &obs {
                if has_ret {
                    obs = Obs::Args(errs.iter().map(|(i, e, l)| (i.map(|k| k + 1), e.clone(), *l)).collect());
                }
            }
        }
        _ => {}
    }
    let (c_obs, kind) = match &obs {
        Obs::Ok(rs) => (format!("(COk {})", g::list(rs)), "ok"),
        Obs::Count(e, f) => (format!("(CCount {e} {f})"), "count"),
        Obs::Args(errs) => (
            format!(
                "(CArgs {})",
                g::list(
                    &errs
                        .iter()
                        .map(|(i, e, _)| match i {
                            None => format!("(CReturn {e})"),
                            Some(k) => format!("(CArg {k} {e})"),
                        })
                        .collect::<Vec<_>>()
                )
            ),
            "args",
        ),
        Obs::Other(msg) => {
            run.process_failure(&format!("unexpected resolution outcome: {msg}"), &sig.to_quil().unwrap(), None);
            return;
        }
    };
    if let Obs::Args(errs) = &obs {
        run.count(&format!("call:errors={}", errs.len().min(4)));
    }
    run.count(&format!("call:{kind}"));
    run.count(&format!("call-gen:{tag}"));
    let decls: Vec<String> = REGIONS
        .iter()
        .enumerate()
        .map(|(k, (_, t, len))| format!("({k}, ({}, {len}))", c_scalar(SCALARS[*t])))
        .collect();
    let c_args: Vec<String> = args.iter().map(ga_coq).collect();
    let desc = format!(
        "call sig {:?} args [{}]",
        sig.to_quil().unwrap(),
        args.iter().map(ga_text).collect::<Vec<_>>().join(" ")
    );
    run.case(
        format!("CCall {} {} {} {}", g::list(&decls), c_sig(sig), g::list(&c_args), c_obs),
        &desc,
        args.len() >= 2,
        None,
    );
}

fn arg_pool() -> Vec<GA> {
    let mut v: Vec<GA> = (0..6).map(GA::Ident).collect();
    for k in 0..6 {
        v.push(GA::Ref(k, 0));
    }
    v.push(GA::Ref(1, 1));
    v.push(GA::Ref(0, 7)); // out of bounds: the resolver does not look at the index
    v.push(GA::Ref(4, 2));
    v.push(GA::Imm(2.0, 0.0));
    v.push(GA::Imm(2.5, 0.0));
    v.push(GA::Imm(0.0, 1.5));
    v
}

/// an argument satisfying the slot's rule, if one exists among the declared regions
fn good_arg(rng: &mut Rng, t: PT, mutable: bool) -> GA {
    let of_type = |s: usize| -> Vec<usize> { (0..5).filter(|k| REGIONS[*k].1 == s).collect() };
    match t {
        PT::Scalar(s) => {
            let c = of_type(s);
            if !mutable && rng.chance(1, 3) {
                GA::Imm(3.0, 0.0)
            } else if rng.chance(1, 2) {
                GA::Ident(c[rng.below(c.len())])
            } else {
                GA::Ref(c[rng.below(c.len())], rng.below(3) as u64)
            }
        }
        PT::Fixed(s, n) => {
            let c: Vec<usize> = of_type(s).into_iter().filter(|k| REGIONS[*k].2 == n).collect();
            if c.is_empty() {
                GA::Ident(of_type(s)[0])
            } else {
                GA::Ident(c[rng.below(c.len())])
            }
        }
        PT::Var(s) => {
            let c = of_type(s);
            GA::Ident(c[rng.below(c.len())])
        }
    }
}

fn call_cases(run: &mut Run, ctx: &Ctx, rng: &mut Rng, count: usize, thorough: bool) {
    let slots = slot_types();
    let pool = arg_pool();
    // lengths 1..3 for fixed vectors so that o3 (OCTET[3]) can match
    let mut slots3 = slots.clone();
    for s in 0..4 {
        slots3.push((PT::Fixed(s, 3), false));
    }
    // exhaustive: every single slot (parameter or return) against every argument of the pool
    for (t, m) in &slots3 {
        let sig = build_sig(None, &[(*t, *m)], &["p"]);
        for a in &pool {
            call_case(run, ctx, &sig, std::slice::from_ref(a), "exh-1slot");
        }
        // arity errors
        call_case(run, ctx, &sig, &[], "exh-arity");
        call_case(run, ctx, &sig, &[pool[0].clone(), pool[1].clone()], "exh-arity");
    }
    for r in 0..4 {
        let sig = build_sig(Some(r), &[], &[]);
        for a in &pool {
            call_case(run, ctx, &sig, std::slice::from_ref(a), "exh-return");
        }
        call_case(run, ctx, &sig, &[], "exh-arity");
    }
    // return + one slot: every pair over a reduced pool
    let small: Vec<GA> = vec![GA::Ident(0), GA::Ident(2), GA::Ident(5), GA::Ref(1, 1), GA::Ref(3, 0), GA::Imm(1.0, 0.0)];
    let rets: &[usize] = if thorough { &[0, 1, 2, 3] } else { &[3] };
    for r in rets.iter().copied() {
        for (t, m) in &slots {
            let sig = build_sig(Some(r), &[(*t, *m)], &["p"]);
            for a in &small {
                for b_ in &small {
                    call_case(run, ctx, &sig, &[a.clone(), b_.clone()], "exh-ret+1");
                }
            }
        }
    }
    // random multi-slot calls, mostly valid
    for _ in 0..count {
        let k = rng.range(1, 4);
        let satisfiable = |t: PT| match t {
            PT::Fixed(s, n) => REGIONS.iter().any(|r| r.1 == s && r.2 == n),
            _ => true,
        };
        let sl: Vec<(PT, bool)> = (0..k)
            .map(|_| {
                let mut c = slots3[rng.below(slots3.len())];
                // prefer slots that some declared region can satisfy (two more draws)
                for _ in 0..2 {
                    if !satisfiable(c.0) {
                        c = slots3[rng.below(slots3.len())];
                    }
                }
                c
            })
            .collect();
        let ret = if rng.chance(1, 2) { Some(rng.below(4)) } else { None };
        let names: Vec<&str> = (0..k).map(|_| GOOD_NAMES[rng.below(GOOD_NAMES.len())]).collect();
        let sig = build_sig(ret, &sl, &names);
        let mut args: Vec<GA> = Vec::new();
        if let Some(r) = ret {
            args.push(if rng.chance(4, 5) { good_arg(rng, PT::Scalar(r), true) } else { pool[rng.below(pool.len())].clone() });
        }
        for (t, m) in &sl {
            args.push(if rng.chance(3, 4) { good_arg(rng, *t, *m) } else { pool[rng.below(pool.len())].clone() });
        }
        match rng.below(12) {
            0 => {
                args.pop();
            }
            1 => args.push(pool[rng.below(pool.len())].clone()),
            2 if ret.is_some() => {
                args.remove(0);
            }
            _ => {}
        }
        call_case(run, ctx, &sig, &args, "random");
    }
}

fn main() {
    let args = Args::parse();
    let mutant: u32 = std::env::var("QV_MUTANT").ok().and_then(|s| s.parse().ok()).unwrap_or(0);
    let ctx = Ctx { mutant };
    let header = "From Coq Require Import List NArith.\nFrom QV Require Import Model.Extern.\nImport ListNotations.\nOpen Scope N_scope.";
    let mut rng = Rng::new(args.seed);
    if let Some(desc) = &args.replay {
        println!("replay: {desc}");
        if let Some(rest) = desc.strip_prefix("text ").or_else(|| desc.strip_prefix("sig ")) {
            let text: String = serde_json::from_str(rest).unwrap_or_else(|_| rest.trim_matches('"').to_string());
            println!("ExternSignature::from_str({text:?}) = {:?}", ExternSignature::from_str(&text));
        } else if let Some(rest) = desc.strip_prefix("name ") {
            let w: String = serde_json::from_str(rest).unwrap_or_else(|_| rest.trim_matches('"').to_string());
            println!(
                "ExternParameter::try_new({w:?}) = {:?}",
                ExternParameter::try_new(w.clone(), false, ExternParameterType::Scalar(ScalarType::Bit))
            );
        } else if let Some(rest) = desc.strip_prefix("call sig ") {
            // call sig "<signature>" args [a b c]
            let (sigtxt, argtxt) = rest.split_once(" args [").expect("call description");
            let sigtxt: String = serde_json::from_str(sigtxt).unwrap_or_else(|_| sigtxt.trim_matches('"').to_string());
            let mut text = String::new();
            for (n, t, len) in REGIONS {
                text.push_str(&format!("DECLARE {n} {}[{len}]\n", ["BIT", "OCTET", "INTEGER", "REAL"][t]));
            }
            text.push_str(&format!("PRAGMA EXTERN ff \"{sigtxt}\"\nCALL ff {}\n", argtxt.trim_end_matches(']')));
            println!("{text}");
            let p = Program::from_str(&text).expect("program");
            let map = p.try_extern_signature_map_from_pragma_map();
            println!("signature map: {map:?}");
            if let Ok(map) = map {
                for i in p.body_instructions() {
                    if let Instruction::Call(c) = i {
                        println!("resolve_arguments = {:?}", c.resolve_arguments(&p.memory_regions, &map));
                    }
                }
            }
        }
        return;
    }
    let mut run = Run::new(&args.out, header, "case", "failing", 600);
    name_cases(&mut run, &ctx);
    let sigs = signature_cases(&mut run, &ctx, &mut rng, args.thorough());
    let n_sig = run.evaluations;
    text_cases(&mut run, &mut rng, &sigs, if args.thorough() { 12000 } else { 1000 });
    let n_text = run.evaluations - n_sig;
    call_cases(&mut run, &ctx, &mut rng, if args.thorough() { 30000 } else { 2000 }, args.thorough());
    let n_call = run.evaluations - n_sig - n_text;
    if mutant != 0 {
        run.note(&format!("QV_MUTANT={mutant}: observed outputs were perturbed on purpose"));
    }
    run.finish(
        "names: every reserved word and case/suffix variants, plus identifier shapes. signatures over return type (none \
         or 4 scalars) x 4 scalar types x {scalar, fixed[1], fixed[2], variable} x mutability: exhaustive for arity \
         0..1 (165), arity 2 exhaustive in the thorough tier (5120) and every fourth pair in the quick tier, arity 3 \
         (163840 signatures in scope) sampled with the seed in both tiers; \
         plus arity 4..6 with extreme lengths; each is printed by the real to_quil and parsed back by the real \
         from_str (a subset also through PRAGMA EXTERN in a parsed program). text: fixed malformed strings plus \
         seeded mutations of printed signatures. calls: 5 declared regions (REAL[1], REAL[2], INTEGER[2], BIT[1], \
         OCTET[3]) + an undeclared name, arguments = identifier | reference | immediate; exhaustive for one slot \
         (every slot type / return type x every argument of the pool) and for return + one slot over a reduced \
         pool, arity errors, plus seeded mostly-valid random calls of 1..4 slots. Distinct by description; \
         non-trivial = signature with parameters / any text / call with >= 2 arguments.",
        true,
        serde_json::json!({"name_and_signature_cases": n_sig, "text_cases": n_text, "call_cases": n_call, "mutant": mutant}),
    );
}
