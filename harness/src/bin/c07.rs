//! C07 — quoted strings survive printing and parsing unchanged.
//!
//! RT cases: a string `s` is placed (through the public API) in every string-bearing position, the
//! instruction is printed with `to_quil()`, re-parsed with `Program::from_str` and
//! `Instruction::from_str`, and the strings recovered are reported next to the printed text.
//! LX cases: arbitrary inputs; the real lexer (hook `verif::lex_debug`) is asked where its first
//! string token ends and what it contains; compared in Coq with `lex_string` of the model.
use indexmap::IndexMap;
use num_complex::Complex64;
use quil_rs::expression::Expression;
use quil_rs::instruction::{
    AttributeValue, Delay, FrameDefinition, FrameIdentifier, Include, Instruction, Pragma, Pulse,
    Qubit, SetPhase, WaveformInvocation,
};
use quil_rs::quil::Quil;
use quil_rs::Program;
use qv::{gallina as g, Args, Rng, Run};
use std::str::FromStr;

const ALPHABET: [&str; 8] = ["\"", "\\", "\n", " ", "#", ";", "a", "é"];
const NPOS: u64 = 7;

fn mutant() -> u32 {
    std::env::var("QV_MUTANT").ok().and_then(|s| s.parse().ok()).unwrap_or(0)
}

fn one() -> Expression {
    Expression::Number(Complex64::new(1.0, 0.0))
}

fn build(pos: u64, s: &str) -> Instruction {
    let q0 = || vec![Qubit::Fixed(0)];
    match pos {
        0 => Instruction::Pragma(Pragma::new("X".into(), vec![], Some(s.to_string()))),
        1 => Instruction::Include(Include::new(s.to_string())),
        2 => Instruction::Pulse(Pulse::new(
            true,
            FrameIdentifier::new(s.to_string(), q0()),
            WaveformInvocation::new("w".into(), IndexMap::new()),
        )),
        3 => {
            // (a DEFFRAME without attributes does not re-parse at all; that is C04's business)
            let mut attrs = IndexMap::new();
            attrs.insert("DIRECTION".to_string(), AttributeValue::String("tx".to_string()));
            Instruction::FrameDefinition(FrameDefinition::new(
                FrameIdentifier::new(s.to_string(), q0()),
                attrs,
            ))
        }
        4 => {
            let mut attrs = IndexMap::new();
            attrs.insert("DIRECTION".to_string(), AttributeValue::String(s.to_string()));
            Instruction::FrameDefinition(FrameDefinition::new(
                FrameIdentifier::new("f".to_string(), q0()),
                attrs,
            ))
        }
        5 => Instruction::Delay(Delay::new(one(), vec![s.to_string(), s.to_string()], q0())),
        _ => Instruction::SetPhase(SetPhase::new(FrameIdentifier::new(s.to_string(), q0()), one())),
    }
}

/// The strings held by an instruction in the position under test.
fn strings_of(pos: u64, i: &Instruction) -> Option<Vec<String>> {
    match (pos, i) {
        (0, Instruction::Pragma(p)) => p.data.clone().map(|d| vec![d]),
        (1, Instruction::Include(inc)) => Some(vec![inc.filename.clone()]),
        (2, Instruction::Pulse(p)) => Some(vec![p.frame.name.clone()]),
        (3, Instruction::FrameDefinition(d)) => Some(vec![d.identifier.name.clone()]),
        (4, Instruction::FrameDefinition(d)) => match d.attributes.get("DIRECTION") {
            Some(AttributeValue::String(v)) => Some(vec![v.clone()]),
            _ => None,
        },
        (5, Instruction::Delay(d)) => Some(d.frame_names.clone()),
        (6, Instruction::SetPhase(p)) => Some(vec![p.frame.name.clone()]),
        _ => None,
    }
}

fn recover(pos: u64, printed: &str) -> Option<Vec<String>> {
    let via_instruction = Instruction::from_str(printed).ok().and_then(|i| strings_of(pos, &i));
    let via_program = Program::from_str(printed).ok().and_then(|p| {
        let instrs = p.to_instructions();
        if instrs.len() == 1 {
            strings_of(pos, &instrs[0])
        } else {
            None
        }
    });
    // both entry points must recover the same thing; a disagreement is reported as a failure
    if via_instruction == via_program {
        via_program
    } else {
        None
    }
}

/// Undo Rust's `{:?}` escaping of a `str`.
fn undebug(s: &str) -> Option<String> {
    let inner = s.strip_prefix('"')?.strip_suffix('"')?;
    let mut out = String::new();
    let mut it = inner.chars();
    while let Some(c) = it.next() {
        if c != '\\' {
            out.push(c);
            continue;
        }
        match it.next()? {
            'n' => out.push('\n'),
            'r' => out.push('\r'),
            't' => out.push('\t'),
            '0' => out.push('\0'),
            '\\' => out.push('\\'),
            '"' => out.push('"'),
            '\'' => out.push('\''),
            'u' => {
                if it.next()? != '{' {
                    return None;
                }
                let mut hex = String::new();
                loop {
                    let h = it.next()?;
                    if h == '}' {
                        break;
                    }
                    hex.push(h);
                }
                out.push(char::from_u32(u32::from_str_radix(&hex, 16).ok()?)?);
            }
            _ => return None,
        }
    }
    Some(out)
}

/// What the real lexer makes of the first string token of `inp`: the number of bytes it spans
/// and its content.  `surrounded` returns at the first closing quote, so the span is the
/// shortest prefix that lexes (to exactly one STRING token).
fn first_string(inp: &str) -> Option<(usize, String)> {
    for k in 1..=inp.len() {
        if !inp.is_char_boundary(k) {
            continue;
        }
        if let Ok(tokens) = quil_rs::verif::lex_debug(&inp[..k]) {
            if tokens.len() == 1 {
                if let Some(body) = tokens[0].strip_prefix("STRING(").and_then(|t| t.strip_suffix(')')) {
                    return undebug(body).map(|s| (k, s));
                }
            }
            return None;
        }
    }
    None
}

/// Mutant 3: a scanner in which a backslash *sets* the escape flag instead of toggling it.
fn first_string_mutant(inp: &str) -> Option<(usize, String)> {
    let b = inp.as_bytes();
    if b.first() != Some(&b'"') {
        return None;
    }
    let mut esc = false;
    for i in 1..b.len() {
        if b[i] == b'\\' {
            esc = true;
        } else if esc {
            esc = false;
        } else if b[i] == b'"' {
            let inner = &inp[1..i];
            return Some((i + 1, inner.replace("\\\"", "\"").replace("\\\\", "\\")));
        }
    }
    None
}

fn lx_case(run: &mut Run, inp: &str, family: &str) {
    let obs = if mutant() == 3 { first_string_mutant(inp) } else { first_string(inp) };
    let o = g::option(obs.as_ref().map(|(k, s)| format!("({}, {})", g::n(*k as u64), g::bytes(s.as_bytes()))));
    let coq = format!("LX ({}, {o})", g::bytes(inp.as_bytes()));
    run.count(&format!("lx:{family}:{}", if obs.is_some() { "string" } else { "error" }));
    let nontrivial = inp.contains('\\') || inp.matches('"').count() >= 2;
    run.case(coq, &format!("lex {:?}", inp), nontrivial, None);
}

/// The constant context the printer puts around the quoted string in each position.
fn context(pos: u64) -> (&'static str, &'static str) {
    match pos {
        0 => ("PRAGMA X ", ""),
        1 => ("INCLUDE ", ""),
        2 => ("PULSE 0 ", " w"),
        3 => ("DEFFRAME 0 ", ":\n    DIRECTION: \"tx\""),
        4 => ("DEFFRAME 0 \"f\":\n    DIRECTION: ", ""),
        5 => ("DELAY 0 ", " 1"),
        _ => ("SET-PHASE 0 ", " 1"),
    }
}

fn rt_case(run: &mut Run, s: &str, delay_fixed: &mut Option<bool>) {
    // (position, quoted text as printed, recovered string)
    let mut obs: Vec<(u64, Vec<u8>, Option<String>)> = Vec::new();
    let mut known: Option<&str> = None;
    for pos in 0..NPOS {
        let instr = build(pos, s);
        let mut printed = instr.to_quil().expect("to_quil");
        if mutant() == 1 && pos == 5 {
            // the DELAY printer writing frame names without escaping
            printed = format!("DELAY 0 \"{s}\" \"{s}\" 1");
        }
        let mut got = recover(pos, &printed);
        if mutant() == 2 {
            // the lexer dropping its second replace pass (backslashes stay doubled)
            got = got.map(|v| v.iter().map(|x| x.replace('\\', "\\\\")).collect());
        }
        if got.is_none() {
            run.count(&format!("rt:pos{pos}:reparse-failed"));
        }
        let (pre, suf) = context(pos);
        // strip the constant context; if it is not there report the whole text as the quoted part
        let quoted: &str = printed
            .strip_prefix(pre)
            .and_then(|t| t.strip_suffix(suf))
            .unwrap_or(&printed);
        if pos == 5 {
            let escaped = format!("{0} {0}", format_quoted(s));
            if quoted != escaped && mutant() == 0 {
                // unfixed tree: DELAY writes the raw name
                *delay_fixed = Some(false);
                // (the fix has landed; a regression is reported as a violation, not as a known class)
                known = None;
            }
            // two frame names separated by one space: split in the middle
            let b = quoted.as_bytes();
            let (q1, q2): (&[u8], &[u8]) = if b.len() % 2 == 1 && b[b.len() / 2] == b' ' {
                (&b[..b.len() / 2], &b[b.len() / 2 + 1..])
            } else {
                (b, b)
            };
            let (g1, g2) = match &got {
                Some(v) if v.len() == 2 => (Some(v[0].clone()), Some(v[1].clone())),
                _ => (None, None),
            };
            obs.push((5, q1.to_vec(), g1));
            obs.push((7, q2.to_vec(), g2));
        } else {
            let g1 = match &got {
                Some(v) if v.len() == 1 => Some(v[0].clone()),
                _ => None,
            };
            obs.push((pos, quoted.as_bytes().to_vec(), g1));
        }
    }
    // group positions with identical observations
    let mut groups: Vec<(Vec<u64>, Vec<u8>, Option<String>)> = Vec::new();
    for (pos, q, r) in obs {
        if let Some(grp) = groups.iter_mut().find(|grp| grp.1 == q && grp.2 == r) {
            grp.0.push(pos);
        } else {
            groups.push((vec![pos], q, r));
        }
    }
    let items: Vec<String> = groups
        .iter()
        .map(|(ps, q, r)| {
            format!(
                "({}%N, {}, {})",
                g::list(&ps.iter().map(|p| p.to_string()).collect::<Vec<_>>()),
                g::bytes(q),
                g::option(r.as_ref().map(|r| g::bytes(r.as_bytes())))
            )
        })
        .collect();
    let coq = format!("RT ({}, {})", g::bytes(s.as_bytes()), g::list(&items));
    run.count(&format!("rt:len={}", s.chars().count()));
    run.count(&format!("rt:groups={}", groups.len()));
    let nontrivial = s.contains('"') || s.contains('\\');
    run.case(coq, &format!("string {:?} in 7 positions", s), nontrivial, known);
}

fn format_quoted(s: &str) -> String {
    let mut o = String::from("\"");
    for c in s.chars() {
        match c {
            '"' => o.push_str("\\\""),
            '\\' => o.push_str("\\\\"),
            c => o.push(c),
        }
    }
    o.push('"');
    o
}

fn words(max: usize, f: &mut dyn FnMut(&str)) {
    fn go(cur: &mut String, left: usize, f: &mut dyn FnMut(&str)) {
        f(cur);
        if left == 0 {
            return;
        }
        for a in ALPHABET {
            let n = cur.len();
            cur.push_str(a);
            go(cur, left - 1, f);
            cur.truncate(n);
        }
    }
    go(&mut String::new(), max, f);
}

fn main() {
    let args = Args::parse();
    let header = "From Coq Require Import List NArith.\nFrom QV Require Import Model.QuotedString.\nImport ListNotations.\nOpen Scope N_scope.";
    let mut run = Run::new(&args.out, header, "case", "failing", 700);
    let max = if args.thorough() { 5 } else { 4 };
    let mut delay_fixed = None;

    // (1) exhaustive round trips
    let mut all = Vec::new();
    words(max, &mut |w| all.push(w.to_string()));
    for s in &all {
        rt_case(&mut run, s, &mut delay_fixed);
    }
    let rt_exhaustive = all.len();

    // (2) exhaustive lexer inputs: a quote followed by any word, and the printed form of every
    // string followed by a second token
    for w in &all {
        lx_case(&mut run, &format!("\"{w}"), "quote+word");
    }
    for s in &all {
        if s.chars().count() <= 3 {
            lx_case(&mut run, &format!("{} \"a\"", format_quoted(s)), "printed+rest");
        }
    }

    // (3) seeded longer strings, biased towards quotes and backslashes
    let mut rng = Rng::new(args.seed);
    let nrand = if args.thorough() { 6000 } else { 1200 };
    for _ in 0..nrand {
        let len = rng.range(max + 1, 24);
        let mut s = String::new();
        for _ in 0..len {
            let a = if rng.chance(3, 5) { ALPHABET[rng.below(2)] } else { ALPHABET[rng.below(8)] };
            s.push_str(a);
        }
        if rng.chance(1, 2) {
            rt_case(&mut run, &s, &mut delay_fixed);
        } else {
            lx_case(&mut run, &format!("\"{s}"), "random");
        }
    }
    if delay_fixed == Some(false) {
        run.note("DELAY prints frame names unescaped on this tree (fix (a) not landed)");
    }
    run.finish(
        "RT: every string over the 8-symbol alphabet {quote, backslash, newline, space, '#', ';', 'a', 'é'} up to the \
         stated length, each placed in 7 string-bearing positions (PRAGMA data, INCLUDE, PULSE frame, DEFFRAME frame, \
         DEFFRAME string attribute, two DELAY frame names, SET-PHASE frame), printed and re-parsed by both \
         Program::from_str and Instruction::from_str; LX: the real lexer's first string token on every word over the \
         alphabet prefixed with a quote, printed strings followed by another token; plus seeded random \
         strings of length up to 24. Distinct by the string / lexer input; non-trivial = contains a quote or backslash.",
        true,
        serde_json::json!({"exhaustive_max_len": max, "rt_exhaustive": rt_exhaustive, "random": nrand, "mutant": mutant()}),
    );
}
