//! C26 — default frame matching follows the Quil-T frame rules.
//!
//! Builds real `Program`s (DEFFRAMEs through `add_instruction`, gates to populate the used-qubit
//! cache), calls the real `DefaultHandler::matching_frames` on real `Instruction` values and prints
//! (frame keys, used qubits, instruction summary, observed used/blocked sets) for Coq.
use indexmap::IndexMap;
use qv::{gallina as g, Args, Rng, Run};
use quil_rs::expression::Expression;
use quil_rs::instruction::{
    Capture, DefaultHandler, Delay, Fence, FrameDefinition, FrameIdentifier, Gate, Instruction,
    InstructionHandler, MemoryReference, Pulse, Qubit, RawCapture, Reset, SetFrequency, SetPhase,
    SetScale, ShiftFrequency, ShiftPhase, SwapPhases, WaveformInvocation,
};
use quil_rs::Program;
use std::str::FromStr;

const NAMES: [&str; 3] = ["rf", "ro", "xy"];

type Fr = (Vec<u64>, usize); // (qubits, name index)

#[derive(Clone, Debug)]
enum FI {
    Play(u8, bool, Fr),
    Delay(Vec<u64>, Vec<usize>),
    Fence(Vec<u64>),
    Reset(Option<u64>),
    Update(u8, Fr),
    Swap(Fr, Fr),
    Other(usize),
}

fn fid(f: &Fr) -> FrameIdentifier {
    FrameIdentifier {
        name: NAMES[f.1].to_string(),
        qubits: f.0.iter().map(|q| Qubit::Fixed(*q)).collect(),
    }
}
fn num(x: f64) -> Expression {
    Expression::Number(num_complex::Complex64::new(x, 0.0))
}
fn qs(v: &[u64]) -> Vec<Qubit> {
    v.iter().map(|q| Qubit::Fixed(*q)).collect()
}

fn others() -> Vec<Instruction> {
    // every Instruction variant that is not frame-related and can be written as Quil text
    let text = r#"
DECLARE ro BIT[2]
DECLARE th REAL[2]
DECLARE n INTEGER[2]
DEFFRAME 0 "rf":
    INITIAL-FREQUENCY: 1.0
DEFGATE G AS PERMUTATION:
    0, 1
DEFCIRCUIT C q:
    X q
DEFCAL X 0:
    NOP
DEFCAL MEASURE 0 addr:
    NOP
DEFWAVEFORM w:
    1.0, 2.0
PRAGMA EXTERN f "INTEGER (x : INTEGER)"
PRAGMA foo
X 0
MEASURE 0 ro[0]
MEASURE 1
ADD n[0] 1
AND ro[0] ro[1]
CALL f n[0] n[1]
EQ ro[0] n[0] n[1]
CONVERT th[0] n[0]
EXCHANGE n[0] n[1]
LABEL @a
JUMP @a
JUMP-WHEN @a ro[0]
JUMP-UNLESS @a ro[0]
LOAD th[0] th n[0]
STORE th n[0] th[1]
MOVE n[0] 1
NEG n[0]
NOP
WAIT
HALT
"#;
    let p = Program::from_str(text).expect("others parse");
    let mut v = p.to_instructions();
    v.push(Instruction::Include(quil_rs::instruction::Include {
        filename: "x.quil".to_string(),
    }));
    v
}

fn concretize(i: &FI, oth: &[Instruction]) -> Instruction {
    let wf = || WaveformInvocation {
        name: "flat".to_string(),
        parameters: IndexMap::new(),
    };
    let mr = || MemoryReference {
        name: "ro".to_string(),
        index: 0,
    };
    match i {
        FI::Play(0, b, f) => Instruction::Pulse(Pulse {
            blocking: *b,
            frame: fid(f),
            waveform: wf(),
        }),
        FI::Play(1, b, f) => Instruction::Capture(Capture {
            blocking: *b,
            frame: fid(f),
            memory_reference: mr(),
            waveform: wf(),
        }),
        FI::Play(_, b, f) => Instruction::RawCapture(RawCapture {
            blocking: *b,
            frame: fid(f),
            duration: num(1.0),
            memory_reference: mr(),
        }),
        FI::Delay(q, n) => Instruction::Delay(Delay {
            duration: num(1.0),
            frame_names: n.iter().map(|k| NAMES[*k].to_string()).collect(),
            qubits: qs(q),
        }),
        FI::Fence(q) => Instruction::Fence(Fence { qubits: qs(q) }),
        FI::Reset(q) => Instruction::Reset(Reset {
            qubit: q.map(Qubit::Fixed),
        }),
        FI::Update(0, f) => Instruction::SetFrequency(SetFrequency {
            frame: fid(f),
            frequency: num(1.0),
        }),
        FI::Update(1, f) => Instruction::SetPhase(SetPhase {
            frame: fid(f),
            phase: num(1.0),
        }),
        FI::Update(2, f) => Instruction::SetScale(SetScale {
            frame: fid(f),
            scale: num(1.0),
        }),
        FI::Update(3, f) => Instruction::ShiftFrequency(ShiftFrequency {
            frame: fid(f),
            frequency: num(1.0),
        }),
        FI::Update(_, f) => Instruction::ShiftPhase(ShiftPhase {
            frame: fid(f),
            phase: num(1.0),
        }),
        FI::Swap(a, b) => Instruction::SwapPhases(SwapPhases {
            frame_1: fid(a),
            frame_2: fid(b),
        }),
        FI::Other(k) => oth[*k].clone(),
    }
}

// ---- Gallina printers -------------------------------------------------------------------------
fn nl(v: &[u64]) -> String {
    g::list(&v.iter().map(|x| x.to_string()).collect::<Vec<_>>())
}
fn fr(f: &Fr) -> String {
    format!("({}, {})", nl(&f.0), f.1)
}
fn frs(v: &[Fr]) -> String {
    g::list(&v.iter().map(fr).collect::<Vec<_>>())
}
fn fi(i: &FI) -> String {
    match i {
        FI::Play(k, b, f) => format!(
            "FPlay {} {} {}",
            ["KPulse", "KCapture", "KRawCapture"][*k as usize],
            g::boolean(*b),
            fr(f)
        ),
        FI::Delay(q, n) => format!(
            "FDelay {} {}",
            nl(q),
            nl(&n.iter().map(|x| *x as u64).collect::<Vec<_>>())
        ),
        FI::Fence(q) => format!("FFence {}", nl(q)),
        FI::Reset(None) => "FReset None".to_string(),
        FI::Reset(Some(q)) => format!("FReset (Some {q})"),
        FI::Update(k, f) => format!(
            "FUpdate {} {}",
            ["KSetFrequency", "KSetPhase", "KSetScale", "KShiftFrequency", "KShiftPhase"][*k as usize],
            fr(f)
        ),
        FI::Swap(a, b) => format!("FSwapPhases {} {}", fr(a), fr(b)),
        FI::Other(_) => "FOther".to_string(),
    }
}

fn abstract_frame(f: &FrameIdentifier) -> Fr {
    let q = f
        .qubits
        .iter()
        .map(|q| match q {
            Qubit::Fixed(n) => *n,
            _ => 999,
        })
        .collect();
    let n = NAMES.iter().position(|x| *x == f.name).unwrap_or(99);
    (q, n)
}

fn shares(a: &[u64], b: &[u64]) -> bool {
    a.iter().any(|x| b.contains(x))
}
fn same_set(a: &[u64], b: &[u64]) -> bool {
    a.iter().all(|x| b.contains(x)) && b.iter().all(|x| a.contains(x))
}

/// QV_MUTANT: perturb the OBSERVED result the way a plausible bug in quil-rs would.
fn mutate(m: u32, keys: &[Fr], i: &FI, obs: Option<(Vec<Fr>, Vec<Fr>)>) -> Option<(Vec<Fr>, Vec<Fr>)> {
    let (mut u, mut b) = obs?;
    match (m, i) {
        // 1: FrameSet::filter forgets `blocked.retain(|f| !used.contains(f))`
        (1, FI::Play(_, true, _)) | (1, FI::Reset(_)) => {
            for f in &u {
                if !b.contains(f) {
                    b.push(f.clone());
                }
            }
        }
        // 2: DELAY built with AnyOfQubits instead of ExactQubits
        (2, FI::Delay(q, n)) => {
            u = keys
                .iter()
                .filter(|f| shares(&f.0, q) && (n.is_empty() || n.contains(&f.1)))
                .cloned()
                .collect();
        }
        // 3: SWAP-PHASES drops its second frame
        (3, FI::Swap(a, _)) => {
            u.retain(|f| f == a);
        }
        // 4: Specific(frame) compares the qubits as a set (ignores order / multiplicity)
        (4, FI::Play(_, _, t)) | (4, FI::Update(_, t)) => {
            let extra: Vec<Fr> = keys
                .iter()
                .filter(|f| f.1 == t.1 && same_set(&f.0, &t.0) && !u.contains(f))
                .cloned()
                .collect();
            for f in extra {
                b.retain(|x| *x != f);
                u.push(f);
            }
        }
        // 5: FENCE with qubits uses frames on exactly those qubits
        (5, FI::Fence(q)) if !q.is_empty() => {
            u.retain(|f| same_set(&f.0, q));
        }
        _ => {}
    }
    u.sort();
    b.sort();
    Some((u, b))
}

struct Ctx {
    run: Run,
    oth: Vec<Instruction>,
    mutant: u32,
}

fn build_program(keys: &[Fr], avail: &[u64]) -> Program {
    let mut p = Program::new();
    for f in keys {
        p.add_instruction(Instruction::FrameDefinition(FrameDefinition {
            identifier: fid(f),
            attributes: IndexMap::new(),
        }));
    }
    for q in avail {
        p.add_instruction(Instruction::Gate(
            Gate::new("X", vec![], vec![Qubit::Fixed(*q)], vec![]).unwrap(),
        ));
    }
    p
}

fn one(ctx: &mut Ctx, program: &Program, keys: &[Fr], avail: &[u64], i: &FI) {
    let instr = concretize(i, &ctx.oth);
    let desc = format!(
        "frames {{{}}} used-qubits {:?} :: {}",
        keys.iter()
            .map(|f| format!(
                "{} \"{}\"",
                f.0.iter().map(|q| q.to_string()).collect::<Vec<_>>().join(" "),
                NAMES[f.1]
            ))
            .collect::<Vec<_>>()
            .join("; "),
        avail,
        quil_rs::quil::Quil::to_quil_or_debug(&instr).replace('\n', " | ")
    );
    let r = qv::catch(std::panic::AssertUnwindSafe(|| {
        DefaultHandler.matching_frames(program, &instr).map(|m| {
            let mut u: Vec<Fr> = m.used.iter().map(|f| abstract_frame(f)).collect();
            let mut b: Vec<Fr> = m.blocked.iter().map(|f| abstract_frame(f)).collect();
            u.sort();
            b.sort();
            (u, b)
        })
    }));
    let obs = match r {
        Ok(o) => o,
        Err(msg) => {
            ctx.run.process_failure(&format!("panic: {msg}"), &desc, None);
            return;
        }
    };
    let obs = if ctx.mutant != 0 { mutate(ctx.mutant, keys, i, obs) } else { obs };
    let kind = match i {
        FI::Play(k, b, _) => format!("{}{}", ["pulse", "capture", "raw-capture"][*k as usize], if *b { "" } else { "-nonblocking" }),
        FI::Delay(_, n) => if n.is_empty() { "delay".into() } else { "delay-names".into() },
        FI::Fence(q) => if q.is_empty() { "fence-all".into() } else { "fence".into() },
        FI::Reset(None) => "reset-all".into(),
        FI::Reset(_) => "reset-qubit".into(),
        FI::Update(k, _) => ["set-frequency", "set-phase", "set-scale", "shift-frequency", "shift-phase"][*k as usize].into(),
        FI::Swap(..) => "swap-phases".into(),
        FI::Other(_) => "other".into(),
    };
    ctx.run.count(&format!("kind={kind}"));
    ctx.run.count(&format!("frames={}", keys.len()));
    let nontrivial = matches!(&obs, Some((u, b)) if !u.is_empty() || !b.is_empty());
    match &obs {
        None => ctx.run.count("result=None"),
        Some((u, b)) => {
            if !b.is_empty() {
                ctx.run.count("result=blocked-nonempty")
            }
            if u.is_empty() && b.is_empty() {
                ctx.run.count("result=both-empty")
            }
            if u.len() > 1 {
                ctx.run.count("result=used>1")
            }
        }
    }
    let o = g::option(obs.map(|(u, b)| format!("({}, {})", frs(&u), frs(&b))));
    let coq = format!("({}, {}, {}, {})", frs(keys), nl(avail), fi(i), o);
    ctx.run.case(coq, &desc, nontrivial, None);
}

fn qubit_lists() -> Vec<Vec<u64>> {
    let mut v: Vec<Vec<u64>> = vec![vec![]];
    for a in 0..3 {
        v.push(vec![a]);
    }
    for a in 0..3 {
        for b in 0..3 {
            v.push(vec![a, b]);
        }
    }
    v
}

fn universe() -> Vec<Fr> {
    let mut v = Vec::new();
    for q in qubit_lists() {
        for n in 0..3 {
            v.push((q.clone(), n));
        }
    }
    v
}

/// every frame-related instruction over the alphabet (SWAP-PHASES pairs: all pairs over
/// `keys` + two undefined frames, plus a fixed spread over the universe)
fn instructions(keys: &[Fr], uni: &[Fr], n_other: usize) -> Vec<FI> {
    let mut v = Vec::new();
    for f in uni {
        for k in 0..3u8 {
            for b in [true, false] {
                v.push(FI::Play(k, b, f.clone()));
            }
        }
        for k in 0..5u8 {
            v.push(FI::Update(k, f.clone()));
        }
    }
    let n = uni.len();
    for (i, f) in uni.iter().enumerate() {
        for j in [i, (i + 1) % n, (i * 7 + 3) % n] {
            v.push(FI::Swap(f.clone(), uni[j].clone()));
        }
    }
    let mut local: Vec<Fr> = keys.to_vec();
    for f in uni.iter().filter(|f| !keys.contains(f)).take(2) {
        local.push(f.clone());
    }
    for a in &local {
        for b in &local {
            v.push(FI::Swap(a.clone(), b.clone()));
        }
    }
    let mut ql = qubit_lists();
    ql.push(vec![0, 1, 2]);
    for q in &ql {
        v.push(FI::Fence(q.clone()));
    }
    let name_lists: Vec<Vec<usize>> = vec![
        vec![],
        vec![0],
        vec![1],
        vec![2],
        vec![0, 1],
        vec![1, 0],
        vec![0, 2],
        vec![1, 2],
        vec![0, 1, 2],
    ];
    for q in &ql {
        for nm in &name_lists {
            v.push(FI::Delay(q.clone(), nm.clone()));
        }
    }
    for q in 0..3 {
        v.push(FI::Reset(Some(q)));
    }
    for k in 0..n_other {
        v.push(FI::Other(k));
    }
    v
}

fn subsets3() -> Vec<Vec<u64>> {
    (0..8u32)
        .map(|m| (0..3u64).filter(|q| m >> q & 1 == 1).collect())
        .collect()
}

/// all instructions against one frame set; `keep` = fraction (num/den) of the generic list to keep
fn sweep(ctx: &mut Ctx, keys: &[Fr], uni: &[Fr], rng: &mut Rng, keep: (usize, usize), salt: usize) {
    let avails = subsets3();
    let progs: Vec<Program> = avails.iter().map(|a| build_program(keys, a)).collect();
    for (a, p) in avails.iter().zip(&progs) {
        // the used-qubit cache must be exactly the gate qubits (DEFFRAME does not contribute)
        let mut got: Vec<u64> = p
            .get_used_qubits()
            .iter()
            .map(|q| if let Qubit::Fixed(n) = q { *n } else { 999 })
            .collect();
        got.sort();
        if &got != a {
            ctx.run.process_failure(
                "used-qubit cache differs from the gate qubits of the program",
                &format!("frames {keys:?} gates on {a:?} -> cache {got:?}"),
                None,
            );
        }
        one(ctx, p, keys, a, &FI::Reset(None));
    }
    let n_other = ctx.oth.len();
    let list = instructions(keys, uni, n_other);
    for (k, i) in list.iter().enumerate() {
        if keep.0 < keep.1 && !rng.chance(keep.0, keep.1) {
            continue;
        }
        let a = (k + salt) % 8;
        one(ctx, &progs[a], keys, &avails[a], i);
    }
}

fn choose(items: &[Fr], k: usize, start: usize, cur: &mut Vec<Fr>, out: &mut Vec<Vec<Fr>>) {
    if cur.len() == k {
        out.push(cur.clone());
        return;
    }
    for i in start..items.len() {
        cur.push(items[i].clone());
        choose(items, k, i + 1, cur, out);
        cur.pop();
    }
}

fn main() {
    let args = Args::parse();
    let mutant: u32 = std::env::var("QV_MUTANT").ok().and_then(|s| s.parse().ok()).unwrap_or(0);
    let header = "From Coq Require Import List NArith.\nFrom QV Require Import Model.Frames.\nImport ListNotations.\nOpen Scope N_scope.";
    let run = Run::new(
        &args.out,
        header,
        "list frame * list N * finstr * option (list frame * list frame)",
        "failing",
        4000,
    );
    let mut ctx = Ctx { run, oth: others(), mutant };
    let uni = universe();
    let mut rng = Rng::new(args.seed);
    let mut nsets = 0usize;

    // (A) every frame set with <= 1 frame over the full universe (39 frames), all instructions
    sweep(&mut ctx, &[], &uni, &mut rng, (1, 1), 0);
    nsets += 1;
    for (k, f) in uni.iter().enumerate() {
        sweep(&mut ctx, &[f.clone()], &uni, &mut rng, (1, 1), k);
        nsets += 1;
    }
    // (B) every frame set with 2..=4 frames over the mini universe {0, 1, 0 1} x {rf, ro}
    let mini: Vec<Fr> = vec![
        (vec![0], 0),
        (vec![0], 1),
        (vec![1], 0),
        (vec![1], 1),
        (vec![0, 1], 0),
        (vec![0, 1], 1),
    ];
    let mut sets = Vec::new();
    for k in 2..=4 {
        choose(&mini, k, 0, &mut Vec::new(), &mut sets);
    }
    let keep_b = if args.thorough() { (1, 1) } else { (1, 3) };
    for (k, s) in sets.iter().enumerate() {
        sweep(&mut ctx, s, &uni, &mut rng, keep_b, k);
        nsets += 1;
    }
    let exhaustive_sets = nsets;
    // (C) thorough: every 2-frame set over the full universe (half of the instruction list each)
    if args.thorough() {
        let mut two = Vec::new();
        choose(&uni, 2, 0, &mut Vec::new(), &mut two);
        for (k, s) in two.iter().enumerate() {
            sweep(&mut ctx, s, &uni, &mut rng, (1, 3), k);
            nsets += 1;
        }
    }
    // (D) seeded random frame sets with 2..=4 (sometimes up to 8) frames over the full universe
    let nrand = if args.thorough() { 300 } else { 40 };
    for k in 0..nrand {
        let size = if rng.chance(1, 6) { rng.range(5, 8) } else { rng.range(2, 4) };
        let mut s: Vec<Fr> = Vec::new();
        // bias towards overlapping qubits / equal names so that blocking and exact matches occur
        let base = rng.pick(&uni).clone();
        while s.len() < size {
            let f = if rng.chance(1, 2) {
                let mut f = rng.pick(&uni).clone();
                if rng.chance(1, 2) {
                    f.1 = base.1;
                }
                f
            } else {
                let mut f = base.clone();
                match rng.below(3) {
                    0 => f.0.reverse(),
                    1 => f.1 = rng.below(3),
                    _ => {
                        f.0 = vec![*rng.pick(&[0u64, 1, 2])];
                    }
                }
                f
            };
            if !s.contains(&f) {
                s.push(f);
            }
        }
        sweep(&mut ctx, &s, &uni, &mut rng, if args.thorough() { (1, 2) } else { (1, 3) }, k);
        nsets += 1;
    }
    ctx.run.finish(
        "a case = (frame set, used-qubit set, one instruction). Frame universe: qubit lists of length 0..2 over \
         {0,1,2} (both orders, duplicates) x names {rf,ro,xy} = 39 frames. Exhaustive part: every frame set with \
         <= 1 frame over the universe x every instruction, and every frame set with 2..4 frames over the mini \
         universe {0; 1; 0 1} x {rf, ro} x (quick: a seeded third of) every instruction; instructions = \
         PULSE/CAPTURE/RAW-CAPTURE x blocking/NONBLOCKING x 39 frames, 5 frame updates x 39 frames, SWAP-PHASES \
         pairs, FENCE/DELAY over 14 qubit lists x 9 name lists, RESET q, RESET (all) under all 8 used-qubit sets, \
         and every non-frame instruction variant; plus seeded random frame sets of 2..8 frames. Non-trivial = \
         the result has a non-empty used or blocked set.",
        true,
        serde_json::json!({"frame_sets": nsets, "exhaustive_frame_sets": exhaustive_sets, "random_frame_sets": nrand, "mutant": mutant}),
    );
}
