//! C12 — expression simplification preserves value.
//!
//! Two oracles per generated expression `e`:
//!  (a) structural: the real `into_simplified()` result is printed next to `e`; inside Coq the
//!      rule-by-rule model (Model/Simplify.v, executed over exact dyadic arithmetic) is run on `e`
//!      and, when the run is exact, compared structurally; the checker `chk_c12` (no pi, no new
//!      variables / memory references) is run on the implementation's result;
//!  (b) numeric (harness side): `e` and `simplify(e)` are evaluated by the implementation at 5
//!      generic assignments and compared with relative tolerance 1e-6 (relative to the largest
//!      intermediate magnitude), only where `e` evaluates to finite values.
#[path = "../exprgen.rs"]
mod exprgen;
use exprgen::*;
use num_complex::Complex64;
use qv::{Args, Rng, Run};
use quil_rs::expression::Expression;
use quil_rs::quil::Quil;
use std::collections::HashMap;
use std::str::FromStr;

const TINY: f64 = 9.094947017729282e-13; // 2^-40

fn sv(re: f64, im: f64) -> String {
    if re.to_bits() == std::f64::consts::PI.to_bits() && im == 0.0 {
        "SPi".to_string()
    } else if dyadic(re).is_some() && dyadic(im).is_some() {
        format!("(SEx {})", gq(re, im))
    } else {
        "SUnk".to_string()
    }
}
fn coq_sv(e: &E) -> String {
    coq_with(e, &|re, im| sv(re, im))
}

struct Assign {
    vars: HashMap<String, Complex64>,
    mem: HashMap<String, Vec<f64>>,
}

fn assignments() -> Vec<Assign> {
    // fixed "generic" values: no special relations, moderate magnitudes, complex variables
    let v: [[(f64, f64); 4]; 5] = [
        [(0.7312, 0.2153), (1.3871, -0.4419), (-0.6127, 0.9173), (2.1417, 0.3331)],
        [(1.9173, 0.0), (0.4519, 0.0), (1.2793, 0.0), (0.8861, 0.0)],
        [(-1.1331, 0.6197), (0.3719, 1.2117), (1.7717, -0.2713), (-0.5519, -0.7331)],
        [(0.2917, -1.4713), (-2.3119, 0.1171), (0.9471, 0.5393), (1.6131, -1.0917)],
        [(3.1117, 0.4471), (0.6713, -0.8191), (-1.4419, -0.3137), (0.3973, 1.9171)],
    ];
    let m: [[[f64; 3]; 3]; 5] = [
        [[0.8173, -1.2931, 2.4471], [1.5519, 0.3371, -0.7719], [-0.4417, 1.1931, 0.6173]],
        [[1.3717, 0.7193, 0.2931], [0.9413, 2.1171, 1.4419], [0.5171, 0.3793, 1.8137]],
        [[-0.9371, 1.6173, -0.3919], [2.2713, -0.5931, 0.8117], [1.0931, -1.7713, 0.4471]],
        [[0.4193, -0.8371, 1.9713], [-1.3171, 0.6917, -2.0931], [0.7371, 1.4193, -0.2917]],
        [[2.7131, 0.3197, -1.1713], [0.5931, -1.9371, 0.9713], [-0.6719, 0.8931, 1.3371]],
    ];
    (0..5)
        .map(|k| Assign {
            vars: (0..4)
                .map(|i| (VAR_NAMES[i].to_string(), Complex64::new(v[k][i].0, v[k][i].1)))
                .collect(),
            mem: (0..3).map(|i| (REGION_NAMES[i].to_string(), m[k][i].to_vec())).collect(),
        })
        .collect()
}

fn tight_assignments() -> Vec<Assign> {
    let mk = |scale: f64| Assign {
        vars: [(0.7312, 0.2153), (1.3871, -0.4419), (-0.6127, 0.9173), (2.1417, 0.3331)]
            .iter()
            .enumerate()
            .map(|(i, (re, im))| (VAR_NAMES[i].to_string(), Complex64::new(re * scale, im * scale)))
            .collect(),
        mem: [[0.8173, -1.2931, 2.4471], [1.5519, 0.3371, -0.7719], [-0.4417, 1.1931, 0.6173]]
            .iter()
            .enumerate()
            .map(|(i, c)| (REGION_NAMES[i].to_string(), c.iter().map(|v| v * scale).collect()))
            .collect(),
    };
    vec![mk(1.0), mk(1e6)]
}

fn finite(c: Complex64) -> bool {
    c.re.is_finite() && c.im.is_finite()
}

/// Largest magnitude among the values of all subterms (None if some subterm is not finite).
fn scale_of(e: &E, a: &Assign) -> Option<f64> {
    let mut subs = Vec::new();
    e.subterms(&mut subs);
    let mut scale: f64 = 1.0;
    for s in subs {
        match to_impl(s).evaluate(&a.vars, &a.mem) {
            Ok(v) if finite(v) => scale = scale.max(v.norm()),
            _ => return None,
        }
    }
    Some(scale)
}

/// `Expression::evaluate` re-implemented with every negative zero replaced by +0.0 after each
/// step (same formulas as calculate_infix / calculate_function).  Used only to *classify* a
/// numeric mismatch: if it disappears under this evaluation it is caused by the sign of a zero
/// (branch cut of sqrt / ln), known finding signed-zero-branch-cut.
fn eval_clean(e: &E, a: &Assign) -> Complex64 {
    fn cz(c: Complex64) -> Complex64 {
        Complex64::new(if c.re == 0.0 { 0.0 } else { c.re }, if c.im == 0.0 { 0.0 } else { c.im })
    }
    let v = match e {
        E::Num(re, im) => Complex64::new(*re, *im),
        E::Pi => Complex64::new(std::f64::consts::PI, 0.0),
        E::Var(x) => a.vars[VAR_NAMES[*x]],
        E::Addr(n, i) => Complex64::new(a.mem[REGION_NAMES[*n]][*i as usize], 0.0),
        E::Fn(f, x) => {
            let v = eval_clean(x, a);
            match f {
                F::Sin => v.sin(),
                F::Cos => v.cos(),
                F::Exp => v.exp(),
                F::Sqrt => v.sqrt(),
                F::Cis => v.cos() + Complex64::new(0.0, 1.0) * v.sin(),
            }
        }
        E::Prefix(m, x) => {
            let v = eval_clean(x, a);
            if *m { -v } else { v }
        }
        E::Infix(l, o, r) => {
            let (x, y) = (eval_clean(l, a), eval_clean(r, a));
            match o {
                Op::Caret => x.powc(y),
                Op::Plus => x + y,
                Op::Minus => x - y,
                Op::Slash => x / y,
                Op::Star => x * y,
            }
        }
    };
    cz(v)
}

/// Some sqrt argument or power base lies on the negative real axis (imaginary part +0 or -0)
/// at this assignment: the only place where the sign of a zero changes a value discontinuously.
fn on_branch_cut(e: &E, a: &Assign) -> bool {
    let mut subs = Vec::new();
    e.subterms(&mut subs);
    subs.iter().any(|s| {
        let t = match s {
            E::Fn(F::Sqrt, t) => t,
            E::Infix(t, Op::Caret, _) => t,
            _ => return false,
        };
        matches!(to_impl(t).evaluate(&a.vars, &a.mem), Ok(v) if v.im == 0.0 && v.re < 0.0)
    })
}

#[allow(dead_code)]
fn count_nodes(e: &E, p: &dyn Fn(&E) -> bool) -> usize {
    let mut subs = Vec::new();
    e.subterms(&mut subs);
    subs.into_iter().filter(|s| p(s)).count()
}

fn near_tolerance(c: Complex64) -> bool {
    let n0 = c.norm();
    let n1 = (c - 1.0).norm();
    (n0 > 0.0 && n0 < 1e-10) || (n1 > 0.0 && n1 < 1e-10)
}

/// Known-finding classes, decided on the input alone.
fn known_class(e: &E, asg: &[Assign]) -> Option<&'static str> {
    // tolerant-zero: a literal or a closed (constant) subterm within 1e-10 of 0 or 1 but not equal
    let empty_v: HashMap<String, Complex64> = HashMap::new();
    let empty_m: HashMap<String, Vec<f64>> = HashMap::new();
    let mut subs = Vec::new();
    e.subterms(&mut subs);
    for s in &subs {
        if let Ok(v) = to_impl(s).evaluate(&empty_v, &empty_m) {
            if finite(v) && near_tolerance(v) {
                return Some("tolerant-zero");
            }
        }
    }
    // zero-base-power: some power whose base evaluates to (tolerantly) zero and whose exponent
    // evaluates to zero under a generic assignment
    for s in &subs {
        if let E::Infix(b, Op::Caret, x) = s {
            for a in asg {
                let bv = to_impl(b).evaluate(&a.vars, &a.mem);
                let xv = to_impl(x).evaluate(&a.vars, &a.mem);
                if let (Ok(bv), Ok(xv)) = (bv, xv) {
                    if bv.norm() < 1e-10 && xv.norm() < 1e-10 {
                        return Some("zero-base-power");
                    }
                }
            }
        }
    }
    None
}

fn mutate(out: E, input: &E, mutant: u32) -> E {
    match mutant {
        // 1: the pre-a7df0c4 bug: a/(-b) is rebuilt as a*(-b)
        1 => {
            fn go(e: &E) -> E {
                match e {
                    E::Infix(l, Op::Slash, r) if matches!(**r, E::Prefix(true, _)) => {
                        E::infix(go(l), Op::Star, go(r))
                    }
                    E::Infix(l, o, r) => E::infix(go(l), *o, go(r)),
                    E::Fn(f, a) => E::fnc(*f, go(a)),
                    E::Prefix(m, a) => E::Prefix(*m, Box::new(go(a))),
                    _ => e.clone(),
                }
            }
            go(&out)
        }
        // 2: swapped operand order when a product is rebuilt (value-preserving, structure differs)
        2 => match &out {
            E::Infix(l, Op::Star, r) if !matches!(**l, E::Num(..)) && !matches!(**r, E::Num(..)) => {
                E::infix((**r).clone(), Op::Star, (**l).clone())
            }
            _ => out,
        },
        // 3: a/(-a) = (-a)/a yields +1 instead of -1
        3 => match &out {
            E::Num(re, im) if *re == -1.0 && *im == 0.0 && input.any(&|s| matches!(s, E::Infix(_, Op::Slash, _))) => {
                E::Num(1.0, 0.0)
            }
            _ => out,
        },
        // 4: the symbol pi is returned unsimplified
        4 => match &out {
            E::Num(re, im) if re.to_bits() == std::f64::consts::PI.to_bits() && *im == 0.0 => E::Pi,
            _ => out,
        },
        _ => out,
    }
}

struct Ctx {
    asg: Vec<Assign>,
    /// two assignments for the tolerance-boundary stream: magnitudes ~1 and ~1e6
    tight_asg: Vec<Assign>,
    mutant: u32,
}

fn run_case(run: &mut Run, ctx: &Ctx, e: &E, stream: &str) {
    run_case_mode(run, ctx, e, stream, 0, true)
}

/// `tight`: numeric oracle at the magnitude-1 / magnitude-1e6 assignments with tolerance
/// 1e-12 x (largest intermediate magnitude), so that a relative change of 1e-9 in one operand is
/// seen.  `structural`: also emit the Coq case (pointless for literals that are not small dyadics).
/// `oracle`: 0 = generic assignments, tolerance 1e-6 x largest intermediate magnitude; 1 = tight (above);
/// 2 = constant folding: generic assignments, tolerance 1e-9 relative to the value of the input itself.
fn run_case_mode(run: &mut Run, ctx: &Ctx, e: &E, stream: &str, oracle: u8, structural: bool) {
    let tight = oracle == 1;
    let ex = to_impl(e);
    let simplified = match qv::catch(move || ex.into_simplified()) {
        Ok(s) => s,
        Err(msg) => {
            run.process_failure(&format!("simplify panicked: {msg}"), &show(e), None);
            return;
        }
    };
    let out = mutate(from_impl(&simplified), e, ctx.mutant);
    let out_impl = to_impl(&out);
    let known = known_class(e, &ctx.asg);

    // (b) numeric oracle
    let mut compared = 0;
    let (asg, rel) = if tight { (&ctx.tight_asg, 1e-12) } else { (&ctx.asg, 1e-6) };
    for (k, a) in asg.iter().enumerate() {
        let Some(scale) = scale_of(e, a) else { continue };
        let tol = if oracle == 2 {
            1e-9 * to_impl(e).evaluate(&a.vars, &a.mem).map(|v| v.norm()).unwrap_or(0.0).max(1e-300)
        } else {
            rel * scale
        };
        let v0 = to_impl(e).evaluate(&a.vars, &a.mem).expect("complete assignment");
        compared += 1;
        let ok = match out_impl.evaluate(&a.vars, &a.mem) {
            Ok(v1) => finite(v1) && (v1 - v0).norm() <= tol,
            Err(_) => false,
        };
        if !ok {
            let v1 = out_impl.evaluate(&a.vars, &a.mem);
            let (c0, c1) = (eval_clean(e, a), eval_clean(&out, a));
            let signed_zero = (finite(c0) && finite(c1) && (c1 - c0).norm() <= tol)
                || on_branch_cut(e, a)
                || on_branch_cut(&out, a);
            let known = if signed_zero && known.is_none() { Some("signed-zero-branch-cut") } else { known };
            run.process_failure(
                &format!(
                    "simplification changed the value: {} simplifies to {} ; at assignment #{k}{} the input evaluates to {v0} and the result to {v1:?}",
                    to_impl(e).to_quil_or_debug(),
                    out_impl.to_quil_or_debug(),
                    if tight { " (tolerance stream)" } else { "" }
                ),
                &show(e),
                known,
            );
            run.count("numeric-mismatch");
            break;
        }
    }
    run.count(if compared > 0 { "numeric=compared" } else { "numeric=not-finite" });

    run.count(&format!("stream={stream}"));
    if !structural {
        run.count("numeric-only");
        return;
    }
    // (a) structural case
    let lit = format!("({}, {})", coq_sv(e), coq_sv(&out));
    let changed = out != *e;
    run.count(&format!("size={}", e.size().min(16)));
    run.count(if changed { "simplified=changed" } else { "simplified=unchanged" });
    run.count(if out.any(&|s| matches!(s, E::Num(re, im) if sv(*re, *im) == "SUnk")) {
        "impl-result=has-inexact-number"
    } else {
        "impl-result=exact"
    });
    run.case(lit, &show(e), changed, known);
}

fn parse_shown(_s: &str) -> Option<E> {
    None
}

// ---------------------------------------------------------------------------------------------
// Rule-directed stream: the left-hand side of every arm of `simplify_infix` / `simplify_prefix` /
// `simplify_function_call` (and close neighbours), with metavariables `Var(100 + k)`, in every
// operand ordering of its commutative nodes, under many bindings, bare and under one more operator.

fn mv(k: usize) -> E {
    E::Var(100 + k)
}
fn meta_count(e: &E) -> usize {
    let mut vs = Vec::new();
    e.vars(&mut vs);
    vs.iter().filter(|v| **v >= 100).map(|v| v - 99).max().unwrap_or(0)
}
fn subst_meta(e: &E, b: &[E]) -> E {
    match e {
        E::Var(x) if *x >= 100 => b[*x - 100].clone(),
        E::Fn(f, a) => E::fnc(*f, subst_meta(a, b)),
        E::Prefix(m, a) => E::Prefix(*m, Box::new(subst_meta(a, b))),
        E::Infix(l, o, r) => E::infix(subst_meta(l, b), *o, subst_meta(r, b)),
        _ => e.clone(),
    }
}
/// every variant obtained by swapping the operands of commutative (+, *) nodes independently
fn swap_variants(e: &E) -> Vec<E> {
    match e {
        E::Fn(f, a) => swap_variants(a).into_iter().map(|x| E::fnc(*f, x)).collect(),
        E::Prefix(m, a) => swap_variants(a).into_iter().map(|x| E::Prefix(*m, Box::new(x))).collect(),
        E::Infix(l, o, r) => {
            let (ls, rs) = (swap_variants(l), swap_variants(r));
            let mut out = Vec::new();
            for a in &ls {
                for b in &rs {
                    out.push(E::infix(a.clone(), *o, b.clone()));
                    if matches!(o, Op::Plus | Op::Star) && a != b {
                        out.push(E::infix(b.clone(), *o, a.clone()));
                    }
                }
            }
            out
        }
        _ => vec![e.clone()],
    }
}
fn rule_patterns() -> Vec<E> {
    use Op::*;
    let (a, b, c, d, x) = (|| mv(0), || mv(1), || mv(2), || mv(3), || mv(4));
    let n = |v: f64| E::Num(v, 0.0);
    let i = E::infix;
    let mut p = vec![
        // constant folding and cancellation
        i(n(0.0), Plus, a()), i(n(0.0), Minus, a()), i(a(), Minus, n(0.0)), i(a(), Minus, a()),
        i(n(0.0), Star, a()), i(n(1.0), Star, a()), i(n(0.0), Slash, a()), i(a(), Slash, n(0.0)),
        i(a(), Slash, n(1.0)), i(a(), Slash, a()), i(n(0.0), Caret, a()), i(a(), Caret, n(0.0)),
        i(n(1.0), Caret, a()), i(a(), Caret, n(1.0)), i(a(), Caret, b()),
        i(a(), Plus, b()), i(a(), Minus, b()), i(a(), Star, b()), i(a(), Slash, b()),
        // prefix and functions
        E::neg(E::neg(a())), E::neg(a()), E::pos(a()), E::neg(E::pos(E::neg(a()))),
        E::fnc(F::Sin, a()), E::fnc(F::Cos, a()), E::fnc(F::Exp, a()), E::fnc(F::Sqrt, a()), E::fnc(F::Cis, a()),
        // negation in subexpressions
        i(a(), Plus, E::neg(b())), i(a(), Minus, E::neg(b())), i(E::neg(a()), Minus, b()),
        i(E::neg(a()), Star, E::neg(b())), i(E::neg(a()), Slash, E::neg(b())),
        i(a(), Slash, E::neg(a())), i(E::neg(a()), Slash, a()),
        i(a(), Star, E::neg(b())), i(a(), Slash, E::neg(b())), i(E::neg(a()), Slash, b()),
        // affine
        i(i(i(a(), Star, x()), Plus, b()), Plus, i(i(c(), Star, x()), Plus, d())),
        i(i(a(), Star, x()), Plus, i(c(), Star, x())),
        i(i(x(), Plus, b()), Plus, i(x(), Plus, d())),
        i(i(a(), Star, x()), Plus, i(i(c(), Star, x()), Plus, d())),
        i(i(a(), Star, x()), Minus, i(c(), Star, x())),
        // association
        i(a(), Plus, i(b(), Plus, c())), i(a(), Star, i(b(), Star, c())),
        i(a(), Minus, i(b(), Minus, c())), i(a(), Slash, i(b(), Slash, c())),
        i(i(a(), Minus, b()), Minus, c()), i(i(a(), Slash, b()), Slash, c()),
        i(i(a(), Plus, b()), Minus, c()), i(i(a(), Minus, b()), Plus, c()), i(a(), Minus, i(b(), Plus, c())),
        i(a(), Plus, i(b(), Minus, c())), i(i(a(), Slash, b()), Star, c()), i(a(), Star, i(b(), Slash, c())),
        i(i(a(), Minus, b()), Minus, i(c(), Minus, d())), i(i(a(), Slash, b()), Slash, i(c(), Slash, d())),
        // distribution
        i(a(), Star, i(b(), Plus, c())), i(a(), Star, i(b(), Minus, c())), i(i(a(), Plus, b()), Slash, c()),
        // products and quotients
        i(i(a(), Star, b()), Slash, a()), i(a(), Slash, i(a(), Star, b())),
        i(i(a(), Star, b()), Slash, c()), i(a(), Slash, i(b(), Star, c())),
        i(i(b(), Slash, a()), Star, a()), i(i(a(), Star, b()), Slash, i(a(), Star, c())),
        i(i(a(), Star, b()), Slash, i(c(), Star, d())),
        // powers
        i(i(a(), Caret, b()), Caret, c()), i(a(), Caret, i(b(), Plus, c())), i(i(a(), Star, b()), Caret, c()),
    ];
    // mirror images of the non-commutative two-level patterns are listed explicitly above; the
    // commutative orderings are generated
    let mut all = Vec::new();
    for pat in p.drain(..) {
        for v in swap_variants(&pat) {
            if !all.contains(&v) {
                all.push(v);
            }
        }
    }
    all
}
fn rule_bindings(k: usize) -> Vec<Vec<E>> {
    let n = |v: f64| E::Num(v, 0.0);
    let (x, y, m) = (E::Var(0), E::Var(1), E::Addr(0, 0));
    let base: Vec<E> = vec![x.clone(), y.clone(), m.clone(), n(2.0), n(0.5)];
    let mut out: Vec<Vec<E>> = Vec::new();
    let mut push = |b: Vec<E>| {
        if !out.contains(&b) {
            out.push(b)
        }
    };
    for r in 0..3 {
        push((0..k).map(|j| base[(j + r) % 5].clone()).collect());
    }
    push(vec![n(2.0), n(0.5), n(-1.0), x.clone(), y.clone()][..k].to_vec());
    push(vec![x.clone(), n(2.0), y.clone(), n(-1.0), n(0.5)][..k].to_vec());
    let b0: Vec<E> = base[..k].to_vec();
    let alts = vec![n(0.0), n(1.0), n(-1.0), n(2.0), x.clone(), y.clone()];
    let comps = vec![
        E::infix(y.clone(), Op::Plus, n(1.0)),
        E::infix(n(2.0), Op::Star, x.clone()),
        E::neg(y.clone()),
        E::fnc(F::Sin, y.clone()),
        E::infix(x.clone(), Op::Slash, n(2.0)),
    ];
    for j in 0..k {
        for alt in alts.iter().chain(comps.iter()) {
            let mut b = b0.clone();
            b[j] = alt.clone();
            push(b);
        }
        for j2 in 0..j {
            let mut b = b0.clone();
            b[j] = b0[j2].clone();
            push(b);
        }
    }
    out
}
fn rule_wrappers() -> Vec<Box<dyn Fn(E) -> E>> {
    vec![
        Box::new(|e| E::neg(e)),
        Box::new(|e| E::infix(e, Op::Plus, E::Var(1))),
        Box::new(|e| E::infix(E::Num(2.0, 0.0), Op::Star, e)),
        Box::new(|e| E::infix(e, Op::Slash, E::Var(0))),
        Box::new(|e| E::infix(E::Var(1), Op::Minus, e)),
        Box::new(|e| E::fnc(F::Cos, e)),
        Box::new(|e| E::infix(e.clone(), Op::Minus, e)),
        Box::new(|e| E::infix(e, Op::Caret, E::Num(1.0, 0.0))),
    ]
}

fn main() {
    let args = Args::parse();
    if let Some(r) = &args.replay {
        // replay: accepts Quil expression text (or the description up to names)
        let _ = parse_shown(r);
        match Expression::from_str(r) {
            Ok(e) => {
                let s = e.clone().into_simplified();
                println!("{}  ==>  {}", e.to_quil_or_debug(), s.to_quil_or_debug());
                for (k, a) in assignments().iter().enumerate() {
                    println!("  #{k}: {:?}  vs  {:?}", e.evaluate(&a.vars, &a.mem), s.evaluate(&a.vars, &a.mem));
                }
            }
            Err(err) => println!("(not Quil text: {err}) case description: {r}"),
        }
        return;
    }
    let ctx = Ctx { asg: assignments(), tight_asg: tight_assignments(), mutant: exprgen::mutant() };
    let header = "From Coq Require Import List NArith ZArith QArith.\nFrom QV Require Import Model.Expr Model.ExactNum Model.Simplify Model.SimplifyExec.\nImport ListNotations.\nOpen Scope N_scope.";
    let mut run = Run::new(&args.out, header, "c12case", "failing", 500);

    // regression corpus: witnesses of the findings (past and present)
    let x = || E::Var(0);
    let y = || E::Var(1);
    let n = |v: f64| E::Num(v, 0.0);
    let corpus = vec![
        E::infix(E::infix(x(), Op::Minus, y()), Op::Minus, y()), // left-assoc-inverse (fixed by 457ee28)
        E::infix(E::infix(x(), Op::Slash, n(2.0)), Op::Slash, n(4.0)),
        E::infix(E::infix(x(), Op::Slash, y()), Op::Slash, y()),
        E::infix(n(-2.0), Op::Slash, E::infix(y(), Op::Star, y())),
        E::infix(E::infix(n(1.0), Op::Plus, y()), Op::Slash, E::infix(y(), Op::Star, y())),
        E::infix(x(), Op::Slash, E::neg(y())), // c12-div-neg (fixed by a7df0c4)
        E::infix(E::neg(x()), Op::Slash, y()),
        E::infix(n(0.0), Op::Caret, n(0.0)), // zero-base-power
        E::infix(n(0.0), Op::Caret, E::infix(x(), Op::Minus, x())),
        E::infix(n(TINY), Op::Star, x()), // tolerant-zero
        E::infix(x(), Op::Star, n(1.0 + TINY)),
    ];
    let mut corpus = corpus;
    // pi-survives-limit (fixed by 7232075): nine times 0+(...) around (%x*pi)/%x
    let mut deep = E::infix(E::infix(x(), Op::Star, E::Pi), Op::Slash, x());
    for _ in 0..9 {
        deep = E::infix(n(0.0), Op::Plus, deep);
    }
    corpus.push(deep);
    for e in &corpus {
        run_case(&mut run, &ctx, e, "corpus");
    }

    // (1) exhaustive small scope: depth <= 2 over 7 leaves x all operators / functions
    let al = Alphabet {
        leaves: vec![n(0.0), n(1.0), n(2.0), n(-0.5), x(), y(), E::Addr(0, 0)],
        unary: vec![U::Fn(F::Cis), U::Fn(F::Cos), U::Fn(F::Exp), U::Fn(F::Sin), U::Fn(F::Sqrt), U::Neg, U::Pos],
        binary: ALL_OP.to_vec(),
    };
    let full_nodes = if args.thorough() { 7 } else { 4 };
    let small = enumerate(&al, 2, full_nodes);
    let nsmall = small.len();
    for e in &small {
        run_case(&mut run, &ctx, e, "exhaustive");
    }
    let mut rng = Rng::new(args.seed);
    let mut sampled_d2 = 0;
    if !args.thorough() {
        // the rest of depth 2 (5..7 nodes): seeded sample
        let d1 = enumerate(&al, 1, 3);
        for _ in 0..2500 {
            let o = *rng.pick(&al.binary);
            let l = rng.pick(&d1).clone();
            let r = if rng.chance(1, 8) { l.clone() } else { rng.pick(&d1).clone() };
            let e = E::infix(l, o, r);
            if e.size() > full_nodes {
                sampled_d2 += 1;
                run_case(&mut run, &ctx, &e, "depth2-sample");
            }
        }
    }
    // (1b) rule-directed: every rule's left-hand side, every commutative ordering, many bindings
    let pats = rule_patterns();
    let wraps = rule_wrappers();
    let mut nrule = 0u64;
    for pat in &pats {
        let k = meta_count(pat);
        for b in rule_bindings(k.max(1)) {
            let e = subst_meta(pat, &b);
            run_case(&mut run, &ctx, &e, "rule-directed");
            nrule += 1;
            // the same instance under one more operator (every case in thorough, every other in quick)
            if args.thorough() || rng.chance(1, 2) {
                let w = &wraps[rng.below(wraps.len())];
                run_case(&mut run, &ctx, &w(e), "rule-directed-embedded");
                nrule += 1;
            }
        }
    }
    // (2) random depth <= 5, biased towards the operators with rewrite rules
    let big = Alphabet {
        leaves: vec![
            n(0.0), n(1.0), n(2.0), n(-0.5), n(3.0), n(0.25), n(-1.0), E::Num(0.5, -1.5), E::Pi,
            x(), y(), E::Var(2), E::Addr(0, 0), E::Addr(1, 1), x(), y(),
        ],
        unary: vec![U::Neg, U::Neg, U::Neg, U::Pos, U::Fn(F::Sin), U::Fn(F::Cos), U::Fn(F::Sqrt), U::Fn(F::Exp), U::Fn(F::Cis)],
        binary: vec![Op::Plus, Op::Plus, Op::Minus, Op::Star, Op::Star, Op::Slash, Op::Plus, Op::Star, Op::Minus, Op::Slash, Op::Caret],
    };
    let nrand = if args.thorough() { 40000 } else { 2500 };
    for _ in 0..nrand {
        let d = rng.range(3, 5);
        let e = random(&big, &mut rng, d);
        run_case(&mut run, &ctx, &e, "random");
    }
    // (2b) deep chains (depth 7..13) around a small core: the limit runs out inside the tree
    let wrappers: Vec<Box<dyn Fn(E) -> E>> = vec![
        Box::new(|e| E::infix(E::Num(0.0, 0.0), Op::Plus, e)),
        Box::new(|e| E::infix(e, Op::Star, E::Num(1.0, 0.0))),
        Box::new(|e| E::neg(e)),
        Box::new(|e| E::pos(e)),
        Box::new(|e| E::fnc(F::Sin, e)),
        Box::new(|e| E::infix(e, Op::Plus, E::Var(1))),
        Box::new(|e| E::infix(E::Num(2.0, 0.0), Op::Star, e)),
        Box::new(|e| E::infix(e, Op::Minus, E::Num(0.5, 0.0))),
    ];
    let ndeep = if args.thorough() { 3000 } else { 400 };
    for _ in 0..ndeep {
        let mut e = random(&big, &mut rng, 2);
        let k = rng.range(6, 11);
        for _ in 0..k {
            let w = &wrappers[rng.below(wrappers.len())];
            e = w(e);
        }
        run_case(&mut run, &ctx, &e, "deep");
    }
    // (3) literals close to the tolerance of is_zero / is_one (known finding tolerant-zero)
    let tol = Alphabet {
        leaves: vec![n(TINY), n(1.0 + TINY), n(-TINY), x(), y(), n(2.0)],
        unary: vec![U::Neg],
        binary: vec![Op::Plus, Op::Minus, Op::Star, Op::Slash, Op::Caret],
    };
    let tol_cases = enumerate(&tol, 1, 3);
    for e in &tol_cases {
        run_case(&mut run, &ctx, e, "tolerance");
    }
    // (4) tolerance-boundary stream: constants c, 1+-c, -1-c around the thresholds of is_zero / is_one
    // in every operand position where they are consulted.  Dyadic magnitudes are also compared
    // structurally (the executed model has the code's thresholds); decimal ones numerically only.
    let p2 = |k: i32| (2f64).powi(k);
    let dyadic_mags = [
        p2(-40), p2(-36), p2(-34), p2(-33), p2(-32), p2(-30), p2(-27), p2(-23), p2(-20), p2(-19),
        3.0 * p2(-20), p2(-18), p2(-17), p2(-13), p2(-10),
    ];
    let decimal_mags = [
        1e-12, 9e-11, 1.0000001e-10, 2e-10, 1e-9, 1e-8, 1e-7, 1e-6, 2e-6, 3e-6, 3.3e-6, 1e-5, 1e-4, 1e-3,
    ];
    let mut ntol = 0u64;
    for (mags, structural) in [(&dyadic_mags[..], true), (&decimal_mags[..], false)] {
        for &c in mags {
            // real, negative real, imaginary, two-part (norm ~ 0.99 c: norm vs norm_sqr matters)
            let h = if structural { c * 0.6875 } else { c * 0.7 };
            let kinds: [(f64, f64); 4] = [(c, 0.0), (-c, 0.0), (0.0, c), (h, h)];
            for (re, im) in kinds {
                let forms: [(f64, f64); 4] = [(re, im), (1.0 + re, im), (1.0 - re, -im), (-1.0 - re, im)];
                for (fi, (fr, fim)) in forms.iter().enumerate() {
                    let lit = E::Num(*fr, *fim);
                    // the same constant as a folded subexpression
                    let folded = if fi == 0 {
                        E::infix(E::Num(2.0 * re, 2.0 * im), Op::Star, E::Num(0.5, 0.0))
                    } else if fi == 1 {
                        E::infix(E::Num(1.0, 0.0), Op::Plus, E::Num(re, im))
                    } else if fi == 2 {
                        E::infix(E::Num(1.0, 0.0), Op::Minus, E::Num(re, im))
                    } else {
                        E::neg(E::infix(E::Num(1.0, 0.0), Op::Plus, E::Num(re, im)))
                    };
                    let consts = if rng.chance(1, 2) { vec![lit.clone(), folded] } else { vec![lit.clone()] };
                    for k in consts {
                        let mut cases: Vec<E> = Vec::new();
                        for (oi, o) in ALL_OP.iter().enumerate() {
                            let (co1, co2) = if oi % 2 == 0 { (x(), E::Addr(0, 0)) } else { (E::Addr(0, 0), x()) };
                            cases.push(E::infix(k.clone(), *o, co1));
                            cases.push(E::infix(co2, *o, k.clone()));
                        }
                        cases.push(E::infix(E::infix(x(), Op::Star, k.clone()), Op::Plus, y()));
                        cases.push(E::infix(y(), Op::Slash, E::infix(k.clone(), Op::Star, x())));
                        cases.push(E::infix(E::infix(k.clone(), Op::Plus, x()), Op::Minus, x()));
                        cases.push(E::fnc(F::Cos, E::infix(x(), Op::Caret, k.clone())));
                        for e in &cases {
                            run_case_mode(&mut run, &ctx, e, "tolerance-boundary", 1, structural);
                            ntol += 1;
                        }
                    }
                }
            }
        }
    }
    // (5) constant-folding boundary stream: every operator / function the simplifier folds on numeric
    // constants, at operands where a folding shortcut would go wrong (whole exponents at and beyond
    // the i32 / u32 / i64 boundaries, parity of huge exponents, huge and tiny operands, large
    // function arguments).  Judged numerically (relative 1e-9 against direct evaluation of the
    // unsimplified expression, only where that is finite); structurally too where exact.
    let mut nfold = 0u64;
    {
        let c = |re: f64, im: f64| E::Num(re, im);
        let mut folds: Vec<E> = Vec::new();
        let exps: Vec<f64> = vec![
            2.0, 3.0, -2.0, 10.0, 31.0, 32.0, 63.0, 64.0, 65535.0, 65536.0, 2147483646.0, 2147483647.0, 2147483648.0,
            2147483649.0, 4294967295.0, 4294967296.0, 4294967297.0, 4e9, 3e9, 1e12, 9.223372036854775807e18, 1.8446744073709552e19,
            1e300, 0.5, 2.5, 2147483647.5,
        ];
        let bases: Vec<(f64, f64)> = vec![
            (1.000000001, 0.0), (0.999999999, 0.0), (1.000000000001, 0.0), (0.999999999999, 0.0), (-1.0, 0.0),
            (0.0, 1.0), (0.0, -1.0), (2.0, 0.0), (0.5, 0.0), (-0.5, 0.0), (1.0, 1.0), (-1.000000001, 0.0),
            (1.0000001, 1e-9), (3.0, 0.0), (1.5, -0.5),
        ];
        for (br, bi) in &bases {
            for n in &exps {
                for sgn in [1.0, -1.0] {
                    folds.push(E::infix(c(*br, *bi), Op::Caret, c(sgn * n, 0.0)));
                }
            }
            // complex and folded exponents
            folds.push(E::infix(c(*br, *bi), Op::Caret, c(0.0, 4e9)));
            folds.push(E::infix(c(*br, *bi), Op::Caret, E::infix(c(2e9, 0.0), Op::Star, c(2.0, 0.0))));
            folds.push(E::infix(c(*br, *bi), Op::Caret, E::neg(c(3e9, 0.0))));
        }
        let big: Vec<(f64, f64)> = vec![
            (1e300, 0.0), (1e-300, 0.0), (-1e300, 0.0), (1e154, 1e154), (1e-160, 0.0), (1.7e308, 0.0), (5e-324, 0.0),
            (1e16, 0.0), (1e16, 1.0), (3.0, 0.0), (1e-9, 0.0), (0.0, 1e200), (123456789.0, 1e-7), (7.0, 0.0), (1e22, 0.0),
        ];
        for (i, (ar, ai)) in big.iter().enumerate() {
            for (br, bi) in big.iter().skip(i % 3).step_by(3) {
                for o in [Op::Plus, Op::Minus, Op::Star, Op::Slash] {
                    folds.push(E::infix(c(*ar, *ai), o, c(*br, *bi)));
                }
            }
        }
        let args: Vec<(f64, f64)> = vec![
            (1e22, 0.0), (1e6, 0.0), (-1e15, 0.0), (710.0, 0.0), (700.0, 0.0), (-745.0, 0.0), (0.0, 700.0), (0.0, 30.0),
            (1e300, 0.0), (1e-300, 0.0), (-4.0, 0.0), (-4.0, 1e-20), (2.0, 3.0), (1e200, 1e200), (0.1, 0.0), (100.0, -20.0),
        ];
        for (ar, ai) in &args {
            for f in ALL_F {
                folds.push(E::fnc(f, c(*ar, *ai)));
                folds.push(E::fnc(f, E::infix(c(*ar, *ai), Op::Star, c(1.0, 0.0))));
                folds.push(E::fnc(f, E::neg(c(*ar, *ai))));
            }
        }
        for e in &folds {
            run_case_mode(&mut run, &ctx, e, "fold-boundary", 2, false);
            // embedded under one operator with a variable
            let w = match rng.below(5) {
                0 => E::infix(e.clone(), Op::Plus, x()),
                1 => E::infix(x(), Op::Star, e.clone()),
                2 => E::infix(e.clone(), Op::Slash, y()),
                3 => E::infix(E::Addr(0, 0), Op::Minus, e.clone()),
                _ => E::fnc(F::Cos, E::infix(x(), Op::Star, e.clone())),
            };
            run_case_mode(&mut run, &ctx, &w, "fold-boundary-embedded", 2, false);
            nfold += 2;
        }
        // exact ones also structurally: small dyadic constants under every operator
        let small: [f64; 6] = [0.0, 1.0, -1.0, 2.0, 0.5, -0.25];
        for a in small {
            for b in small {
                for o in ALL_OP {
                    run_case_mode(&mut run, &ctx, &E::infix(c(a, 0.0), o, c(b, 0.0)), "fold-small", 2, true);
                    run_case_mode(&mut run, &ctx, &E::infix(c(a, b), o, c(b, -a)), "fold-small", 2, true);
                    nfold += 2;
                }
            }
        }
    }
    run.finish(
        "exhaustive: every expression tree of depth <= 2 with at most N nodes (N = extra.full_nodes; 7 = all of depth 2) \
         over {0, 1, 2, -0.5, %x, %y, a[0]; cis cos exp sin sqrt, prefix -, prefix +; ^ + - / *}; a seeded sample of the \
         remaining depth-2 trees; a rule-directed stream (the left-hand side of every arm of the simplifier and close \
         neighbours, in every ordering of its commutative nodes, each pattern variable bound to %x, %y, a[0], 0, 1, -1, 2, 0.5 \
         and to small compound expressions, also with two variables equal, bare and under one more operator); seeded random trees of depth <= 5 over a larger alphabet (incl. pi, a complex literal, \
         repeated subtrees); deep chains of 6..11 unary/binary wrappers around a random depth-2 core (the limit of 10 runs out inside); all depth-1 trees over literals within 1e-10 of 0 and 1; a tolerance-boundary stream (constants c, 1+c, 1-c, -1-c for |c| from 1e-12 to 1e-3 across the 1e-10 threshold, real / imaginary / two-part, as literals and as folded subexpressions, on either side of every operator with variable and memory co-operands; numeric oracle at magnitudes 1 and 1e6 with tolerance 1e-12; dyadic magnitudes also structurally); the regression corpus of finding \
         witnesses. Distinct by the tree; non-trivial = the implementation's simplified form differs from the input.",
        true,
        serde_json::json!({"full_nodes": full_nodes, "exhaustive_cases": nsmall, "depth2_sample": sampled_d2,
                           "rule_directed_cases": nrule, "rule_patterns": pats.len(), "random_cases": nrand, "deep_cases": ndeep, "tolerance_cases": tol_cases.len(), "tolerance_boundary_cases": ntol, "fold_boundary_cases": nfold, "corpus": corpus.len(),
                           "mutant": ctx.mutant}),
    );
}
