//! C21 -- the gate-sequence source map matches the expansion (same cases as C20, other verdict).
#[path = "../seqgen.rs"]
mod seqgen;

fn main() {
    seqgen::main_with(seqgen::Mode::C21);
}
