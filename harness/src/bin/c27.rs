//! C27 — reported memory accesses match each instruction's semantics.
//!
//! Generates abstract instructions (every kind x every operand form over regions a, b, c, nested
//! expressions, CALLs against generated PRAGMA EXTERN signatures), builds the real `Instruction`
//! and `ExternSignatureMap`, calls the real `DefaultHandler::memory_accesses` and the real
//! `Expression::memory_references` iterator, and prints the observations for Coq.
use indexmap::IndexMap;
use qv::{gallina as g, Args, Rng, Run};
use quil_rs::expression::{
    Expression, ExpressionFunction, FunctionCallExpression, InfixExpression, PrefixExpression,
    PrefixOperator,
};
use quil_rs::instruction::*;
use quil_rs::quil::Quil;
use quil_rs::Program;

const REGIONS: [&str; 4] = ["a", "b", "c", "u"]; // u is never declared anywhere
const EXTERNS: [&str; 4] = ["f", "g", "h", "nope"]; // nope is never defined

type M = (usize, u64);

#[derive(Clone, Debug)]
enum E {
    Num(u32),
    Pi,
    Var(u32),
    Addr(M),
    Fun(u8, Box<E>),
    Prefix(u8, Box<E>),
    Infix(u8, Box<E>, Box<E>),
}

#[derive(Clone, Debug)]
enum Op {
    Int(i64),
    Real(f64),
    Ref(M),
}

#[derive(Clone, Debug)]
enum Arg {
    Ident(usize),
    Ref(M),
    Imm(u32),
}

#[derive(Clone, Debug)]
enum I {
    Convert(M, M),
    Move(M, Op),
    BinaryLogic(u8, M, Op),
    Arithmetic(u8, M, Op),
    UnaryLogic(u8, M),
    Exchange(M, M),
    JumpWhen(M),
    JumpUnless(M),
    Comparison(u8, M, M, Op),
    Exprs(u8, Vec<E>),
    Capture(M, Vec<E>),
    RawCapture(M, E),
    Measure(Option<M>),
    Call(usize, Vec<Arg>),
    Load(M, usize, M),
    Store(usize, M, Op),
    NoAccess(u8),
    /// DEFFRAME attribute expressions (0) / DEFGATE AS PAULI-SUM coefficients (1): Coq `IExprs` kinds 10, 11
    Unscanned(u8, Vec<E>),
    DefGateSeq(Vec<Vec<E>>),
    Block(u8, Vec<E>, Vec<I>),
}

/// (has return, params (mutable, type: 0 scalar, 1 fixed vector, 2 variable vector))
type Sig = (bool, Vec<(bool, u8)>);

// ---- concretisation ---------------------------------------------------------------------------
fn mr(m: &M) -> MemoryReference {
    MemoryReference {
        name: REGIONS[m.0].to_string(),
        index: m.1,
    }
}
fn expr(e: &E) -> Expression {
    use quil_rs::expression::InfixOperator as IO;
    match e {
        E::Num(k) => Expression::Number(num_complex::Complex64::new(*k as f64, 0.0)),
        E::Pi => Expression::PiConstant(),
        E::Var(k) => Expression::Variable(format!("v{k}")),
        E::Addr(m) => Expression::Address(mr(m)),
        E::Fun(f, x) => {
            let inner = expr(x);
            // obtain an interned pointer without naming the interning crate
            let ptr = match inner.clone() + inner {
                Expression::Infix(InfixExpression { left, .. }) => left,
                _ => unreachable!(),
            };
            let func = [
                ExpressionFunction::Cis,
                ExpressionFunction::Cosine,
                ExpressionFunction::Exponent,
                ExpressionFunction::Sine,
                ExpressionFunction::SquareRoot,
            ][*f as usize % 5];
            Expression::FunctionCall(FunctionCallExpression::new(func, ptr))
        }
        E::Prefix(o, x) => {
            let inner = expr(x);
            let ptr = match inner.clone() + inner {
                Expression::Infix(InfixExpression { left, .. }) => left,
                _ => unreachable!(),
            };
            let op = if *o % 2 == 0 { PrefixOperator::Plus } else { PrefixOperator::Minus };
            Expression::Prefix(PrefixExpression::new(op, ptr))
        }
        E::Infix(o, l, r) => {
            let (l, r) = (expr(l), expr(r));
            let e = l.clone() + r.clone();
            match e {
                Expression::Infix(InfixExpression { left, right, .. }) => {
                    let op = [IO::Caret, IO::Plus, IO::Minus, IO::Slash, IO::Star][*o as usize % 5];
                    Expression::Infix(InfixExpression::new(left, op, right))
                }
                _ => unreachable!(),
            }
        }
    }
}
fn arith_op(o: &Op) -> ArithmeticOperand {
    match o {
        Op::Int(k) => ArithmeticOperand::LiteralInteger(*k),
        Op::Real(x) => ArithmeticOperand::LiteralReal(*x),
        Op::Ref(m) => ArithmeticOperand::MemoryReference(mr(m)),
    }
}
fn bin_op(o: &Op) -> BinaryOperand {
    match o {
        Op::Int(k) => BinaryOperand::LiteralInteger(*k),
        Op::Real(x) => BinaryOperand::LiteralInteger(*x as i64),
        Op::Ref(m) => BinaryOperand::MemoryReference(mr(m)),
    }
}
fn cmp_op(o: &Op) -> ComparisonOperand {
    match o {
        Op::Int(k) => ComparisonOperand::LiteralInteger(*k),
        Op::Real(x) => ComparisonOperand::LiteralReal(*x),
        Op::Ref(m) => ComparisonOperand::MemoryReference(mr(m)),
    }
}
fn frame() -> FrameIdentifier {
    FrameIdentifier {
        name: "rf".to_string(),
        qubits: vec![Qubit::Fixed(0)],
    }
}
fn target() -> Target {
    Target::Fixed("l".to_string())
}
fn wf(es: &[E]) -> WaveformInvocation {
    let mut p = IndexMap::new();
    for (k, e) in es.iter().enumerate() {
        p.insert(format!("p{k}"), expr(e));
    }
    WaveformInvocation {
        name: "w".to_string(),
        parameters: p,
    }
}
fn gate(ps: &[E]) -> Gate {
    Gate::new("G", ps.iter().map(expr).collect(), vec![Qubit::Fixed(0)], vec![]).unwrap()
}
fn one_expr(es: &[E]) -> Expression {
    expr(es.first().unwrap_or(&E::Num(1)))
}

const EKINDS: [&str; 12] = [
    "KGate", "KDelay", "KSetFrequency", "KSetPhase", "KSetScale", "KShiftFrequency", "KShiftPhase",
    "KPulse", "KDefWaveform", "KDefGateMatrix", "KFrameDefinition", "KDefGatePauliSum",
];
const NKINDS: [&str; 12] = [
    "KDeclaration", "KFence", "KHalt", "KWait", "KInclude", "KJump", "KLabel", "KNop", "KPragma", "KReset",
    "KSwapPhases", "KDefGatePermutation",
];
const BKINDS: [&str; 3] = ["KDefCal", "KDefCircuit", "KDefMeasureCal"];
/// kinds that take exactly one expression
fn single(k: u8) -> bool {
    (1..=6).contains(&k)
}

fn instr(i: &I) -> Instruction {
    match i {
        I::Convert(d, s) => Instruction::Convert(Convert {
            destination: mr(d),
            source: mr(s),
        }),
        I::Move(d, s) => Instruction::Move(Move {
            destination: mr(d),
            source: arith_op(s),
        }),
        I::BinaryLogic(o, d, s) => Instruction::BinaryLogic(BinaryLogic {
            operator: [
                BinaryOperator::And,
                BinaryOperator::Ior,
                BinaryOperator::Xor,
                BinaryOperator::Shl,
                BinaryOperator::Shr,
                BinaryOperator::Ashr,
            ][*o as usize % 6],
            destination: mr(d),
            source: bin_op(s),
        }),
        I::Arithmetic(o, d, s) => Instruction::Arithmetic(Arithmetic {
            operator: [
                ArithmeticOperator::Add,
                ArithmeticOperator::Subtract,
                ArithmeticOperator::Divide,
                ArithmeticOperator::Multiply,
            ][*o as usize % 4],
            destination: mr(d),
            source: arith_op(s),
        }),
        I::UnaryLogic(o, m) => Instruction::UnaryLogic(UnaryLogic {
            operator: if *o % 2 == 0 { UnaryOperator::Neg } else { UnaryOperator::Not },
            operand: mr(m),
        }),
        I::Exchange(l, r) => Instruction::Exchange(Exchange {
            left: mr(l),
            right: mr(r),
        }),
        I::JumpWhen(c) => Instruction::JumpWhen(JumpWhen {
            target: target(),
            condition: mr(c),
        }),
        I::JumpUnless(c) => Instruction::JumpUnless(JumpUnless {
            target: target(),
            condition: mr(c),
        }),
        I::Comparison(o, d, l, r) => Instruction::Comparison(Comparison {
            operator: [
                ComparisonOperator::Equal,
                ComparisonOperator::GreaterThanOrEqual,
                ComparisonOperator::GreaterThan,
                ComparisonOperator::LessThanOrEqual,
                ComparisonOperator::LessThan,
            ][*o as usize % 5],
            destination: mr(d),
            lhs: mr(l),
            rhs: cmp_op(r),
        }),
        I::Exprs(k, es) => match k {
            0 => Instruction::Gate(gate(es)),
            1 => Instruction::Delay(Delay {
                duration: one_expr(es),
                frame_names: vec![],
                qubits: vec![Qubit::Fixed(0)],
            }),
            2 => Instruction::SetFrequency(SetFrequency {
                frame: frame(),
                frequency: one_expr(es),
            }),
            3 => Instruction::SetPhase(SetPhase {
                frame: frame(),
                phase: one_expr(es),
            }),
            4 => Instruction::SetScale(SetScale {
                frame: frame(),
                scale: one_expr(es),
            }),
            5 => Instruction::ShiftFrequency(ShiftFrequency {
                frame: frame(),
                frequency: one_expr(es),
            }),
            6 => Instruction::ShiftPhase(ShiftPhase {
                frame: frame(),
                phase: one_expr(es),
            }),
            7 => Instruction::Pulse(Pulse {
                blocking: true,
                frame: frame(),
                waveform: wf(es),
            }),
            8 => Instruction::WaveformDefinition(WaveformDefinition {
                name: "w".to_string(),
                definition: Waveform {
                    matrix: es.iter().map(expr).collect(),
                    parameters: vec![],
                },
            }),
            _ => {
                // DEFGATE AS MATRIX: rows of two
                let rows: Vec<Vec<Expression>> = es.chunks(2).map(|c| c.iter().map(expr).collect()).collect();
                Instruction::GateDefinition(GateDefinition {
                    name: "G".to_string(),
                    parameters: vec![],
                    specification: GateSpecification::Matrix(rows),
                })
            }
        },
        I::Capture(t, es) => Instruction::Capture(Capture {
            blocking: true,
            frame: frame(),
            memory_reference: mr(t),
            waveform: wf(es),
        }),
        I::RawCapture(t, d) => Instruction::RawCapture(RawCapture {
            blocking: false,
            frame: frame(),
            duration: expr(d),
            memory_reference: mr(t),
        }),
        I::Measure(t) => Instruction::Measurement(Measurement {
            name: None,
            qubit: Qubit::Fixed(0),
            target: t.as_ref().map(mr),
        }),
        I::Call(n, args) => Instruction::Call(Call {
            name: EXTERNS[*n].to_string(),
            arguments: args
                .iter()
                .map(|a| match a {
                    Arg::Ident(r) => UnresolvedCallArgument::Identifier(REGIONS[*r].to_string()),
                    Arg::Ref(m) => UnresolvedCallArgument::MemoryReference(mr(m)),
                    Arg::Imm(k) => UnresolvedCallArgument::Immediate(num_complex::Complex64::new(*k as f64, 0.0)),
                })
                .collect(),
        }),
        I::Load(d, s, o) => Instruction::Load(Load {
            destination: mr(d),
            source: REGIONS[*s].to_string(),
            offset: mr(o),
        }),
        I::Store(d, o, s) => Instruction::Store(Store {
            destination: REGIONS[*d].to_string(),
            offset: mr(o),
            source: arith_op(s),
        }),
        I::NoAccess(k) => match k {
            0 => Instruction::Declaration(Declaration {
                name: "a".to_string(),
                size: Vector {
                    data_type: ScalarType::Real,
                    length: 2,
                },
                sharing: Some(Sharing {
                    name: "b".to_string(),
                    offsets: vec![],
                }),
            }),
            1 => Instruction::Fence(Fence { qubits: vec![] }),
            2 => Instruction::Halt(),
            3 => Instruction::Wait(),
            4 => Instruction::Include(Include {
                filename: "a".to_string(),
            }),
            5 => Instruction::Jump(Jump { target: target() }),
            6 => Instruction::Label(Label { target: target() }),
            7 => Instruction::Nop(),
            8 => Instruction::Pragma(Pragma {
                name: "READ".to_string(),
                arguments: vec![PragmaArgument::Identifier("a".to_string())],
                data: Some("a[0]".to_string()),
            }),
            9 => Instruction::Reset(Reset { qubit: None }),
            10 => Instruction::SwapPhases(SwapPhases {
                frame_1: frame(),
                frame_2: frame(),
            }),
            _ => Instruction::GateDefinition(GateDefinition {
                name: "P".to_string(),
                parameters: vec![],
                specification: GateSpecification::Permutation(vec![1, 0]),
            }),
        },
        I::Unscanned(0, es) => {
            let mut attributes = IndexMap::new();
            attributes.insert("DIRECTION".to_string(), AttributeValue::String("tx".to_string()));
            for (k, e) in es.iter().enumerate() {
                attributes.insert(format!("ATTR-{k}"), AttributeValue::Expression(expr(e)));
            }
            Instruction::FrameDefinition(FrameDefinition {
                identifier: frame(),
                attributes,
            })
        }
        I::Unscanned(_, es) => Instruction::GateDefinition(GateDefinition {
            name: "PS".to_string(),
            parameters: vec![],
            specification: GateSpecification::PauliSum(
                PauliSum::new(
                    vec!["q".to_string()],
                    es.iter()
                        .map(|e| PauliTerm::new(vec![(PauliGate::X, "q".to_string())], expr(e)))
                        .collect(),
                )
                .unwrap(),
            ),
        }),
        I::DefGateSeq(gs) => Instruction::GateDefinition(GateDefinition {
            name: "S".to_string(),
            parameters: vec![],
            specification: GateSpecification::Sequence(
                DefGateSequence::try_new(
                    vec!["q".to_string()],
                    gs.iter()
                        .map(|ps| {
                            Gate::new("G", ps.iter().map(expr).collect(), vec![Qubit::Variable("q".to_string())], vec![])
                                .unwrap()
                        })
                        .collect(),
                )
                .unwrap(),
            ),
        }),
        I::Block(k, ps, body) => {
            let instructions: Vec<Instruction> = body.iter().map(instr).collect();
            match k {
                0 => Instruction::CalibrationDefinition(CalibrationDefinition {
                    identifier: CalibrationIdentifier {
                        modifiers: vec![],
                        name: "G".to_string(),
                        parameters: ps.iter().map(expr).collect(),
                        qubits: vec![Qubit::Fixed(0)],
                    },
                    instructions,
                }),
                1 => Instruction::CircuitDefinition(CircuitDefinition {
                    name: "C".to_string(),
                    parameters: vec![],
                    qubit_variables: vec![],
                    instructions,
                }),
                _ => Instruction::MeasureCalibrationDefinition(MeasureCalibrationDefinition {
                    identifier: MeasureCalibrationIdentifier {
                        name: None,
                        qubit: Qubit::Fixed(0),
                        target: Some("addr".to_string()),
                    },
                    instructions,
                }),
            }
        }
    }
}

fn sigmap(sigs: &[(usize, Sig)]) -> ExternSignatureMap {
    let mut p = Program::new();
    for (n, (ret, params)) in sigs {
        let ps: Vec<ExternParameter> = params
            .iter()
            .enumerate()
            .map(|(k, (m, t))| {
                let ty = match t {
                    0 => ExternParameterType::Scalar(ScalarType::Integer),
                    1 => ExternParameterType::FixedLengthVector(Vector {
                        data_type: ScalarType::Integer,
                        length: 2,
                    }),
                    _ => ExternParameterType::VariableLengthVector(ScalarType::Integer),
                };
                ExternParameter::try_new(format!("x{k}"), *m, ty).unwrap()
            })
            .collect();
        let sig = ExternSignature::new(if *ret { Some(ScalarType::Integer) } else { None }, ps);
        p.add_instruction(Instruction::Pragma(Pragma {
            name: "EXTERN".to_string(),
            arguments: vec![PragmaArgument::Identifier(EXTERNS[*n].to_string())],
            data: Some(sig.to_quil().unwrap()),
        }));
    }
    ExternSignatureMap::try_from(p.extern_pragma_map.clone()).expect("generated extern signatures are valid")
}

// ---- Gallina printers -------------------------------------------------------------------------
fn pm(m: &M) -> String {
    format!("({}, {})", m.0, m.1)
}
fn pe(e: &E) -> String {
    match e {
        E::Num(k) => format!("ENum {k}"),
        E::Pi => "EPi".to_string(),
        E::Var(k) => format!("EVar {k}"),
        E::Addr(m) => format!("EAddr {}", pm(m)),
        E::Fun(f, x) => format!("EFun {f} ({})", pe(x)),
        E::Prefix(o, x) => format!("EPrefix {o} ({})", pe(x)),
        E::Infix(o, l, r) => format!("EInfix {o} ({}) ({})", pe(l), pe(r)),
    }
}
fn pes(es: &[E]) -> String {
    g::list(&es.iter().map(pe).collect::<Vec<_>>())
}
fn lit_id(o: &Op) -> u64 {
    match o {
        Op::Int(k) => (*k as u64) % 7,
        Op::Real(_) => 9,
        Op::Ref(_) => 0,
    }
}
fn po(o: &Op) -> String {
    match o {
        Op::Ref(m) => format!("(ORef {})", pm(m)),
        _ => format!("(OLit {})", lit_id(o)),
    }
}
fn pi(i: &I) -> String {
    match i {
        I::Convert(d, s) => format!("IConvert {} {}", pm(d), pm(s)),
        I::Move(d, s) => format!("IMove {} {}", pm(d), po(s)),
        I::BinaryLogic(o, d, s) => format!("IBinaryLogic {o} {} {}", pm(d), po(s)),
        I::Arithmetic(o, d, s) => format!("IArithmetic {o} {} {}", pm(d), po(s)),
        I::UnaryLogic(o, m) => format!("IUnaryLogic {o} {}", pm(m)),
        I::Exchange(l, r) => format!("IExchange {} {}", pm(l), pm(r)),
        I::JumpWhen(c) => format!("IJumpWhen {}", pm(c)),
        I::JumpUnless(c) => format!("IJumpUnless {}", pm(c)),
        I::Comparison(o, d, l, r) => format!("IComparison {o} {} {} {}", pm(d), pm(l), po(r)),
        I::Exprs(k, es) => {
            let es: Vec<E> = if single(*k) { vec![es.first().cloned().unwrap_or(E::Num(1))] } else { es.clone() };
            format!("IExprs {} {}", EKINDS[*k as usize], pes(&es))
        }
        I::Capture(t, es) => format!("ICapture {} {}", pm(t), pes(es)),
        I::RawCapture(t, d) => format!("IRawCapture {} ({})", pm(t), pe(d)),
        I::Measure(None) => "IMeasure None".to_string(),
        I::Measure(Some(m)) => format!("IMeasure (Some {})", pm(m)),
        I::Call(n, args) => format!(
            "ICall {n} {}",
            g::list(
                &args
                    .iter()
                    .map(|a| match a {
                        Arg::Ident(r) => format!("AIdent {r}"),
                        Arg::Ref(m) => format!("ARef {}", pm(m)),
                        Arg::Imm(k) => format!("AImm {k}"),
                    })
                    .collect::<Vec<_>>()
            )
        ),
        I::Load(d, s, o) => format!("ILoad {} {s} {}", pm(d), pm(o)),
        I::Store(d, o, s) => format!("IStore {d} {} {}", pm(o), po(s)),
        I::NoAccess(k) => format!("INoAccess {}", NKINDS[*k as usize]),
        I::Unscanned(k, es) => format!("IExprs {} {}", EKINDS[10 + *k as usize], pes(es)),
        I::DefGateSeq(gs) => format!("IDefGateSeq {}", g::list(&gs.iter().map(|p| pes(p)).collect::<Vec<_>>())),
        I::Block(k, ps, body) => format!(
            "IBlock {} {} {}",
            BKINDS[*k as usize],
            pes(if *k == 0 { ps } else { &[] }),
            g::list(&body.iter().map(pi).collect::<Vec<_>>())
        ),
    }
}
fn psigs(sigs: &[(usize, Sig)]) -> String {
    g::list(
        &sigs
            .iter()
            .map(|(n, (ret, ps))| {
                format!(
                    "({n}, ({}, {}))",
                    g::boolean(*ret),
                    g::list(
                        &ps.iter()
                            .map(|(m, t)| format!("({}, {})", g::boolean(*m), g::boolean(*t != 0)))
                            .collect::<Vec<_>>()
                    )
                )
            })
            .collect::<Vec<_>>(),
    )
}

/// every expression embedded in the instruction, in the order the Coq side lists them
fn exprs_of(i: &I, out: &mut Vec<E>) {
    match i {
        I::Exprs(k, es) => {
            if single(*k) {
                out.push(es.first().cloned().unwrap_or(E::Num(1)))
            } else {
                out.extend(es.iter().cloned())
            }
        }
        I::Capture(_, es) | I::Unscanned(_, es) => out.extend(es.iter().cloned()),
        I::RawCapture(_, d) => out.push(d.clone()),
        I::DefGateSeq(gs) => gs.iter().for_each(|p| out.extend(p.iter().cloned())),
        I::Block(k, ps, body) => {
            if *k == 0 {
                out.extend(ps.iter().cloned());
            }
            body.iter().for_each(|b| exprs_of(b, out));
        }
        _ => {}
    }
}

fn has_ref(e: &E) -> bool {
    match e {
        E::Addr(_) => true,
        E::Fun(_, x) | E::Prefix(_, x) => has_ref(x),
        E::Infix(_, l, r) => has_ref(l) || has_ref(r),
        _ => false,
    }
}
fn region_id(name: &str) -> u64 {
    REGIONS.iter().position(|r| *r == name).map(|x| x as u64).unwrap_or(99)
}
fn set(s: &std::collections::HashSet<String>) -> Vec<u64> {
    let mut v: Vec<u64> = s.iter().map(|x| region_id(x)).collect();
    v.sort();
    v
}
fn nl(v: &[u64]) -> String {
    g::list(&v.iter().map(|x| x.to_string()).collect::<Vec<_>>())
}

type Obs = Option<(Vec<u64>, Vec<u64>, Vec<u64>)>;

fn mutate(m: u32, i: &I, sigs: &[(usize, Sig)], obs: Obs, its: &mut Vec<(E, Vec<(u64, u64)>)>) -> Obs {
    let (mut r, mut w, mut c) = obs?;
    match (m, i) {
        // 1: EXCHANGE reports only its left operand as written
        (1, I::Exchange(l, _)) => w.retain(|x| *x == l.0 as u64),
        // 2: STORE forgets that it reads the offset
        (2, I::Store(_, o, s)) => {
            let keep = matches!(s, Op::Ref(m) if m.0 == o.0);
            if !keep {
                r.retain(|x| *x != o.0 as u64)
            }
        }
        // 3: CALL does not report the return slot as written
        (3, I::Call(n, args)) => {
            if let Some((_, (true, ps))) = sigs.iter().find(|(k, _)| k == n) {
                let ret = match args.first() {
                    Some(Arg::Ident(r)) => Some(*r as u64),
                    Some(Arg::Ref(m)) => Some(m.0 as u64),
                    _ => None,
                };
                if let Some(ret) = ret {
                    let still = args[1..].iter().zip(ps.iter()).any(|(a, (mu, _))| {
                        *mu && match a {
                            Arg::Ident(r) => *r as u64 == ret,
                            Arg::Ref(m) => m.0 as u64 == ret,
                            _ => false,
                        }
                    });
                    if !still {
                        w.retain(|x| *x != ret);
                    }
                }
            }
        }
        // 4: the expression iterator yields the right operand of an infix before the left
        (4, _) => {
            for (e, ms) in its.iter_mut() {
                if matches!(e, E::Infix(..)) {
                    ms.reverse();
                }
            }
        }
        // 5: CAPTURE's target is reported as a (processor) write instead of a capture
        (5, I::Capture(..)) => {
            w.append(&mut c);
        }
        // 7: the pre-fix behaviour: DEFFRAME / PAULI-SUM expressions not scanned
        (7, I::Unscanned(..)) => r.clear(),
        // 6: comparison forgets its right operand
        (6, I::Comparison(_, _, l, Op::Ref(rr))) if rr.0 != l.0 => r.retain(|x| *x != rr.0 as u64),
        _ => {}
    }
    r.sort();
    w.sort();
    c.sort();
    Some((r, w, c))
}

struct Ctx {
    run: Run,
    mutant: u32,
}

fn kind_name(i: &I) -> String {
    match i {
        I::Convert(..) => "convert".into(),
        I::Move(_, Op::Ref(_)) => "move-ref".into(),
        I::Move(..) => "move-lit".into(),
        I::BinaryLogic(..) => "binary-logic".into(),
        I::Arithmetic(..) => "arithmetic".into(),
        I::UnaryLogic(..) => "unary-logic".into(),
        I::Exchange(..) => "exchange".into(),
        I::JumpWhen(..) => "jump-when".into(),
        I::JumpUnless(..) => "jump-unless".into(),
        I::Comparison(..) => "comparison".into(),
        I::Exprs(k, _) => format!("exprs-{}", &EKINDS[*k as usize][1..]),
        I::Capture(..) => "capture".into(),
        I::RawCapture(..) => "raw-capture".into(),
        I::Measure(..) => "measure".into(),
        I::Call(..) => "call".into(),
        I::Load(..) => "load".into(),
        I::Store(..) => "store".into(),
        I::NoAccess(k) => format!("none-{}", &NKINDS[*k as usize][1..]),
        I::Unscanned(k, _) => format!("exprs-{}", &EKINDS[10 + *k as usize][1..]),
        I::DefGateSeq(..) => "defgate-sequence".into(),
        I::Block(k, ..) => format!("block-{}", &BKINDS[*k as usize][1..]),
    }
}

fn one(ctx: &mut Ctx, sigs: &[(usize, Sig)], map: &ExternSignatureMap, i: &I) {
    let real = instr(i);
    let text = real.to_quil_or_debug().replace('\n', " | ");
    let sigtext = sigs
        .iter()
        .map(|(n, (ret, ps))| {
            format!(
                "{}:{}({})",
                EXTERNS[*n],
                if *ret { "ret" } else { "" },
                ps.iter()
                    .map(|(m, t)| format!("{}{}", if *m { "mut " } else { "" }, ["s", "v2", "v"][*t as usize]))
                    .collect::<Vec<_>>()
                    .join(",")
            )
        })
        .collect::<Vec<_>>()
        .join(" ");
    let desc = format!("externs[{sigtext}] :: {text}");
    let r = qv::catch(std::panic::AssertUnwindSafe(|| {
        DefaultHandler.memory_accesses(map, &real).ok().map(|a| (set(&a.reads), set(&a.writes), set(&a.captures)))
    }));
    let obs: Obs = match r {
        Ok(o) => o,
        Err(msg) => {
            ctx.run.process_failure(&format!("panic: {msg}"), &desc, None);
            return;
        }
    };
    // the real iterator on every embedded expression
    let mut es = Vec::new();
    exprs_of(i, &mut es);
    let mut its: Vec<(E, Vec<(u64, u64)>)> = es
        .into_iter()
        .map(|e| {
            let refs: Vec<(u64, u64)> = expr(&e).memory_references().map(|m| (region_id(&m.name), m.index)).collect();
            (e, refs)
        })
        .collect();
    let obs = if ctx.mutant != 0 { mutate(ctx.mutant, i, sigs, obs, &mut its) } else { obs };
    ctx.run.count(&format!("kind={}", kind_name(i)));
    match &obs {
        None => ctx.run.count("result=error"),
        Some((r, w, c)) => {
            ctx.run.count(&format!("reads={}", r.len()));
            if !w.is_empty() {
                ctx.run.count("writes-nonempty")
            }
            if !c.is_empty() {
                ctx.run.count("captures-nonempty")
            }
        }
    }
    let nontrivial = matches!(&obs, Some((r, w, c)) if !r.is_empty() || !w.is_empty() || !c.is_empty());
    let o = g::option(obs.map(|(r, w, c)| format!("({}, {}, {})", nl(&r), nl(&w), nl(&c))));
    let it = g::list(
        &its.iter()
            .map(|(e, ms)| {
                format!(
                    "({}, {})",
                    pe(e),
                    g::list(&ms.iter().map(|(r, k)| format!("({r}, {k})")).collect::<Vec<_>>())
                )
            })
            .collect::<Vec<_>>(),
    );
    let coq = format!("({}, {}, {}, {})", psigs(sigs), pi(i), o, it);
    // regression corpus of fixed finding C27-unscanned-definition-exprs (fix 5c78b87): DEFFRAME
    // attribute expressions / PAULI-SUM coefficients containing a reference (no longer excluded)
    if matches!(i, I::Unscanned(_, es) if es.iter().any(has_ref)) {
        ctx.run.count("regression=C27-unscanned-definition-exprs");
    }
    ctx.run.case(coq, &desc, nontrivial, None);
}

// ---- generators -------------------------------------------------------------------------------
fn m4() -> Vec<M> {
    vec![(0, 0), (1, 0), (2, 0), (0, 1)]
}
fn m6() -> Vec<M> {
    vec![(0, 0), (1, 0), (2, 0), (0, 1), (1, 1), (2, 1)]
}
fn ops(ms: &[M]) -> Vec<Op> {
    let mut v = vec![Op::Int(3), Op::Real(1.5)];
    v.extend(ms.iter().map(|m| Op::Ref(*m)));
    v
}
fn leaves() -> Vec<E> {
    vec![E::Num(1), E::Pi, E::Var(0), E::Addr((0, 0)), E::Addr((1, 0)), E::Addr((2, 1))]
}
fn depth1() -> Vec<E> {
    let l = leaves();
    let mut v = l.clone();
    for (k, x) in l.iter().enumerate() {
        v.push(E::Fun(k as u8 % 5, Box::new(x.clone())));
        v.push(E::Prefix(k as u8 % 2, Box::new(x.clone())));
    }
    for (a, x) in l.iter().enumerate() {
        for (b, y) in l.iter().enumerate() {
            v.push(E::Infix(((a + b) % 5) as u8, Box::new(x.clone()), Box::new(y.clone())));
        }
    }
    v
}
fn rand_m(rng: &mut Rng) -> M {
    let nreg = if rng.chance(1, 12) { 4 } else { 3 };
    (rng.below(nreg), rng.below(3) as u64)
}
fn rand_expr(rng: &mut Rng, depth: usize) -> E {
    if depth == 0 || rng.chance(1, 5) {
        return match rng.below(6) {
            0 => E::Num(rng.below(4) as u32),
            1 => E::Pi,
            2 => E::Var(rng.below(2) as u32),
            _ => E::Addr(rand_m(rng)),
        };
    }
    match rng.below(4) {
        0 => E::Fun(rng.below(5) as u8, Box::new(rand_expr(rng, depth - 1))),
        1 => E::Prefix(rng.below(2) as u8, Box::new(rand_expr(rng, depth - 1))),
        _ => E::Infix(
            rng.below(5) as u8,
            Box::new(rand_expr(rng, depth - 1)),
            Box::new(rand_expr(rng, depth - 1)),
        ),
    }
}
fn rand_op(rng: &mut Rng) -> Op {
    match rng.below(4) {
        0 => Op::Int(rng.below(5) as i64),
        1 => Op::Real(0.5),
        _ => Op::Ref(rand_m(rng)),
    }
}
fn rand_sig(rng: &mut Rng) -> Sig {
    let ret = rng.chance(1, 2);
    let n = rng.range(if ret { 0 } else { 1 }, 4);
    (ret, (0..n).map(|_| (rng.chance(1, 2), rng.below(3) as u8)).collect())
}
fn rand_arg(rng: &mut Rng) -> Arg {
    match rng.below(5) {
        0 => Arg::Imm(rng.below(3) as u32),
        1 | 2 => Arg::Ident(rng.below(4)),
        _ => Arg::Ref(rand_m(rng)),
    }
}
fn rand_call(rng: &mut Rng, sigs: &[(usize, Sig)]) -> I {
    let (n, (ret, ps)) = rng.pick(sigs).clone();
    let want = ps.len() + ret as usize;
    let len = match rng.below(8) {
        0 => want.saturating_sub(1),
        1 => want + 1,
        _ => want,
    };
    let name = if rng.chance(1, 15) { 3 } else { n };
    I::Call(name, (0..len).map(|_| rand_arg(rng)).collect())
}
fn rand_instr(rng: &mut Rng, sigs: &[(usize, Sig)], depth: usize) -> I {
    match rng.below(if depth > 0 { 22 } else { 20 }) {
        0 => I::Convert(rand_m(rng), rand_m(rng)),
        1 => I::Move(rand_m(rng), rand_op(rng)),
        2 => I::BinaryLogic(rng.below(6) as u8, rand_m(rng), rand_op(rng)),
        3 => I::Arithmetic(rng.below(4) as u8, rand_m(rng), rand_op(rng)),
        4 => I::UnaryLogic(rng.below(2) as u8, rand_m(rng)),
        5 => I::Exchange(rand_m(rng), rand_m(rng)),
        6 => I::JumpWhen(rand_m(rng)),
        7 => I::JumpUnless(rand_m(rng)),
        8 => I::Comparison(rng.below(5) as u8, rand_m(rng), rand_m(rng), rand_op(rng)),
        9 | 10 => {
            let k = rng.below(10) as u8;
            let n = if single(k) { 1 } else { rng.range(0, 4) };
            I::Exprs(k, (0..n).map(|_| rand_expr(rng, 3)).collect())
        }
        11 => {
            let n = rng.range(0, 3);
            I::Capture(rand_m(rng), (0..n).map(|_| rand_expr(rng, 3)).collect())
        }
        12 => I::RawCapture(rand_m(rng), rand_expr(rng, 3)),
        13 => I::Measure(if rng.chance(1, 4) { None } else { Some(rand_m(rng)) }),
        14 | 15 => rand_call(rng, sigs),
        16 => I::Load(rand_m(rng), rng.below(4), rand_m(rng)),
        17 => I::Store(rng.below(4), rand_m(rng), rand_op(rng)),
        18 => {
            if rng.chance(1, 3) {
                let n = rng.range(0, 2);
                I::Unscanned(rng.below(2) as u8, (0..n).map(|_| rand_expr(rng, 2)).collect())
            } else {
                I::NoAccess(rng.below(12) as u8)
            }
        }
        19 => {
            let n = rng.range(0, 3);
            I::DefGateSeq(
                (0..n)
                    .map(|_| {
                        let k = rng.range(0, 2);
                        (0..k).map(|_| rand_expr(rng, 2)).collect()
                    })
                    .collect(),
            )
        }
        _ => {
            let k = rng.below(3) as u8;
            let np = if k == 0 { rng.range(0, 2) } else { 0 };
            let nb = rng.range(0, 4);
            I::Block(
                k,
                (0..np).map(|_| rand_expr(rng, 2)).collect(),
                (0..nb).map(|_| rand_instr(rng, sigs, depth - 1)).collect(),
            )
        }
    }
}

fn main() {
    let args = Args::parse();
    let mutant: u32 = std::env::var("QV_MUTANT").ok().and_then(|s| s.parse().ok()).unwrap_or(0);
    let header = "From Coq Require Import List NArith.\nFrom QV Require Import Model.MemAccess.\nImport ListNotations.\nOpen Scope N_scope.";
    let run = Run::new(&args.out, header, "case", "failing", 4000);
    let mut ctx = Ctx { run, mutant };
    let mut rng = Rng::new(args.seed);

    let base_sigs: Vec<(usize, Sig)> = vec![
        (0, (true, vec![(true, 2), (false, 0)])),
        (1, (false, vec![(false, 1)])),
    ];
    let base_map = sigmap(&base_sigs);
    let (m4, m6) = (m4(), m6());

    // (1) classical instructions, every operand form
    for d in &m6 {
        for s in &m6 {
            one(&mut ctx, &base_sigs, &base_map, &I::Convert(*d, *s));
            one(&mut ctx, &base_sigs, &base_map, &I::Exchange(*d, *s));
        }
        for s in ops(&m6) {
            one(&mut ctx, &base_sigs, &base_map, &I::Move(*d, s.clone()));
            for o in 0..6 {
                one(&mut ctx, &base_sigs, &base_map, &I::BinaryLogic(o, *d, s.clone()));
            }
            for o in 0..4 {
                one(&mut ctx, &base_sigs, &base_map, &I::Arithmetic(o, *d, s.clone()));
            }
        }
        for o in 0..2 {
            one(&mut ctx, &base_sigs, &base_map, &I::UnaryLogic(o, *d));
        }
        one(&mut ctx, &base_sigs, &base_map, &I::JumpWhen(*d));
        one(&mut ctx, &base_sigs, &base_map, &I::JumpUnless(*d));
        one(&mut ctx, &base_sigs, &base_map, &I::Measure(Some(*d)));
    }
    one(&mut ctx, &base_sigs, &base_map, &I::Measure(None));
    for d in &m4 {
        for l in &m4 {
            for r in ops(&m4) {
                for o in 0..5 {
                    one(&mut ctx, &base_sigs, &base_map, &I::Comparison(o, *d, *l, r.clone()));
                }
            }
        }
        for s in 0..4 {
            for o in &m4 {
                one(&mut ctx, &base_sigs, &base_map, &I::Load(*d, s, *o));
            }
        }
    }
    for d in 0..4 {
        for o in &m4 {
            for s in ops(&m4) {
                one(&mut ctx, &base_sigs, &base_map, &I::Store(d, *o, s));
            }
        }
    }
    for k in 0..12 {
        one(&mut ctx, &base_sigs, &base_map, &I::NoAccess(k));
    }
    for k in 0..2 {
        one(&mut ctx, &base_sigs, &base_map, &I::Unscanned(k, vec![]));
        one(&mut ctx, &base_sigs, &base_map, &I::Unscanned(k, vec![E::Num(2), E::Infix(4, Box::new(E::Pi), Box::new(E::Var(0)))]));
    }
    // (2) every expression of depth <= 1 in every expression-carrying kind
    let d1 = depth1();
    for e in &d1 {
        for k in 0..10u8 {
            one(&mut ctx, &base_sigs, &base_map, &I::Exprs(k, vec![e.clone()]));
        }
        one(&mut ctx, &base_sigs, &base_map, &I::Capture((1, 0), vec![e.clone()]));
        one(&mut ctx, &base_sigs, &base_map, &I::RawCapture((1, 1), e.clone()));
        one(&mut ctx, &base_sigs, &base_map, &I::DefGateSeq(vec![vec![], vec![e.clone()]]));
        one(&mut ctx, &base_sigs, &base_map, &I::Block(0, vec![e.clone()], vec![]));
        one(&mut ctx, &base_sigs, &base_map, &I::Unscanned(0, vec![e.clone()]));
        one(&mut ctx, &base_sigs, &base_map, &I::Unscanned(1, vec![e.clone()]));
    }
    // multi-expression forms and nesting to depth 3
    let nexpr = if args.thorough() { 6000 } else { 700 };
    for n in 0..nexpr {
        let k = [0u8, 7, 8, 9][n % 4];
        let cnt = rng.range(0, 4);
        let es: Vec<E> = (0..cnt).map(|_| rand_expr(&mut rng, 3)).collect();
        one(&mut ctx, &base_sigs, &base_map, &I::Exprs(k, es));
        let e = rand_expr(&mut rng, 3);
        one(&mut ctx, &base_sigs, &base_map, &I::Exprs(1 + (n % 6) as u8, vec![e]));
    }
    // (3) CALL: every signature with <= 2 parameters over {mut, const} x {scalar, vector}, every
    //     argument list of length 0..3 over {identifier, reference, reference, immediate}
    let palpha: Vec<(bool, u8)> = vec![(true, 0), (false, 0), (true, 2), (false, 1)];
    let mut sigs: Vec<Sig> = Vec::new();
    for ret in [true, false] {
        if ret {
            sigs.push((ret, vec![]));
        }
        for a in &palpha {
            sigs.push((ret, vec![*a]));
            for b in &palpha {
                sigs.push((ret, vec![*a, *b]));
            }
        }
    }
    let aalpha = [Arg::Ident(0), Arg::Ref((1, 0)), Arg::Ref((0, 1)), Arg::Imm(2)];
    let mut arglists: Vec<Vec<Arg>> = vec![vec![]];
    for len in 1..=3 {
        let mut idx = vec![0usize; len];
        loop {
            arglists.push(idx.iter().map(|k| aalpha[*k].clone()).collect());
            let mut p = 0;
            while p < len {
                idx[p] += 1;
                if idx[p] < aalpha.len() {
                    break;
                }
                idx[p] = 0;
                p += 1;
            }
            if p == len {
                break;
            }
        }
    }
    let mut ncall = 0;
    for (k, s) in sigs.iter().enumerate() {
        // the called extern sits between two others so that lookup by name matters
        let ss = vec![(1, (false, vec![(true, 0)])), (0, s.clone()), (2, (true, vec![(false, 0)]))];
        let map = sigmap(&ss);
        for (j, al) in arglists.iter().enumerate() {
            // quick tier: full for matching or off-by-one arity, a third of the rest
            let want = s.1.len() + s.0 as usize;
            let near = al.len() + 1 >= want && al.len() <= want + 1;
            if !args.thorough() && !near && (j + k) % 3 != 0 {
                continue;
            }
            one(&mut ctx, &ss, &map, &I::Call(0, al.clone()));
            ncall += 1;
        }
        one(&mut ctx, &ss, &map, &I::Call(3, vec![Arg::Ident(0)]));
        one(&mut ctx, &ss, &map, &I::Block(1, vec![], vec![I::Move((0, 0), Op::Int(1)), I::Call(3, vec![]), I::Move((1, 0), Op::Int(1))]));
        one(&mut ctx, &ss, &map, &I::Block(0, vec![E::Addr((2, 0))], vec![I::Call(0, arglists[(k * 7) % arglists.len()].clone()), I::Measure(Some((1, 0)))]));
    }
    // (4) seeded random: instructions of every kind (incl. nested definitions) against random externs
    let nrand = if args.thorough() { 30000 } else { 4000 };
    let mut cur: Vec<(usize, Sig)> = base_sigs.clone();
    let mut cur_map = sigmap(&cur);
    for n in 0..nrand {
        if n % 25 == 0 {
            let cnt = rng.range(1, 3);
            cur = (0..cnt).map(|k| (k, rand_sig(&mut rng))).collect();
            cur_map = sigmap(&cur);
        }
        let i = rand_instr(&mut rng, &cur, 2);
        one(&mut ctx, &cur, &cur_map, &i);
    }
    ctx.run.finish(
        "a case = (extern signatures, one instruction). Exhaustive part: CONVERT/EXCHANGE/MOVE/6 binary-logic/4 \
         arithmetic/2 unary ops/JUMP-WHEN/JUMP-UNLESS/MEASURE over 6 references (3 regions x 2 indices) and \
         literal-int / literal-real / reference operands; 5 comparisons, LOAD, STORE over 4 references (+ an \
         undeclared region); the 12 access-free kinds; DEFFRAME attribute expressions and PAULI-SUM coefficients (regression cases of fixed finding C27-unscanned-definition-exprs); every expression of depth <= 1 over {number, pi, variable, \
         a[0], b[0], c[1]} in each of the 10 expression-carrying kinds, CAPTURE, RAW-CAPTURE, DEFGATE AS SEQUENCE \
         and DEFCAL parameters; CALL against every signature with <= 2 parameters over {mut,const} x \
         {scalar,vector} with/without return x argument lists of length 0..3 over {identifier, reference x2, \
         immediate} (quick: all lists within one of the expected arity, a third of the others), unknown externs, \
         error propagation out of definitions. Random part: expressions nested to depth 3, multi-parameter \
         gates/waveforms/matrices, nested definitions, random signatures. Non-trivial = at least one region reported.",
        true,
        serde_json::json!({"call_cases": ncall, "random_cases": nrand, "random_expr_cases": 2 * nexpr, "mutant": mutant}),
    );
}
