//! C16 — calibration lookup follows the documented precedence rules.
//!
//! Builds real `Calibrations` (parsed `DEFCAL` text, `Program::add_instruction`, `Calibrations::extend`,
//! `CalibrationSet::from`), observes the resulting set order through the distinct bodies (definition k
//! has k+1 `NOP`s), asks the real `get_match_for_gate` / `get_match_for_measurement` and reports the
//! answer as the position in the implementation's set (pointer identity).  Inside Coq (Model/Calib.v)
//! the verified checkers decide the property on the observed outputs and the model is compared.
use qv::{gallina as g, Args, Rng, Run};
use quil_rs::expression::Expression;
use quil_rs::instruction::{
    CalibrationDefinition, CalibrationIdentifier, Gate, GateModifier, Instruction,
    MeasureCalibrationDefinition, MeasureCalibrationIdentifier, Measurement, MemoryReference, Qubit,
    QubitPlaceholder,
};
use quil_rs::program::{CalibrationSet, Calibrations};
use quil_rs::Program;
use std::str::FromStr;

// ---------------------------------------------------------------------------------------------
// Expression alphabet: text, raw id (equal iff `Expression ==`), simplified form stated BY HAND
// (V(v) = simplifies to bare variable v, L(k) = k-th distinct non-variable simplified expression).
// `verify_alphabet` checks the table against the real `==` and `into_simplified`.
#[derive(Clone, Copy, PartialEq, Eq, Debug)]
enum S {
    V(u64),
    L(u64),
}
const EXPRS: [(&str, u64, S); 10] = [
    ("pi/2", 0, S::L(0)),
    ("1", 1, S::L(1)),
    ("%t", 2, S::V(0)),
    ("1.5707963267948966", 3, S::L(0)),
    ("%s", 4, S::V(1)),
    ("%t+0", 5, S::V(0)),
    ("2*%t", 6, S::L(2)),
    ("1.0", 1, S::L(1)),
    ("2*pi/4", 7, S::L(0)),
    ("2*%s", 8, S::L(3)),
];
const VAR_NAMES: [&str; 2] = ["t", "s"];

fn expr(i: usize) -> Expression {
    Expression::from_str(EXPRS[i].0).expect("alphabet expression parses")
}

fn verify_alphabet(run: &mut Run) {
    for i in 0..EXPRS.len() {
        for j in 0..EXPRS.len() {
            let (a, b) = (expr(i), expr(j));
            if (a == b) != (EXPRS[i].1 == EXPRS[j].1) {
                run.process_failure(
                    "harness alphabet table disagrees with Expression equality",
                    &format!("{} vs {}", EXPRS[i].0, EXPRS[j].0),
                    None,
                );
            }
            let (sa, sb) = (a.into_simplified(), b.into_simplified());
            if (sa == sb) != (EXPRS[i].2 == EXPRS[j].2) {
                run.process_failure(
                    "harness alphabet table disagrees with into_simplified equality",
                    &format!("{} vs {}", EXPRS[i].0, EXPRS[j].0),
                    None,
                );
            }
        }
        let s = expr(i).into_simplified();
        let ok = match (EXPRS[i].2, &s) {
            (S::V(v), Expression::Variable(name)) => name == VAR_NAMES[v as usize],
            (S::V(_), _) => false,
            (S::L(_), Expression::Variable(_)) => false,
            (S::L(_), _) => true,
        };
        if !ok {
            run.process_failure(
                "harness alphabet table disagrees with into_simplified",
                &format!("{} simplifies to {:?}", EXPRS[i].0, s),
                None,
            );
        }
    }
}

// ---------------------------------------------------------------------------------------------
// Abstract inputs
#[derive(Clone, Copy, PartialEq, Eq, Hash, Debug)]
enum Q {
    F(u64),
    V(u64), // 0 = q, 1 = r
    P(u64), // index into the placeholder pool
}
const QVARS: [&str; 2] = ["q", "r"];
const GNAMES: [&str; 2] = ["X", "RX"];
const MNAMES: [&str; 2] = ["foo", "bar"];
const TNAMES: [&str; 2] = ["addr", "b"];

#[derive(Clone, Copy, PartialEq, Eq, Hash, Debug)]
enum M {
    C,
    D,
    F,
}

#[derive(Clone, PartialEq, Eq, Hash, Debug)]
struct AG {
    name: usize,
    mods: Vec<M>,
    params: Vec<usize>, // index into EXPRS
    qubits: Vec<Q>,
}

#[derive(Clone, PartialEq, Eq, Hash, Debug)]
struct AM {
    name: Option<usize>,
    qubit: Q,
    target: Option<usize>,
}

struct Ctx {
    pool: Vec<QubitPlaceholder>,
}

impl Ctx {
    fn qubit(&self, q: Q) -> Qubit {
        match q {
            Q::F(n) => Qubit::Fixed(n),
            Q::V(v) => Qubit::Variable(QVARS[v as usize].to_string()),
            Q::P(p) => Qubit::Placeholder(self.pool[p as usize].clone()),
        }
    }
    fn mods(m: &[M]) -> Vec<GateModifier> {
        m.iter()
            .map(|m| match m {
                M::C => GateModifier::Controlled,
                M::D => GateModifier::Dagger,
                M::F => GateModifier::Forked,
            })
            .collect()
    }
    fn gate(&self, a: &AG) -> Gate {
        Gate {
            name: GNAMES[a.name].to_string(),
            parameters: a.params.iter().map(|&i| expr(i)).collect(),
            qubits: a.qubits.iter().map(|&q| self.qubit(q)).collect(),
            modifiers: Self::mods(&a.mods),
        }
    }
    fn ident(&self, a: &AG) -> CalibrationIdentifier {
        CalibrationIdentifier::new(
            GNAMES[a.name].to_string(),
            Self::mods(&a.mods),
            a.params.iter().map(|&i| expr(i)).collect(),
            a.qubits.iter().map(|&q| self.qubit(q)).collect(),
        )
        .expect("valid name")
    }
    fn mident(&self, a: &AM) -> MeasureCalibrationIdentifier {
        MeasureCalibrationIdentifier::new(
            a.name.map(|n| MNAMES[n].to_string()),
            self.qubit(a.qubit),
            a.target.map(|t| TNAMES[t].to_string()),
        )
    }
    fn measurement(&self, a: &AM) -> Measurement {
        Measurement::new(
            a.name.map(|n| MNAMES[n].to_string()),
            self.qubit(a.qubit),
            a.target.map(|t| MemoryReference::new("ro".to_string(), t as u64)),
        )
    }
}

fn has_ph_g(a: &AG) -> bool {
    a.qubits.iter().any(|q| matches!(q, Q::P(_)))
}

// text forms ------------------------------------------------------------------------------------
fn q_text(q: Q) -> String {
    match q {
        Q::F(n) => n.to_string(),
        Q::V(v) => QVARS[v as usize].to_string(),
        Q::P(p) => format!("<placeholder {p}>"),
    }
}
fn gate_text(a: &AG) -> String {
    let mut s = String::new();
    for m in &a.mods {
        s.push_str(match m {
            M::C => "CONTROLLED ",
            M::D => "DAGGER ",
            M::F => "FORKED ",
        });
    }
    s.push_str(GNAMES[a.name]);
    if !a.params.is_empty() {
        s.push('(');
        s.push_str(&a.params.iter().map(|&i| EXPRS[i].0).collect::<Vec<_>>().join(", "));
        s.push(')');
    }
    for q in &a.qubits {
        s.push(' ');
        s.push_str(&q_text(*q));
    }
    s
}
fn meas_text(a: &AM, as_def: bool) -> String {
    let mut s = String::from("MEASURE");
    if let Some(n) = a.name {
        s.push('!');
        s.push_str(MNAMES[n]);
    }
    s.push(' ');
    s.push_str(&q_text(a.qubit));
    if let Some(t) = a.target {
        if as_def {
            s.push(' ');
            s.push_str(TNAMES[t]);
        } else {
            s.push_str(&format!(" ro[{t}]"));
        }
    }
    s
}
fn body_text(k: usize) -> String {
    "    NOP\n".repeat(k + 1)
}
fn body(k: usize) -> Vec<Instruction> {
    vec![Instruction::Nop(); k + 1]
}

// Gallina printers ---------------------------------------------------------------------------------
fn q_coq(q: Q) -> String {
    match q {
        Q::F(n) => format!("QFixed {n}"),
        Q::V(v) => format!("QVar {v}"),
        Q::P(p) => format!("QPh {p}"),
    }
}
fn g_coq(a: &AG) -> String {
    let mods: Vec<&str> = a
        .mods
        .iter()
        .map(|m| match m {
            M::C => "MControlled",
            M::D => "MDagger",
            M::F => "MForked",
        })
        .collect();
    let params: Vec<String> = a.params.iter().map(|&i| EXPRS[i].1.to_string()).collect();
    let qs: Vec<String> = a.qubits.iter().map(|&q| q_coq(q)).collect();
    format!("G {} {} {} {}", a.name, g::list(&mods), g::list(&params), g::list(&qs))
}
fn optn(o: Option<usize>) -> String {
    match o {
        Some(x) => format!("(Some {x})"),
        None => "None".into(),
    }
}
fn m_coq(a: &AM) -> String {
    format!("Me {} ({}) {}", optn(a.name), q_coq(a.qubit), optn(a.target))
}

const HEADER_BASE: &str = "From Coq Require Import List NArith.\nFrom QV Require Import Model.Calib.\nImport ListNotations.\nOpen Scope N_scope.\n\
Definition G n m p q := {| g_name := n; g_mods := m; g_params := p; g_qubits := q |}.\n\
Definition Ca (x : gate) b := {| c_id := x; c_body := b |}.\n\
Definition Me n q t := {| m_name := n; m_qubit := q; m_target := t |}.\n\
Definition Mc (x : meas) b := {| mc_id := x; mc_body := b |}.\n";

fn header() -> String {
    let mut seen = std::collections::BTreeMap::new();
    for (_, raw, s) in EXPRS.iter() {
        seen.insert(*raw, *s);
    }
    let tbl: Vec<String> = seen
        .iter()
        .map(|(r, s)| match s {
            S::V(v) => format!("({r}, SVar {v})"),
            S::L(k) => format!("({r}, SLit {k})"),
        })
        .collect();
    format!("{HEADER_BASE}Definition tbl : list (N * sform) := {}.", g::list(&tbl))
}

// ---------------------------------------------------------------------------------------------
// Building the real set
#[derive(Clone, Copy, Debug, PartialEq, Eq)]
enum Route {
    Text,
    Api,
    Extend(usize),
    FromVec,
}

fn gate_defs_text(defs: &[AG]) -> String {
    let mut s = String::new();
    for (k, d) in defs.iter().enumerate() {
        s.push_str(&format!("DEFCAL {}:\n{}", gate_text(d), body_text(k)));
    }
    s
}
fn meas_defs_text(defs: &[AM]) -> String {
    let mut s = String::new();
    for (k, d) in defs.iter().enumerate() {
        s.push_str(&format!("DEFCAL {}:\n{}", meas_text(d, true), body_text(k)));
    }
    s
}

fn build_gate_set(ctx: &Ctx, defs: &[AG], route: Route) -> Result<Calibrations, String> {
    let mk = |k: usize| CalibrationDefinition {
        identifier: ctx.ident(&defs[k]),
        instructions: body(k),
    };
    match route {
        Route::Text => {
            let p = Program::from_str(&gate_defs_text(defs)).map_err(|e| format!("parse: {e}"))?;
            // the parsed identifiers must be the ones the API route builds
            let mut p2 = Program::new();
            for k in 0..defs.len() {
                p2.add_instruction(Instruction::CalibrationDefinition(mk(k)));
            }
            if p.calibrations != p2.calibrations {
                return Err("parsed DEFCALs differ from API-built ones".into());
            }
            Ok(p.calibrations)
        }
        Route::Api => {
            let mut p = Program::new();
            for k in 0..defs.len() {
                p.add_instruction(Instruction::CalibrationDefinition(mk(k)));
            }
            Ok(p.calibrations)
        }
        Route::Extend(split) => {
            let mut a = Calibrations::default();
            let mut b = Calibrations::default();
            for k in 0..defs.len() {
                if k < split {
                    a.insert_calibration(mk(k));
                } else {
                    b.insert_calibration(mk(k));
                }
            }
            a.extend(b);
            Ok(a)
        }
        Route::FromVec => Ok(Calibrations {
            calibrations: CalibrationSet::from((0..defs.len()).map(mk).collect::<Vec<_>>()),
            measure_calibrations: CalibrationSet::new(),
        }),
    }
}

fn build_meas_set(ctx: &Ctx, defs: &[AM], route: Route) -> Result<Calibrations, String> {
    let mk = |k: usize| MeasureCalibrationDefinition {
        identifier: ctx.mident(&defs[k]),
        instructions: body(k),
    };
    match route {
        Route::Text => {
            let p = Program::from_str(&meas_defs_text(defs)).map_err(|e| format!("parse: {e}"))?;
            let mut p2 = Program::new();
            for k in 0..defs.len() {
                p2.add_instruction(Instruction::MeasureCalibrationDefinition(mk(k)));
            }
            if p.calibrations != p2.calibrations {
                return Err("parsed DEFCAL MEASUREs differ from API-built ones".into());
            }
            Ok(p.calibrations)
        }
        Route::Api => {
            let mut p = Program::new();
            for k in 0..defs.len() {
                p.add_instruction(Instruction::MeasureCalibrationDefinition(mk(k)));
            }
            Ok(p.calibrations)
        }
        Route::Extend(split) => {
            let mut a = Calibrations::default();
            let mut b = Calibrations::default();
            for k in 0..defs.len() {
                if k < split {
                    a.insert_measurement_calibration(mk(k));
                } else {
                    b.insert_measurement_calibration(mk(k));
                }
            }
            a.extend(b);
            Ok(a)
        }
        Route::FromVec => Ok(Calibrations {
            calibrations: CalibrationSet::new(),
            measure_calibrations: CalibrationSet::from((0..defs.len()).map(mk).collect::<Vec<_>>()),
        }),
    }
}

// ---------------------------------------------------------------------------------------------
// Mutants: perturb the OBSERVED output, emulating realistic bugs in the modelled Rust code.
//   1  get_match_for_gate keeps the earlier candidate on equal fixed-qubit count (`>` for `>=`)
//   2  CalibrationSet::replace removes the old element and pushes the new one (position lost)
//   3  get_match_for_measurement scans forward (first definition wins)
//   4  matches compares parameters without simplifying (pi/2 vs 1.5707963267948966)
//   5  get_match_for_measurement ignores record-vs-effect
fn mutant() -> u32 {
    std::env::var("QV_MUTANT").ok().and_then(|s| s.parse().ok()).unwrap_or(0)
}

fn observed_gate_answer(cals: &Calibrations, gate: &Gate, mutant: u32) -> Option<usize> {
    let set: Vec<&CalibrationDefinition> = cals.iter_calibrations().collect();
    match mutant {
        1 | 4 => {
            let mut best: Option<(usize, usize)> = None;
            for (i, c) in set.iter().enumerate() {
                let mut m = c.identifier.matches(gate);
                if mutant == 4 && m {
                    m = c.identifier.parameters.iter().zip(gate.parameters.iter()).all(|(a, b)| {
                        matches!(a.clone().into_simplified(), Expression::Variable(_)) || a == b
                    });
                }
                if !m {
                    continue;
                }
                let fixed = c.identifier.qubits.iter().filter(|q| matches!(q, Qubit::Fixed(_))).count();
                best = match best {
                    None => Some((i, fixed)),
                    Some((j, f)) => {
                        let take = if mutant == 1 { fixed > f } else { fixed >= f };
                        if take {
                            Some((i, fixed))
                        } else {
                            Some((j, f))
                        }
                    }
                };
            }
            best.map(|b| b.0)
        }
        _ => cals
            .get_match_for_gate(gate)
            .map(|r| set.iter().position(|c| std::ptr::eq(*c, r)).expect("answer is an element of the set")),
    }
}

fn observed_meas_answer(cals: &Calibrations, m: &Measurement, mutant: u32) -> Option<usize> {
    let set: Vec<&MeasureCalibrationDefinition> = cals.iter_measure_calibrations().collect();
    match mutant {
        3 | 5 => {
            let mut exact = None;
            let mut wild = None;
            let order: Vec<usize> = if mutant == 3 { (0..set.len()).collect() } else { (0..set.len()).rev().collect() };
            for i in order {
                let id = &set[i].identifier;
                if m.name != id.name {
                    continue;
                }
                if mutant != 5 && m.target.is_some() != id.target.is_some() {
                    continue;
                }
                match &id.qubit {
                    Qubit::Fixed(_) if &m.qubit == &id.qubit => {
                        if exact.is_none() {
                            exact = Some(i)
                        }
                    }
                    Qubit::Variable(_) => {
                        if wild.is_none() {
                            wild = Some(i)
                        }
                    }
                    _ => {}
                }
            }
            exact.or(wild)
        }
        _ => cals
            .get_match_for_measurement(m)
            .map(|r| set.iter().position(|c| std::ptr::eq(*c, r)).expect("answer is an element of the set")),
    }
}

/// mutant 2: move every replaced element to the end (as remove + push would)
fn mutate_set_order(markers: &mut Vec<usize>, answers: &mut [Option<usize>], sigs_first: &[usize]) {
    // sigs_first[k] = first definition index with the same signature as definition k
    let mut order: Vec<usize> = Vec::new(); // definition indices, remove+push semantics
    for k in 0..sigs_first.len() {
        if let Some(pos) = order.iter().position(|&j| sigs_first[j] == sigs_first[k]) {
            order.remove(pos);
        }
        order.push(k);
    }
    let old = markers.clone();
    for a in answers.iter_mut() {
        if let Some(i) = a {
            *i = order.iter().position(|&d| d == old[*i]).unwrap();
        }
    }
    *markers = order;
}

// ---------------------------------------------------------------------------------------------
struct Stats {
    expand_checked: u64,
}

fn run_gate_case(
    run: &mut Run,
    ctx: &Ctx,
    defs: &[AG],
    queries: &[AG],
    queries_coq: &str,
    route: Route,
    tag: &str,
    stats: &mut Stats,
) {
    let mt = mutant();
    let cals = match build_gate_set(ctx, defs, route) {
        Ok(c) => c,
        Err(e) => {
            run.process_failure(&format!("cannot build calibration set: {e}"), &gate_defs_text(defs), None);
            return;
        }
    };
    let mut markers: Vec<usize> = cals.iter_calibrations().map(|c| c.instructions.len() - 1).collect();
    let mut answers: Vec<Option<usize>> = Vec::with_capacity(queries.len());
    for (qi, q) in queries.iter().enumerate() {
        let gate = ctx.gate(q);
        let a = observed_gate_answer(&cals, &gate, mt);
        // Program::expand_calibrations must use exactly this calibration (bodies are NOPs)
        if mt == 0 && (qi % 7 == 0 || queries.len() < 20) {
            stats.expand_checked += 1;
            let mut p = Program::new();
            p.calibrations = cals.clone();
            p.add_instruction(Instruction::Gate(gate.clone()));
            let expect: Vec<Instruction> = match a {
                Some(i) => body(markers[i]),
                None => vec![Instruction::Gate(gate.clone())],
            };
            match qv::catch(std::panic::AssertUnwindSafe(|| p.expand_calibrations())) {
                Ok(Ok(e)) if e.body_instructions().cloned().collect::<Vec<_>>() == expect => {}
                other => run.process_failure(
                    &format!(
                        "Program::expand_calibrations does not use the calibration returned by get_match_for_gate ({})",
                        match other {
                            Ok(Ok(_)) => "different body".to_string(),
                            Ok(Err(e)) => format!("error {e}"),
                            Err(p) => format!("panic {p}"),
                        }
                    ),
                    &format!("{}{}", gate_defs_text(defs), gate_text(q)),
                    None,
                ),
            }
        }
        answers.push(a);
    }
    if mt == 2 {
        let first: Vec<usize> = (0..defs.len()).map(|k| defs.iter().position(|d| *d == defs[k]).unwrap()).collect();
        // signature equality on the abstract level: raw expression ids, not alphabet indices
        let first: Vec<usize> = (0..defs.len())
            .map(|k| (0..defs.len()).find(|&j| sig_eq(&defs[j], &defs[k])).unwrap_or(first[k]))
            .collect();
        mutate_set_order(&mut markers, &mut answers, &first);
    }
    let defs_coq: Vec<String> = defs.iter().enumerate().map(|(k, d)| format!("Ca ({}) {k}", g_coq(d))).collect();
    let coq = format!(
        "GateCase {} {} {} {}",
        g::list(&defs_coq),
        g::list(&markers.iter().map(|m| m.to_string()).collect::<Vec<_>>()),
        queries_coq,
        g::list(&answers.iter().map(|a| optn(*a)).collect::<Vec<_>>())
    );
    let desc = format!(
        "[{tag} {route:?}] {} || queries: {}",
        gate_defs_text(defs).replace("    NOP\n", "").replace('\n', " "),
        if queries.len() > 16 { format!("universe of {} gates", queries.len()) } else { queries.iter().map(gate_text).collect::<Vec<_>>().join("; ") }
    );
    let hits = answers.iter().filter(|a| a.is_some()).count();
    let nontrivial = markers.len() >= 2 && hits > 0;
    run.count(&format!("gate defs={} set={}", defs.len(), markers.len()));
    run.count_n("gate queries answered Some", hits as u64);
    run.count_n("gate queries answered None", (answers.len() - hits) as u64);
    if markers.len() < defs.len() {
        run.count("gate cases with a redefinition (replace in place)");
    }
    run.case(coq, &desc, nontrivial, None);
}

fn sig_eq(a: &AG, b: &AG) -> bool {
    a.name == b.name
        && a.mods == b.mods
        && a.qubits == b.qubits
        && a.params.len() == b.params.len()
        && a.params.iter().zip(b.params.iter()).all(|(x, y)| EXPRS[*x].1 == EXPRS[*y].1)
}

fn run_meas_case(
    run: &mut Run,
    ctx: &Ctx,
    defs: &[AM],
    queries: &[AM],
    queries_coq: &str,
    route: Route,
    tag: &str,
    stats: &mut Stats,
) {
    let mt = mutant();
    let cals = match build_meas_set(ctx, defs, route) {
        Ok(c) => c,
        Err(e) => {
            run.process_failure(&format!("cannot build calibration set: {e}"), &meas_defs_text(defs), None);
            return;
        }
    };
    let mut markers: Vec<usize> = cals.iter_measure_calibrations().map(|c| c.instructions.len() - 1).collect();
    let mut answers: Vec<Option<usize>> = Vec::with_capacity(queries.len());
    for (qi, q) in queries.iter().enumerate() {
        let m = ctx.measurement(q);
        let a = observed_meas_answer(&cals, &m, mt);
        if mt == 0 && (qi % 5 == 0 || queries.len() < 20) {
            stats.expand_checked += 1;
            let mut p = Program::new();
            p.calibrations = cals.clone();
            p.add_instruction(Instruction::Measurement(m.clone()));
            let expect: Vec<Instruction> = match a {
                Some(i) => body(markers[i]),
                None => vec![Instruction::Measurement(m.clone())],
            };
            match qv::catch(std::panic::AssertUnwindSafe(|| p.expand_calibrations())) {
                Ok(Ok(e)) if e.body_instructions().cloned().collect::<Vec<_>>() == expect => {}
                _ => run.process_failure(
                    "Program::expand_calibrations does not use the calibration returned by get_match_for_measurement",
                    &format!("{}{}", meas_defs_text(defs), meas_text(q, false)),
                    None,
                ),
            }
        }
        answers.push(a);
    }
    if mt == 2 {
        let first: Vec<usize> = (0..defs.len()).map(|k| defs.iter().position(|d| *d == defs[k]).unwrap()).collect();
        mutate_set_order(&mut markers, &mut answers, &first);
    }
    let defs_coq: Vec<String> = defs.iter().enumerate().map(|(k, d)| format!("Mc ({}) {k}", m_coq(d))).collect();
    let coq = format!(
        "MeasCase {} {} {} {}",
        g::list(&defs_coq),
        g::list(&markers.iter().map(|m| m.to_string()).collect::<Vec<_>>()),
        queries_coq,
        g::list(&answers.iter().map(|a| optn(*a)).collect::<Vec<_>>())
    );
    let desc = format!(
        "[{tag} {route:?}] {} || queries: {}",
        meas_defs_text(defs).replace("    NOP\n", "").replace('\n', " "),
        if queries.len() > 16 { format!("universe of {} measurements", queries.len()) } else { queries.iter().map(|q| meas_text(q, false)).collect::<Vec<_>>().join("; ") }
    );
    let hits = answers.iter().filter(|a| a.is_some()).count();
    let nontrivial = markers.len() >= 2 && hits > 0;
    run.count(&format!("meas defs={} set={}", defs.len(), markers.len()));
    run.count_n("meas queries answered Some", hits as u64);
    run.count_n("meas queries answered None", (answers.len() - hits) as u64);
    if markers.len() < defs.len() {
        run.count("meas cases with a redefinition (replace in place)");
    }
    run.case(coq, &desc, nontrivial, None);
}

/// all sequences over `alpha` of length exactly `len`
fn sequences<T: Clone>(alpha: &[T], len: usize, f: &mut dyn FnMut(&[T])) {
    fn go<T: Clone>(alpha: &[T], len: usize, cur: &mut Vec<T>, f: &mut dyn FnMut(&[T])) {
        if cur.len() == len {
            f(cur);
            return;
        }
        for a in alpha {
            cur.push(a.clone());
            go(alpha, len, cur, f);
            cur.pop();
        }
    }
    go(alpha, len, &mut Vec::new(), f);
}

fn main() {
    let args = Args::parse();
    let thorough = args.thorough();
    let ctx = Ctx { pool: (0..3).map(|_| QubitPlaceholder::default()).collect() };
    let mut stats = Stats { expand_checked: 0 };

    // ---- universes ---------------------------------------------------------------------------
    // U1: one parameter, one qubit
    let mut u1: Vec<AG> = Vec::new();
    let mut u1_small: Vec<AG> = Vec::new();
    for name in 0..2 {
        for mods in [vec![], vec![M::D]] {
            for p in 0..3 {
                for q in [Q::F(0), Q::F(1), Q::V(0)] {
                    let a = AG { name, mods: mods.clone(), params: vec![p], qubits: vec![q] };
                    // quick tier, length 3: RX without modifiers plus one foreign identifier
                    if name == 1 && (mods.is_empty() || (p == 2 && q == Q::V(0))) {
                        u1_small.push(a.clone());
                    }
                    u1.push(a);
                }
            }
        }
    }
    let mut q1: Vec<AG> = Vec::new();
    for name in 0..2 {
        for mods in [vec![], vec![M::D]] {
            for p in 0..5 {
                for q in [Q::F(0), Q::F(1), Q::V(0)] {
                    q1.push(AG { name, mods: mods.clone(), params: vec![p], qubits: vec![q] });
                }
            }
        }
    }
    // U2: two qubits, no parameter
    let qs4 = [Q::F(0), Q::F(1), Q::V(0), Q::V(1)];
    let mut u2: Vec<AG> = Vec::new();
    let mut u2_small: Vec<AG> = Vec::new();
    for a in qs4 {
        for b in qs4 {
            let x = AG { name: 0, mods: vec![], params: vec![], qubits: vec![a, b] };
            if a != Q::V(1) && b != Q::V(1) {
                u2_small.push(x.clone());
            }
            u2.push(x);
        }
    }
    let mut q2: Vec<AG> = Vec::new();
    for a in [Q::F(0), Q::F(1), Q::F(2), Q::V(0)] {
        for b in [Q::F(0), Q::F(1), Q::F(2), Q::V(0)] {
            q2.push(AG { name: 0, mods: vec![], params: vec![], qubits: vec![a, b] });
        }
    }
    // U3: measurement calibrations
    let mut u3: Vec<AM> = Vec::new();
    let mut u3_small: Vec<AM> = Vec::new();
    for name in [None, Some(0)] {
        for q in qs4 {
            for t in [None, Some(0), Some(1)] {
                let x = AM { name, qubit: q, target: t };
                if q != Q::V(1) && t != Some(1) {
                    u3_small.push(x.clone());
                }
                u3.push(x);
            }
        }
    }
    let mut q3: Vec<AM> = Vec::new();
    for name in [None, Some(0), Some(1)] {
        for q in [Q::F(0), Q::F(1), Q::F(2), Q::V(0)] {
            for t in [None, Some(0)] {
                q3.push(AM { name, qubit: q, target: t });
            }
        }
    }

    let hdr = format!(
        "{}\nDefinition q1 : list gate := {}.\nDefinition q2 : list gate := {}.\nDefinition q3 : list meas := {}.",
        header(),
        g::list(&q1.iter().map(|x| g_coq(x)).collect::<Vec<_>>()),
        g::list(&q2.iter().map(|x| g_coq(x)).collect::<Vec<_>>()),
        g::list(&q3.iter().map(|x| m_coq(x)).collect::<Vec<_>>()),
    );
    let mut run = Run::new(&args.out, &hdr, "case", "failing tbl", 400);
    verify_alphabet(&mut run);

    // ---- exhaustive scopes --------------------------------------------------------------------
    for len in 0..=3usize {
        let a1: &[AG] = if len < 3 || thorough { &u1 } else { &u1_small };
        sequences(a1, len, &mut |defs| run_gate_case(&mut run, &ctx, defs, &q1, "q1", Route::Text, "U1", &mut stats));
        let a2: &[AG] = if len < 3 || thorough { &u2 } else { &u2_small };
        sequences(a2, len, &mut |defs| run_gate_case(&mut run, &ctx, defs, &q2, "q2", Route::Text, "U2", &mut stats));
        let a3: &[AM] = if len < 3 || thorough { &u3 } else { &u3_small };
        sequences(a3, len, &mut |defs| run_meas_case(&mut run, &ctx, defs, &q3, "q3", Route::Text, "U3", &mut stats));
    }
    let exhaustive_cases = run.evaluations;

    // ---- seeded random stream: larger sets, mixed arities, modifier orders, placeholders, all
    //      construction routes, redefinitions forced by drawing from a small pool ---------------
    let mut rng = Rng::new(args.seed);
    let nrand = if thorough { 20000 } else { 1500 };
    let modlists: [&[M]; 7] = [&[], &[], &[M::D], &[M::C], &[M::C, M::D], &[M::D, M::C], &[M::F]];
    for _ in 0..nrand {
        let nq = rng.range(1, 3);
        let np = rng.range(0, 2);
        let mods_a = modlists[rng.below(modlists.len())].to_vec();
        let mods_b = modlists[rng.below(modlists.len())].to_vec();
        let use_ph = rng.chance(1, 8);
        let rand_ident = |rng: &mut Rng, cal: bool| -> AG {
            let qubits = (0..nq)
                .map(|_| {
                    if use_ph && rng.chance(1, 6) {
                        Q::P(rng.below(3) as u64)
                    } else if rng.chance(1, 2) {
                        Q::F(rng.below(if cal { 2 } else { 3 }) as u64)
                    } else if cal || rng.chance(1, 3) {
                        Q::V(rng.below(2) as u64)
                    } else {
                        Q::F(rng.below(2) as u64)
                    }
                })
                .collect();
            let params = (0..np).map(|_| rng.below(EXPRS.len())).collect();
            AG {
                name: if rng.chance(5, 6) { 0 } else { 1 },
                mods: if rng.chance(3, 4) { mods_a.clone() } else { mods_b.clone() },
                params,
                qubits,
            }
        };
        let pool_n = rng.range(2, 5);
        let pool: Vec<AG> = (0..pool_n).map(|_| rand_ident(&mut rng, true)).collect();
        let ndefs = rng.range(2, 8);
        let defs: Vec<AG> = (0..ndefs).map(|_| pool[rng.below(pool.len())].clone()).collect();
        let mut queries: Vec<AG> = Vec::new();
        for _ in 0..rng.range(6, 10) {
            if rng.chance(2, 3) {
                // instantiate a definition: variables -> something, literal parameters kept or perturbed
                let d = pool[rng.below(pool.len())].clone();
                let qubits = d
                    .qubits
                    .iter()
                    .map(|q| match q {
                        Q::V(_) | Q::P(_) => {
                            if use_ph && rng.chance(1, 8) {
                                Q::P(rng.below(3) as u64)
                            } else if rng.chance(1, 6) {
                                Q::V(rng.below(2) as u64)
                            } else {
                                Q::F(rng.below(3) as u64)
                            }
                        }
                        Q::F(n) => {
                            if rng.chance(1, 6) {
                                Q::F((n + 1) % 3)
                            } else {
                                Q::F(*n)
                            }
                        }
                    })
                    .collect();
                let params = d
                    .params
                    .iter()
                    .map(|&p| if rng.chance(1, 2) { rng.below(EXPRS.len()) } else { p })
                    .collect();
                queries.push(AG { name: d.name, mods: d.mods.clone(), params, qubits });
            } else {
                queries.push(rand_ident(&mut rng, false));
            }
        }
        let any_ph = defs.iter().any(has_ph_g);
        let route = match rng.below(4) {
            0 if !any_ph => Route::Text,
            1 => Route::Extend(rng.below(ndefs + 1)),
            2 => Route::FromVec,
            _ => Route::Api,
        };
        run.count(&format!("random gate route {}", match route { Route::Text => "text", Route::Api => "api", Route::Extend(_) => "extend", Route::FromVec => "from-vec" }));
        let qc = g::list(&queries.iter().map(g_coq).collect::<Vec<_>>());
        run_gate_case(&mut run, &ctx, &defs, &queries, &qc, route, "R", &mut stats);
    }
    for _ in 0..nrand {
        let use_ph = rng.chance(1, 8);
        let rand_m = |rng: &mut Rng, cal: bool| -> AM {
            AM {
                name: match rng.below(4) { 0 => Some(0), 1 if !cal => Some(1), _ => None },
                qubit: if use_ph && rng.chance(1, 6) {
                    Q::P(rng.below(3) as u64)
                } else if rng.chance(1, 2) {
                    Q::F(rng.below(if cal { 2 } else { 3 }) as u64)
                } else {
                    Q::V(rng.below(2) as u64)
                },
                target: match rng.below(3) { 0 => None, 1 => Some(0), _ => Some(1) },
            }
        };
        let pool_n = rng.range(2, 6);
        let pool: Vec<AM> = (0..pool_n).map(|_| rand_m(&mut rng, true)).collect();
        let ndefs = rng.range(2, 8);
        let defs: Vec<AM> = (0..ndefs).map(|_| pool[rng.below(pool.len())].clone()).collect();
        let queries: Vec<AM> = (0..rng.range(6, 10)).map(|_| rand_m(&mut rng, false)).collect();
        let any_ph = defs.iter().any(|d| matches!(d.qubit, Q::P(_)));
        let route = match rng.below(4) {
            0 if !any_ph => Route::Text,
            1 => Route::Extend(rng.below(ndefs + 1)),
            2 => Route::FromVec,
            _ => Route::Api,
        };
        let qc = g::list(&queries.iter().map(m_coq).collect::<Vec<_>>());
        run_meas_case(&mut run, &ctx, &defs, &queries, &qc, route, "R", &mut stats);
    }

    run.count_n("expand_calibrations cross-checks", stats.expand_checked);
    run.finish(
        "exhaustive: every definition sequence of length <= 3 (length 3 over the reduced alphabets in quick tier) over \
         U1 = {X,RX} x {[],[DAGGER]} x {pi/2,1,%t} x {0,1,q}, U2 = X x {0,1,q,r}^2, U3 = MEASURE{,!foo} x {0,1,q,r} x {effect,addr,b}, \
         each queried with the whole universe of gates / measurements (60 / 16 / 24 queries, including \
         1.5707963267948966, %s, an unmatched qubit 2 and a variable qubit); plus seeded random sets of 2..8 \
         definitions drawn from a pool of 2..5 identifiers (forcing redefinitions) with 1..3 qubits, 0..2 parameters, \
         modifier lists incl. both orders of CONTROLLED/DAGGER, placeholders, built via text / add_instruction / \
         extend / CalibrationSet::from. Distinct by definition sequence + route + queries; non-trivial = the \
         resulting set has >= 2 calibrations and at least one query is matched.",
        true,
        serde_json::json!({"exhaustive_cases": exhaustive_cases, "random_cases": 2 * nrand, "mutant": mutant()}),
    );
}
