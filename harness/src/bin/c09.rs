//! C09 — all instruction views of a program agree.
//! For generated instruction sequences the real Program is built and its `to_instructions()`,
//! `into_instructions()`, `body_instructions()`, `get_used_qubits()` are observed, together with
//! the program rebuilt from the listing and the `==` verdict between the two.
#[path = "../proggen.rs"]
mod proggen;
use proggen::*;
use qv::{Args, Rng, Run};
use quil_rs::instruction::Instruction;
use quil_rs::program::Program;
use quil_rs::quil::Quil;

fn mutate(m: u32, sa: &[AI], toi: &mut Vec<AI>, intoi: &mut Vec<AI>, bodyi: &mut Vec<AI>) {
    match m {
        // the consuming listing drops the unnamed PRAGMA EXTERN
        1 => intoi.retain(|x| !matches!(x, AI::Extern { name: None, .. })),
        // a redefinition keeps the FIRST value (entry().or_insert) for memory regions
        2 => {
            for x in toi.iter_mut().chain(intoi.iter_mut()) {
                if let AI::Decl { name, .. } = x {
                    if let Some(first) = sa.iter().find(|y| matches!(y, AI::Decl { name: n, .. } if n == name)) {
                        *x = first.clone();
                    }
                }
            }
        }
        // body view reversed
        3 => bodyi.reverse(),
        // a redefined waveform moves to the end (remove + push instead of replace in place)
        4 => {
            let mut seen: Vec<u64> = Vec::new();
            let mut moved: Option<u64> = None;
            for y in sa {
                if let AI::WaveDef { name, .. } = y {
                    if seen.contains(name) {
                        moved = Some(*name);
                    }
                    seen.push(*name);
                }
            }
            if let Some(nm) = moved {
                for l in [&mut *toi, &mut *intoi] {
                    let idx: Vec<usize> = l.iter().enumerate().filter(|(_, x)| matches!(x, AI::WaveDef { .. })).map(|(i, _)| i).collect();
                    if let Some(pos) = idx.iter().position(|i| matches!(&l[*i], AI::WaveDef { name, .. } if *name == nm)) {
                        // rotate the moved entry to the last waveform slot
                        let mut waves: Vec<AI> = idx.iter().map(|i| l[*i].clone()).collect();
                        let w = waves.remove(pos);
                        waves.push(w);
                        for (slot, w) in idx.iter().zip(waves) {
                            l[*slot] = w;
                        }
                    }
                }
            }
        }
        _ => {}
    }
}

fn run_seq(run: &mut Run, u: &mut U, sa: &[AI], mutant: u32) {
    let concrete: Vec<Instruction> = u.conc_all(sa);
    let p = Program::from_instructions(concrete.clone());
    let mut toi = u.abs_all(&p.to_instructions());
    let mut intoi = u.abs_all(&p.clone().into_instructions());
    let body: Vec<Instruction> = p.body_instructions().cloned().collect();
    let mut bodyi = u.abs_all(&body);
    let used = u.used(&p);
    let q = Program::from_instructions(p.to_instructions());
    let ort = u.obs(&q);
    let e = p == q;
    mutate(mutant, sa, &mut toi, &mut intoi, &mut bodyi);

    // harness-level oracles: the From<Vec<Instruction>> builder equals from_instructions, and the
    // rebuilt program serialises identically
    let via_from: Program = concrete.into();
    if via_from != p {
        run.process_failure("Program::from(Vec<Instruction>) != Program::from_instructions", &u.describe(sa), None);
    }
    let known = pending_tag(sa);
    if p.to_quil_or_debug() != q.to_quil_or_debug() {
        run.process_failure("rebuilt program serialises differently", &u.describe(sa), known);
    }

    let coq = format!(
        "({}, ({}, {}, {}, {}), {}, {})",
        u.coq_list(sa),
        u.coq_list(&toi),
        u.coq_list(&intoi),
        u.coq_list(&bodyi),
        coq_ns(&used),
        u.coq_obs(&ort),
        coq_bool(e)
    );
    let desc = u.describe(sa);
    let redefinition = sa.iter().enumerate().any(|(i, y)| y.route().is_some() && sa[..i].iter().any(|x| x.route() == y.route()));
    let nontrivial = redefinition || has_extern(sa);
    run.count(if redefinition { "with-redefinition" } else { "no-redefinition" });
    if has_extern(sa) {
        run.count("with-extern-pragma");
    }
    run.count(&format!("len={}", sa.len().min(12)));
    report_unknown(u, run, &desc);
    run.case(coq, &desc, nontrivial, known);
}

fn main() {
    let args = Args::parse();
    let mutant: u32 = std::env::var("QV_MUTANT").ok().and_then(|s| s.parse().ok()).unwrap_or(0);
    let header = "From Coq Require Import List NArith.\nFrom QV Require Import Model.Program.\nImport ListNotations.\nOpen Scope N_scope.";
    let mut run = Run::new(&args.out, header, "c09_case", "c09_failing", 1000);
    let mut u = U::new();

    let alphabet = vec![
        AI::Decl { name: 0, payload: 0 },
        AI::Decl { name: 0, payload: 1 },
        AI::Decl { name: 1, payload: 0 },
        // same type and length as payload 0, differs only in SHARING
        AI::Decl { name: 0, payload: 4 },
        AI::Calib { sig: 0, payload: 0 },
        AI::Calib { sig: 0, payload: 1 },
        AI::Extern { name: None, payload: 0 },
        AI::Extern { name: None, payload: 1 },
        AI::Extern { name: Some(0), payload: 0 },
        AI::Extern { name: Some(0), payload: 1 },
        AI::CircuitDef { name: 0, payload: 1 },
        AI::Body { k: 0, qs: vec![0] },
        AI::Body { k: 28, qs: vec![] },
    ];
    let maxlen = if args.thorough() { 4 } else { 3 };
    let mut frontier: Vec<Vec<AI>> = vec![vec![]];
    run_seq(&mut run, &mut u, &[], mutant);
    let mut n_ex = 1u64;
    for _ in 0..maxlen {
        let mut next = Vec::new();
        for s in &frontier {
            for x in &alphabet {
                let mut t = s.clone();
                t.push(x.clone());
                run_seq(&mut run, &mut u, &t, mutant);
                n_ex += 1;
                next.push(t);
            }
        }
        frontier = next;
    }

    let mut rng = Rng::new(args.seed);
    let g = Gen { nkeys: 3, npayloads: 3, placeholders: false, variables: true };
    let nrand = if args.thorough() { 3000 } else { 400 };
    for i in 0..nrand {
        let s = if i % 3 == 0 {
            let len = rng.range(1, 12);
            g.seq(&mut rng, &mut u, len)
        } else {
            g.rich_seq(&mut rng, &mut u)
        };
        run_seq(&mut run, &mut u, &s, mutant);
    }
    run.finish(
        "instruction sequences added to an empty Program. Exhaustive part: every sequence up to the \
         stated length over a 13-instruction alphabet (two DECLARE names with redefinitions differing in length and in SHARING only, DEFCAL \
         redefinition with different qubits, named and unnamed PRAGMA EXTERN with redefinitions, a \
         DEFCIRCUIT, a gate and a non-EXTERN pragma). Random part: seeded sequences with 2-4 \
         definitions of every kind. Non-trivial = contains a redefinition or a PRAGMA EXTERN.",
        true,
        serde_json::json!({"exhaustive_max_len": maxlen, "exhaustive_cases": n_ex, "random_cases": nrand, "mutant": mutant}),
    );
}
