//! C01 — parsing never panics or aborts on any input text.
//!
//! Process-level oracle (primary): every generated text is fed to all five parsing entry points of
//! the real crate under `qv::catch`; deep-nesting inputs run in a child process (re-exec of this
//! binary) with a timeout.  Every observation is shipped to Coq as (entry, token stream of the real
//! lexer, outcome class); there the verified verdict `chk_outcome` (outcome is a value or an error)
//! is applied and, where the token-level model of ParsePanic.v covers the input, the model's
//! outcome class is compared with the implementation's.
//!
//! Composition cases (`CBytes`, description prefix `Bytes:`; see `Ctx::observe_comp`): for a sample
//! of the texts the UTF-8 bytes are shipped together with the ParsePanic token list derived from the
//! REAL token stream and the real outcome; coq/Model/LexParse.v lexes the bytes with the byte-level
//! lexer model, converts the tokens with `conv` (the Gallina counterpart of `quilgen::tok_to_coq`),
//! requires the result to EQUAL the shipped list (code 4) and compares the composed model's outcome
//! (incl. the DEF* grammar, `run_full`) with the real one (code 1).  All other cases are wrapped in
//! `CBase` and additionally judged by `run_full` where `run` answers "not modelled" (DEF* commands).
//! Mutants 9 (swallowed lex error), 10 (definition without colon accepted), 11 (`mut` not a keyword).
#[path = "../quilgen.rs"]
mod quilgen;

use quilgen::Interner;
use qv::{Args, Rng, Run};
use std::str::FromStr;

#[derive(Clone, Copy, PartialEq, Debug)]
enum Out {
    Ok,
    Err,
    Panic,
}

const ENTRIES: [&str; 5] = ["EProgram", "EInstruction", "EExpression", "EMemRef", "EFrame"];

fn run_entry(entry: usize, text: &str) -> (Out, String) {
    let t = text.to_string();
    let r = match entry {
        0 => qv::catch(move || quil_rs::Program::from_str(&t).is_ok()),
        1 => qv::catch(move || quil_rs::instruction::Instruction::from_str(&t).is_ok()),
        2 => qv::catch(move || quil_rs::expression::Expression::from_str(&t).is_ok()),
        3 => qv::catch(move || quil_rs::instruction::MemoryReference::from_str(&t).is_ok()),
        _ => qv::catch(move || quil_rs::instruction::FrameIdentifier::from_str(&t).is_ok()),
    };
    match r {
        Ok(true) => (Out::Ok, String::new()),
        Ok(false) => (Out::Err, String::new()),
        Err(msg) => (Out::Panic, msg),
    }
}

/// The crate-private lexer through hook H2, with a panic reported instead of killing the harness.
fn safe_lex(text: &str) -> Result<Option<Vec<String>>, String> {
    let t = text.to_string();
    qv::catch(move || quil_rs::verif::lex_debug(&t).ok())
}

fn out_coq(o: Out) -> &'static str {
    match o {
        Out::Ok => "OOk",
        Out::Err => "OErr",
        Out::Panic => "OPanic",
    }
}

/// Known-finding class of an input.  (The pending-fix classes for the operand-sign, NONBLOCKING and
/// operand-range panics were removed when the corresponding `fix:` commits landed in /repo.)
fn known_class(_toks: Option<&Vec<String>>, _out: Out, _msg: &str) -> Option<&'static str> {
    None
}

struct Ctx {
    run: Run,
    mutant: u32,
    panics: u64,
}

fn toks_to_coq(t: &[String]) -> Option<String> {
    let mut it = Interner::default();
    let v: Option<Vec<String>> = t.iter().map(|x| quilgen::tok_to_coq(x, &mut it)).collect();
    v.map(|v| format!("[{}]", v.join("; ")))
}

impl Ctx {
    /// run the implementation; apply the emulated bug selected by QV_MUTANT to the observed outcome
    fn observed(&self, entry: usize, text: &str) -> (Out, String, Option<Vec<String>>) {
        let (mut out, mut msg) = run_entry(entry, text);
        let toks = match safe_lex(text) {
            Ok(t) => t,
            Err(m) => {
                // the lexer itself panicked (the entry point may have caught nothing if it failed earlier)
                out = Out::Panic;
                msg = m;
                None
            }
        };
        if let Some(t) = &toks {
            let ts: Vec<&str> = t.iter().map(|s| s.as_str()).collect();
            match self.mutant {
                // 1: the incomplete bracket group `NEG ro[1` is accepted as a memory reference
                1 if entry <= 1 && ts.len() == 4 && ts[0] == "COMMAND(NEG)" && ts[2] == "LBRACKET" && ts[3].starts_with("INTEGER") => out = Out::Ok,
                // 2: NONBLOCKING followed by a command that is not PULSE/CAPTURE/RAW-CAPTURE panics again
                2 if entry <= 1 && ts.len() >= 2 && ts[0] == "NONBLOCKING" && ts[1] == "COMMAND(MEASURE)" => out = Out::Panic,
                // 3: DELAY's integer-duration fallback dropped: `DELAY 1 1` is rejected
                3 if entry <= 1 && ts.len() == 3 && ts[0] == "COMMAND(DELAY)" && ts[1].starts_with("INTEGER") && ts[2].starts_with("INTEGER") => out = Out::Err,
                // 4: a second prefix minus is accepted in an expression (`- - 1`)
                4 if entry == 2 && ts.len() == 3 && ts[0] == "OPERATOR(-)" && ts[1] == "OPERATOR(-)" && ts[2].starts_with("INTEGER") => out = Out::Ok,
                // 5: off-by-one in the operand range check: `MOVE ro 9223372036854775808` accepted
                5 if entry <= 1 && ts.len() == 3 && ts[0] == "COMMAND(MOVE)" && ts[2] == "INTEGER(9223372036854775808)" => out = Out::Ok,
                // 10: DEFCIRCUIT / DEFCAL accept a definition whose colon is missing
                10 if entry <= 1 && ts.len() >= 3 && (ts[0] == "COMMAND(DEFCIRCUIT)" || ts[0] == "COMMAND(DEFCAL)") && !ts.contains(&"COLON") && out == Out::Err => out = Out::Ok,
                _ => {}
            }
        }
        let mut toks = toks;
        match (self.mutant, &mut toks) {
            // 9: a lex error is swallowed, the program entry point returns an empty program
            (9, None) if entry == 0 && out == Out::Err => out = Out::Ok,
            // 11: the keyword table lost `mut`: it is lexed as an ordinary identifier
            (11, Some(t)) => {
                for x in t.iter_mut() {
                    if x == "mut" {
                        *x = "IDENTIFIER(mut)".to_string();
                    }
                }
            }
            _ => {}
        }
        (out, msg, toks)
    }

    fn tally(&mut self, class: &str, out: Out, msg: &str, desc: &str) {
        self.run.count(&format!("{class}:{}", out_coq(out)));
        if out == Out::Panic {
            self.panics += 1;
            if self.panics <= 5 {
                self.run.note(&format!("panic ({msg}) on {desc}"));
            }
        }
    }

    /// Observe `text` at `entry` and ship it as a single case.
    fn observe(&mut self, entry: usize, text: &str, class: &str) -> Out {
        let (out, msg, toks) = self.observed(entry, text);
        self.ship_single(entry, text, class, out, &msg, toks.as_ref());
        out
    }

    /// Observe `text` at `entry` once and ship it twice: as a single case (real token stream +
    /// outcome, judged by the token-level parser model) and as a composition case `CBytes` (the
    /// text's bytes + the same abstraction of the real token stream + outcome), judged in Coq by
    /// `LexParse.bytes_code`: the byte-level lexer model followed by `conv` must reproduce the
    /// shipped token list exactly (code 4 otherwise), and the composed model `parse_bytes_full`
    /// must have the observed outcome class (lex error = the entry point returns an error).
    fn observe_comp(&mut self, entry: usize, text: &str, class: &str) -> Out {
        let (out, msg, toks) = self.observed(entry, text);
        self.ship_single(entry, text, class, out, &msg, toks.as_ref());
        if text.len() > 400 {
            self.run.count("composition:skipped-longer-than-400-bytes");
            return out;
        }
        let tl = match toks.as_ref() {
            None => "None".to_string(),
            Some(t) => match toks_to_coq(t) {
                Some(l) => format!("(Some {l})"),
                None => {
                    self.run.process_failure(&format!("harness cannot abstract the token stream {t:?}"), text, None);
                    return out;
                }
            },
        };
        let bytes: Vec<String> = text.as_bytes().iter().map(|b| b.to_string()).collect();
        let coq = format!("CBytes {} [{}] {} {}", ENTRIES[entry], bytes.join(";"), tl, out_coq(out));
        let desc = format!("Bytes:{} {:?}", &ENTRIES[entry][1..], text);
        self.run.count(&format!("composition:{class}:{}", if toks.is_some() { out_coq(out) } else { "lex-error" }));
        if let Some(t) = toks.as_ref() {
            if t.iter().any(|x| x.starts_with("COMMAND(DEF")) {
                self.run.count(&format!("composition:with-definition:{}", out_coq(out)));
            }
        }
        self.run.case(coq, &desc, toks.is_some(), None);
        out
    }

    fn ship_single(&mut self, entry: usize, text: &str, class: &str, out: Out, msg: &str, toks: Option<&Vec<String>>) {
        let known = known_class(toks, out, msg);
        let tl = toks.and_then(|t| toks_to_coq(t)).map(|l| format!("(Some {l})"));
        if toks.is_none() {
            self.run.count("lex-error");
        }
        let coq = format!("CBase (CSingle {} {} {})", ENTRIES[entry], tl.unwrap_or_else(|| "None".into()), out_coq(out));
        let desc = format!("{} {:?}", &ENTRIES[entry][1..], text);
        self.tally(class, out, msg, &desc);
        // non-trivial: the lexer accepted the text (the parser proper was exercised)
        self.run.case(coq, &desc, toks.is_some(), known);
    }

    /// All texts `prefix + " " + a` for `a` in the alphabet, at `entry`, as one grouped case (or as
    /// singles if the real lexer does not split some text into `lex(prefix) ++ lex(a)`).
    fn group(&mut self, entry: usize, alpha_id: &str, alpha: &[&str], alpha_toks: &[String], prefix: &str, class: &str) {
        let ptoks = safe_lex(prefix).unwrap_or(None);
        let mut obs = Vec::with_capacity(alpha.len());
        let mut compositional = ptoks.is_some();
        for (k, a) in alpha.iter().enumerate() {
            let text = format!("{prefix} {a}");
            let (out, msg, toks) = self.observed(entry, &text);
            if compositional {
                let p = ptoks.as_ref().unwrap();
                match &toks {
                    Some(t) if t.len() == p.len() + 1 && t[..p.len()] == p[..] && t[p.len()] == alpha_toks[k] => {}
                    _ => compositional = false,
                }
            }
            if out == Out::Panic {
                compositional = false; // ship individually so that the case is reported precisely
            }
            obs.push((text, out, msg, toks));
        }
        if !compositional {
            for (text, out, msg, toks) in obs {
                self.ship_single(entry, &text, class, out, &msg, toks.as_ref());
            }
            return;
        }
        let n_err = obs.iter().filter(|o| o.1 == Out::Err).count();
        let default = if 2 * n_err >= obs.len() { Out::Err } else { Out::Ok };
        let ex: Vec<String> = obs
            .iter()
            .enumerate()
            .filter(|(_, o)| o.1 != default)
            .map(|(k, o)| format!("({k}, {})", out_coq(o.1)))
            .collect();
        let coq = format!(
            "CBase (CGroup {} {alpha_id} {} {} [{}])",
            ENTRIES[entry],
            toks_to_coq(ptoks.as_ref().unwrap()).expect("prefix tokens"),
            out_coq(default),
            ex.join("; ")
        );
        let accepted: Vec<&str> = obs.iter().zip(alpha).filter(|(o, _)| o.1 == Out::Ok).map(|(_, a)| *a).collect();
        let desc = format!("{} group {:?} + each token of {alpha_id}; accepted: {:?}", &ENTRIES[entry][1..], prefix, accepted);
        for o in &obs {
            self.run.count(&format!("{class}:{}", out_coq(o.1)));
        }
        self.run.count_n("texts-in-groups", obs.len() as u64);
        self.run.case(coq, &desc, true, None);
    }
}

const FIRST_EXTRA: [&str; 9] = ["NONBLOCKING", "DAGGER", "CONTROLLED", "X", "1", "(", "%v", "\"s\"", ":"];

const ALPHA: [&str; 44] = [
    "ro", "i", "pi", "sin", "[", "]", "1", "9223372036854775808", "1.5", "+", "-", "*", "/", "^", "(", ")",
    ",", ":", "!", "@l", "%v", "\"s\"", "\n", "\t", ";", "BIT", "REAL", "AS", "MATRIX", "PERMUTATION",
    "PAULI-SUM", "SEQUENCE", "SHARING", "OFFSET", "mut", "NONBLOCKING", "DAGGER", "MEASURE", "PULSE",
    "CAPTURE", "RAW-CAPTURE", "HALT", "ADD", "# c",
];

const EXPR_ALPHA: [&str; 18] = [
    "1", "1.5", "i", "pi", "sin", "ro", "%v", "[", "]", "(", ")", "+", "-", "*", "^", ",", "\"s\"", "0",
];

fn child_main(argv: &[String]) {
    // c01 --child <kind> <depth>
    let kind = argv[2].as_str();
    let depth: usize = argv[3].parse().unwrap();
    let text = nest_text(kind, depth);
    let ok = match kind {
        "expr-paren" | "expr-fn" => quil_rs::expression::Expression::from_str(&text).is_ok(),
        _ => quil_rs::Program::from_str(&text).is_ok(),
    };
    println!("done {ok}");
}

fn nest_text(kind: &str, depth: usize) -> String {
    match kind {
        "gate-paren" => format!("RX({}1{}) 0", "(".repeat(depth), ")".repeat(depth)),
        "expr-paren" => format!("{}1{}", "(".repeat(depth), ")".repeat(depth)),
        "expr-fn" => format!("{}1{}", "sin(".repeat(depth), ")".repeat(depth)),
        "infix-chain" => format!("RX({}1) 0", "1+".repeat(depth)),
        "defcal-block" => format!("{}X 0", "DEFCAL X 0:\n\t".repeat(depth)),
        "defcircuit-block" => format!("{}X 0", "DEFCIRCUIT C:\n\t".repeat(depth)),
        "brackets" => format!("MOVE ro{}1{} 1", "[".repeat(depth), "]".repeat(depth)),
        _ => String::new(),
    }
}

/// "ok" | "abort:<status>" | "timeout"
fn run_child(kind: &str, depth: usize) -> String {
    let exe = std::env::current_exe().expect("current_exe");
    let mut child = std::process::Command::new(exe)
        .args(["--child", kind, &depth.to_string()])
        .stdout(std::process::Stdio::piped())
        .stderr(std::process::Stdio::null())
        .spawn()
        .expect("spawn child");
    let t0 = std::time::Instant::now();
    loop {
        match child.try_wait().expect("try_wait") {
            Some(st) => {
                return if st.success() { "ok".into() } else { format!("abort:{st}") };
            }
            None => {
                if t0.elapsed().as_secs() >= 60 {
                    let _ = child.kill();
                    let _ = child.wait();
                    return "timeout".into();
                }
                std::thread::sleep(std::time::Duration::from_millis(5));
            }
        }
    }
}

// =====================================================================================================
// BEGIN byte-level lexer correspondence (coq/Model/Lex.v) -- cases `CLex bytes observation`
//
// Every text of this section is shipped with its UTF-8 bytes and what the REAL lexer did with it
// (hook `quil_rs::verif::lex_debug` under `qv::catch`): the complete token stream, the fact of a lex
// error, or a panic.  In Coq `Lex.lex bytes` (the byte-level model of the whole lexer) is compared
// with it: code 1 on any disagreement, code 2 if the real outcome is a panic, code 3 if the bytes
// are not well-formed UTF-8 according to `Lex.valid_utf8`.
// Mutants (QV_MUTANT): 6 = a tab is skipped as whitespace instead of producing INDENT; 7 = a
// comment swallows the line feed that ends it; 8 = `surrounded` slices the string at the CHARACTER
// index of the closing quote (`chars().enumerate()` instead of `char_indices()`), i.e. off a
// character boundary when a multi-byte character precedes it -> panic.
// =====================================================================================================
mod lexsec {
    use super::{Ctx, Rng};

    /// 24 characters hitting every arm of `lex_token`: a 2-byte and a 3-byte UTF-8 character, quote,
    /// backslash, hash, semicolon, LF, space, tab, the sigils, dash, point, underscore, digits,
    /// letters (`e` = exponent marker, `x` = base prefix), opening bracket / parenthesis, colon,
    /// comma, CR.
    pub const LEX_ALPHA: [&str; 24] = [
        "\u{e9}", "\u{65e5}", "\"", "\\", "#", ";", "\n", " ", "\t", "@", "%", "-", ".", "_", "0", "1", "a", "e",
        "x", "[", "(", ":", ",", "\r",
    ];

    /// longer pieces for the sampled stream (4-space indentation, reserved words of every table,
    /// number forms incl. the failure cases, strings with escapes, wide / odd characters)
    const PIECES: [&str; 58] = [
        "    ", "  ", "DEFGATE", "PAULI-SUM", "mut", "BIT", "DAGGER", "NONBLOCKING", "JUMP-WHEN", "AS", "as", "X",
        "q-r", "a-", "--", "0x1F", "0X_a_", "0b", "0b101", "0o7", "0o8", "1.5e3", "1e", "1e+", "1E-2", "._", "1._1",
        "0._", ".5", "1.", "2_", "18446744073709551615", "18446744073709551616", "1e400", "1e-400", "\"a\\\"b\"",
        "\"\\\\\"", "\"", "\\", "# c", "#", "]", ")", "!", "+", "*", "/", "^", "\u{1F642}", "\u{2028}", "\u{212A}",
        "K", "\u{130}", "\u{feff}", "\u{0}", "\u{a0}", "e\u{301}", "\u{df}",
    ];

    const RESERVED_EXTRA: [&str; 16] = [
        "AS", "MATRIX", "mut", "NONBLOCKING", "OFFSET", "PAULI-SUM", "PERMUTATION", "SEQUENCE", "SHARING", "BIT",
        "OCTET", "REAL", "INTEGER", "CONTROLLED", "DAGGER", "FORKED",
    ];

    const CORPUS: [&str; 72] = [
        "", " ", "\t", "\n", "\r", "\r\n", "\n\r\n", "\r\r\n\n", "\n\n\n", ";;;", "    ", "     ", "        ", "   ",
        "X    Y", "X     Y", "X \tY", "X\t\tY", "\t\tX", "X 0 # c", "    # c", "\t\t# c\nX 0", "# c\r\nX", "#", "#\n#",
        "# \u{e9}\u{65e5}\n\"\u{e9}\"", "\"multi\nline\"", "\"unterminated", "\"a\\", "\"\\\"\"", "\"\\\\\\\"\"", "@", "%", "@a-",
        "%a--b", "a-", "a--b", "a-b-", "_a-2_b-2_", "a-2-%var", "-a", "0._1", "0b10.1", "0x3.4", "1i", "1 + 2i", "0b", "0o.",
        "0x.1", "1e1_000_000", "._1", ".", "1__2__.3__4__e+__1__5__", "0xFFFFFFFFFFFFFFFFFFFFFFFFFFFFFFFF", "DEFGATE Name AS PERMUTATION:\n\t1,0\n    0,1",
        "I 0; RX 1\nCZ 0 1", "\nI 0\n    \n", "\u{feff}X 0", "X\u{a0}0", "0\u{212A}1",
        // spellings that strum does NOT accept for the renamed variants
        "MUTABLE", "Mutable", "NON-BLOCKING", "DEF-CAL", "DEF-GATE", "DEF-CIRCUIT", "DEF-FRAME", "DEF-WAVEFORM", "As", "G-E",
        "PAULISUM", "RAWCAPTURE",
    ];

    fn bytes_coq(b: &[u8]) -> String {
        let v: Vec<String> = b.iter().map(|x| x.to_string()).collect();
        format!("[{}]", v.join(";"))
    }

    /// Undo Rust's `{:?}` escaping of a `str`.
    fn undebug(s: &str) -> Option<String> {
        let inner = s.strip_prefix('"')?.strip_suffix('"')?;
        let mut out = String::new();
        let mut it = inner.chars();
        while let Some(c) = it.next() {
            if c != '\\' {
                out.push(c);
                continue;
            }
            match it.next()? {
                'n' => out.push('\n'),
                'r' => out.push('\r'),
                't' => out.push('\t'),
                '0' => out.push('\0'),
                '\\' => out.push('\\'),
                '"' => out.push('"'),
                '\'' => out.push('\''),
                'u' => {
                    if it.next()? != '{' {
                        return None;
                    }
                    let mut hex = String::new();
                    loop {
                        let h = it.next()?;
                        if h == '}' {
                            break;
                        }
                        hex.push(h);
                    }
                    out.push(char::from_u32(u32::from_str_radix(&hex, 16).ok()?)?);
                }
                _ => return None,
            }
        }
        Some(out)
    }

    /// one token of the real lexer (its `Debug` rendering) as an `Lex.ltoken` literal
    fn tok_coq(dbg: &str) -> Option<String> {
        let simple = match dbg {
            "BANG" => "LtBang",
            "COLON" => "LtColon",
            "COMMA" => "LtComma",
            "INDENT" => "LtIndent",
            "LBRACKET" => "LtLBracket",
            "LPAREN" => "LtLParen",
            "NEWLINE" => "LtNewLine",
            "RBRACKET" => "LtRBracket",
            "RPAREN" => "LtRParen",
            "SEMICOLON" => "LtSemicolon",
            _ => "",
        };
        if !simple.is_empty() {
            return Some(simple.to_string());
        }
        let inner = |p: &str| dbg.strip_prefix(p).and_then(|s| s.strip_suffix(')'));
        for (p, c) in [("COMMAND(", "LtCommand"), ("DATATYPE(", "LtDataType"), ("MODIFIER(", "LtModifier"), ("IDENTIFIER(", "LtIdentifier"), ("VARIABLE(", "LtVariable")] {
            if let Some(x) = inner(p) {
                return Some(format!("{c} {}", bytes_coq(x.as_bytes())));
            }
        }
        if let Some(x) = inner("COMMENT(") {
            return undebug(x).map(|s| format!("LtComment {}", bytes_coq(s.as_bytes())));
        }
        if let Some(x) = inner("STRING(") {
            return undebug(x).map(|s| format!("LtString {}", bytes_coq(s.as_bytes())));
        }
        if let Some(x) = inner("INTEGER(") {
            return x.parse::<u64>().ok().map(|v| format!("LtInteger {v}"));
        }
        if let Some(x) = inner("FLOAT(") {
            // `Display` of a finite f64 is its shortest round-tripping decimal: parsing it back is exact
            return x.parse::<f64>().ok().map(|v| format!("LtFloat (FBits {})", v.to_bits()));
        }
        if let Some(x) = inner("OPERATOR(") {
            return if x.len() == 1 { Some(format!("LtOperator {}", x.as_bytes()[0])) } else { None };
        }
        if let Some(x) = dbg.strip_prefix('@') {
            return Some(format!("LtTarget {}", bytes_coq(x.as_bytes())));
        }
        if RESERVED_EXTRA[..9].contains(&dbg) {
            return Some(format!("LtKeyword {}", bytes_coq(dbg.as_bytes())));
        }
        None
    }

    enum Obs {
        Toks(Vec<String>),
        Err,
        Panic(String),
    }

    /// mutant 8: what `surrounded` would do if it sliced at the character index of the closing quote
    fn enumerate_slice_panics(text: &str) -> bool {
        let Some(start) = text.find('"') else { return false };
        if text[..start].contains('#') {
            return false;
        }
        let s = &text[start..];
        let mut esc = false;
        for (ci, c) in s.chars().enumerate().skip(1) {
            if c == '\\' {
                esc = !esc;
            } else if esc {
                esc = false;
            } else if c == '"' {
                return !(s.is_char_boundary(ci) && s.is_char_boundary(ci + 1));
            }
        }
        false
    }

    pub fn observe_lex(cx: &mut Ctx, text: &str, class: &str) {
        if text.len() > 400 {
            cx.run.count("lexer-bytes:skipped-longer-than-400-bytes");
            return;
        }
        let t = text.to_string();
        let mut obs = match qv::catch(move || quil_rs::verif::lex_debug(&t)) {
            Ok(Ok(toks)) => Obs::Toks(toks),
            Ok(Err(_)) => Obs::Err,
            Err(msg) => Obs::Panic(msg),
        };
        match (cx.mutant, &mut obs) {
            (6, Obs::Toks(toks)) if text.contains('\t') && !text.contains("    ") => toks.retain(|t| t != "INDENT"),
            (7, Obs::Toks(toks)) => {
                let mut k = 0;
                while k + 1 < toks.len() {
                    if toks[k].starts_with("COMMENT(") && toks[k + 1] == "NEWLINE" {
                        toks.remove(k + 1);
                    }
                    k += 1;
                }
            }
            (8, Obs::Toks(_)) if enumerate_slice_panics(text) => {
                obs = Obs::Panic("byte index is not a char boundary (emulated)".into());
            }
            _ => {}
        }
        let desc = format!("Lex {:?}", text);
        let (coq_obs, nontrivial, tag) = match &obs {
            Obs::Toks(toks) => {
                let v: Option<Vec<String>> = toks.iter().map(|t| tok_coq(t)).collect();
                match v {
                    Some(v) => {
                        for t in toks {
                            let kind = t.split('(').next().unwrap_or("");
                            let kind = if kind.starts_with('@') { "TARGET" } else { kind };
                            cx.run.count(&format!("lexer-token:{kind}"));
                        }
                        (format!("(LxToks [{}])", v.join("; ")), !toks.is_empty(), "ok")
                    }
                    None => {
                        cx.run.process_failure(&format!("harness cannot translate the token stream {toks:?}"), &desc, None);
                        return;
                    }
                }
            }
            Obs::Err => ("LxErr".to_string(), false, "lex-error"),
            Obs::Panic(msg) => {
                cx.panics += 1;
                if cx.panics <= 5 {
                    cx.run.note(&format!("lexer panic ({msg}) on {desc}"));
                }
                ("LxPanic".to_string(), true, "PANIC")
            }
        };
        cx.run.count(&format!("lexer-bytes:{class}:{tag}"));
        if !text.is_ascii() {
            cx.run.count(&format!("lexer-bytes:non-ascii:{tag}"));
        }
        cx.run.case(format!("CBase (CLex {} {})", bytes_coq(text.as_bytes()), coq_obs), &desc, nontrivial, None);
    }

    /// all strings of exactly `len` characters over LEX_ALPHA
    fn exhaustive(len: usize, f: &mut dyn FnMut(String)) {
        let mut idx = vec![0usize; len];
        loop {
            f(idx.iter().map(|&k| LEX_ALPHA[k]).collect());
            let mut k = len;
            loop {
                if k == 0 {
                    return;
                }
                k -= 1;
                if idx[k] + 1 < LEX_ALPHA.len() {
                    idx[k] += 1;
                    for j in k + 1..len {
                        idx[j] = 0;
                    }
                    break;
                }
            }
        }
    }

    pub fn run(cx: &mut Ctx, seed: u64, thorough: bool, valid_texts: &[String]) -> serde_json::Value {
        // own random stream: the existing sections keep theirs
        let mut rng = Rng::new(seed ^ 0x6c65_7865_7221);
        let before = cx.run.evaluations;
        // (L5, generated first, shipped interleaved with the short texts so that no shard is made of
        // long cases only) the generated valid texts, their mutations and multi-byte insertions, as
        // in sections (2), (3), (3b)
        let mut long: Vec<(String, &'static str)> = Vec::new();
        for _ in 0..(if thorough { 2000 } else { 250 }) {
            long.push((valid_texts[rng.below(valid_texts.len())].clone(), "valid"));
        }
        for _ in 0..(if thorough { 6000 } else { 700 }) {
            let base = &valid_texts[rng.below(valid_texts.len())];
            let mut t = super::quilgen::mutate(&mut rng, base);
            if rng.chance(1, 4) {
                t = super::quilgen::mutate(&mut rng, &t);
            }
            long.push((t, "mutated"));
        }
        const WIDE: [&str; 8] = ["\u{e9}", "\u{df}", "\u{3bb}", "\u{2014}", "\u{65e5}\u{672c}", "\u{1F642}", "e\u{301}", "\u{2028}"];
        for _ in 0..(if thorough { 3000 } else { 350 }) {
            let base = &valid_texts[rng.below(valid_texts.len())];
            let mut t = base.clone();
            let bounds: Vec<usize> = t.char_indices().map(|(i, _)| i).chain(std::iter::once(t.len())).collect();
            let quotes: Vec<usize> = t.char_indices().filter(|(_, c)| *c == '"').map(|(i, _)| i).collect();
            let pos = if !quotes.is_empty() && rng.chance(2, 3) {
                let q = quotes[rng.below(quotes.len())];
                if rng.chance(1, 2) { q + 1 } else { q }
            } else {
                bounds[rng.below(bounds.len())]
            };
            t.insert_str(pos, WIDE[rng.below(WIDE.len())]);
            if rng.chance(1, 3) {
                t.push_str(" # ");
                t.push_str(WIDE[rng.below(WIDE.len())]);
            }
            long.push((t, "multibyte"));
        }
        let mut short: Vec<(String, String)> = Vec::new();
        // (L1) exhaustive short strings
        short.push((String::new(), "exh-len0".into()));
        for len in 1..=(if thorough { 4 } else { 3 }) {
            exhaustive(len, &mut |t| short.push((t, format!("exh-len{len}"))));
        }
        let exh = short.len() as u64;
        // (L2) four-space indentation / reserved words / number forms in every two-piece context
        for a in PIECES.iter().chain(LEX_ALPHA.iter()) {
            short.push((a.to_string(), "piece".into()));
            for b in PIECES.iter().chain(LEX_ALPHA.iter()) {
                short.push((format!("{a}{b}"), "piece-pair".into()));
            }
        }
        // (L3) every reserved word, alone and perturbed
        let words: Vec<&str> = super::quilgen::COMMANDS.iter().map(|(n, _)| *n).chain(RESERVED_EXTRA).collect();
        for w in &words {
            for t in [w.to_string(), format!("{w}S"), w.to_lowercase(), format!("{w}-X"), format!("{w}-"), format!("_{w}"), format!("@{w}"), format!("%{w}"), format!("{w}\u{e9}")] {
                short.push((t, "reserved-word".into()));
            }
        }
        // (L4) sampled concatenations of 3..9 pieces
        for _ in 0..(if thorough { 40000 } else { 5000 }) {
            let n = rng.range(3, 9);
            let mut t = String::new();
            for _ in 0..n {
                if rng.chance(1, 2) {
                    t.push_str(PIECES[rng.below(PIECES.len())]);
                } else {
                    t.push_str(LEX_ALPHA[rng.below(LEX_ALPHA.len())]);
                }
            }
            short.push((t, "sampled-pieces".into()));
        }
        // (L6) corpus
        for t in CORPUS {
            short.push((t.to_string(), "corpus".into()));
        }
        let every = (short.len() / long.len().max(1)).max(1);
        let mut li = 0;
        for (k, (t, class)) in short.iter().enumerate() {
            observe_lex(cx, t, class);
            if k % every == 0 && li < long.len() {
                observe_lex(cx, &long[li].0, long[li].1);
                li += 1;
            }
        }
        for (t, class) in &long[li..] {
            observe_lex(cx, t, class);
        }
        serde_json::json!({"cases": cx.run.evaluations - before, "exhaustive_short_strings": exh,
            "alphabet": LEX_ALPHA, "max_len": if thorough { 4 } else { 3 }})
    }
}
// =====================================================================================================
// END byte-level lexer correspondence
// =====================================================================================================

fn main() {
    let argv: Vec<String> = std::env::args().collect();
    if argv.len() >= 4 && argv[1] == "--child" {
        child_main(&argv);
        return;
    }
    let args = Args::parse();
    if let Some(case) = &args.replay {
        // description format: `<Entry> "<text as Rust debug string>"`
        println!("replay: {case}");
        let case = case.strip_prefix("Bytes:").unwrap_or(case);
        if let Some((e, t)) = case.split_once(' ') {
            let text: String = serde_json::from_str(t).unwrap_or_else(|_| t.trim_matches('"').to_string());
            let entry = ENTRIES.iter().position(|x| &x[1..] == e).unwrap_or(0);
            println!("lex: {:?}", quil_rs::verif::lex_debug(&text));
            println!("outcome: {:?}", run_entry(entry, &text));
        }
        return;
    }
    let mutant: u32 = std::env::var("QV_MUTANT").ok().and_then(|s| s.parse().ok()).unwrap_or(0);
    let alpha_coq = |pieces: &[&str]| -> String {
        let v: Vec<String> = pieces
            .iter()
            .map(|p| {
                let t = quil_rs::verif::lex_debug(p).expect("alphabet piece lexes");
                quilgen::tok_to_coq(&t[0], &mut Interner::default()).expect("alphabet token")
            })
            .collect();
        format!("[{}]", v.join("; "))
    };
    let header = format!(
        "From Coq Require Import List NArith ZArith.\nFrom QV Require Import Model.ParsePanic Model.Lex Model.LexParse.\nImport ListNotations.\nOpen Scope N_scope.\n\
         Definition alpha_main_check : alpha_main = {} := eq_refl.\nDefinition alpha_expr_check : alpha_expr = {} := eq_refl.",
        alpha_coq(&ALPHA),
        alpha_coq(&EXPR_ALPHA)
    );
    let run = Run::new(&args.out, &header, "case2", "failing2", 2500);
    let mut cx = Ctx { run, mutant, panics: 0 };
    let thorough = args.thorough();
    let mut rng = Rng::new(args.seed);

    // alphabets as the real lexer sees them (each piece is one token); the shard header re-checks
    // inside Coq that they are the alphabets of Model/ParsePanic.v
    let lex1 = |p: &str| -> String {
        let t = quil_rs::verif::lex_debug(p).expect("alphabet piece lexes");
        assert_eq!(t.len(), 1, "alphabet piece {p:?} is one token");
        t[0].clone()
    };
    let main_toks: Vec<String> = ALPHA.iter().map(|p| lex1(p)).collect();
    let expr_toks: Vec<String> = EXPR_ALPHA.iter().map(|p| lex1(p)).collect();

    // (1a) exhaustive: command keyword (or another instruction-initial token) first, then every
    // sequence over ALPHA; rendered with single spaces.  Sequences of length >= 2 are shipped in
    // groups sharing all but the last token.
    let mut firsts: Vec<&str> = quilgen::COMMANDS.iter().map(|(n, _)| *n).collect();
    firsts.extend(FIRST_EXTRA);
    let max_prefix = if thorough { 3 } else { 2 }; // prefix length; texts have one more token
    let mut exhaustive = 0u64;
    for f in &firsts {
        cx.observe(0, f, "exh-len1");
        cx.observe(1, f, "exh-len1-instruction-entry");
        exhaustive += 1;
        // prefixes of length 1..=max_prefix: f followed by idx over ALPHA
        let mut idx: Vec<usize> = Vec::new();
        loop {
            let mut prefix = String::from(*f);
            for &k in &idx {
                prefix.push(' ');
                prefix.push_str(ALPHA[k]);
            }
            let class = format!("exh-len{}", idx.len() + 2);
            cx.group(0, "AMain", &ALPHA, &main_toks, &prefix, &class);
            exhaustive += ALPHA.len() as u64;
            if idx.len() + 1 < max_prefix || exhaustive % 5 < 1 {
                cx.group(1, "AMain", &ALPHA, &main_toks, &prefix, "exh-instruction-entry");
            }
            // next prefix (odometer over lengths 0..max_prefix-1)
            let mut k = idx.len();
            let mut done = false;
            loop {
                if k == 0 {
                    if idx.len() + 1 < max_prefix {
                        idx = vec![0; idx.len() + 1];
                    } else {
                        done = true;
                    }
                    break;
                }
                k -= 1;
                if idx[k] + 1 < ALPHA.len() {
                    idx[k] += 1;
                    for j in k + 1..idx.len() {
                        idx[j] = 0;
                    }
                    break;
                }
            }
            if done {
                break;
            }
        }
    }
    // (1b) exhaustive over the expression alphabet at the three small entry points and as a gate
    // parameter list: every sequence of length <= emax+1
    let emax = if thorough { 4 } else { 3 }; // prefix length
    let mut expr_exh = 0u64;
    for p in EXPR_ALPHA {
        for e in 2..5 {
            cx.observe(e, p, "exh-expr-len1");
        }
        expr_exh += 1;
    }
    let mut idx: Vec<usize> = vec![0];
    'outer: loop {
        let prefix = idx.iter().map(|&k| EXPR_ALPHA[k]).collect::<Vec<_>>().join(" ");
        expr_exh += EXPR_ALPHA.len() as u64;
        cx.group(2, "AExpr", &EXPR_ALPHA, &expr_toks, &prefix, "exh-expression");
        if idx.len() <= 2 {
            cx.group(3, "AExpr", &EXPR_ALPHA, &expr_toks, &prefix, "exh-memref");
            cx.group(4, "AExpr", &EXPR_ALPHA, &expr_toks, &prefix, "exh-frame");
            cx.group(0, "AExpr", &EXPR_ALPHA, &expr_toks, &format!("RX ( {prefix}"), "exh-gate-params");
            cx.group(0, "AExpr", &EXPR_ALPHA, &expr_toks, &format!("DELAY 0 {prefix}"), "exh-delay");
        }
        let mut k = idx.len();
        loop {
            if k == 0 {
                if idx.len() < emax {
                    idx = vec![0; idx.len() + 1];
                    break;
                }
                break 'outer;
            }
            k -= 1;
            if idx[k] + 1 < EXPR_ALPHA.len() {
                idx[k] += 1;
                for j in k + 1..idx.len() {
                    idx[j] = 0;
                }
                break;
            }
        }
    }

    // (1c) sampled token sequences of length 4..7 over the union alphabet, any first token
    let nsample = if thorough { 60000 } else { 12000 };
    for _ in 0..nsample {
        let len = rng.range(4, 7);
        let mut parts: Vec<&str> = Vec::new();
        for j in 0..len {
            if j == 0 && rng.chance(2, 3) {
                parts.push(firsts[rng.below(firsts.len())]);
            } else if rng.chance(1, 8) {
                parts.push(firsts[rng.below(firsts.len())]);
            } else {
                parts.push(ALPHA[rng.below(ALPHA.len())]);
            }
        }
        cx.observe(0, &parts.join(" "), "sampled-seq");
    }

    // (2) grammar-derived valid instructions / programs, every kind, all five entry points
    let per_kind = if thorough { 120 } else { 25 };
    let mut valid_texts: Vec<String> = Vec::new();
    for kind in 0..quilgen::N_KINDS {
        for _ in 0..per_kind {
            let t = quilgen::instr_text(&mut rng, kind);
            let o = cx.observe_comp(0, &t, "valid-instr");
            cx.observe_comp(1, &t, "valid-instr-entry");
            if o == Out::Ok {
                cx.run.count(&format!("valid-kind-{kind}-accepted"));
            }
            valid_texts.push(t);
        }
    }
    for _ in 0..(if thorough { 2000 } else { 300 }) {
        let n = rng.range(2, 8);
        let t = quilgen::program_text(&mut rng, n);
        cx.observe_comp(0, &t, "valid-program");
        valid_texts.push(t);
    }
    for k in 0..(if thorough { 8000 } else { 1500 }) {
        let d = rng.below(5);
        let t = quilgen::expr_text(&mut rng, d);
        if k % 4 == 0 {
            cx.observe_comp(2, &t, "valid-expression");
        } else {
            cx.observe(2, &t, "valid-expression");
        }
        cx.observe(0, &format!("RX({t}) 0"), "valid-expression-in-gate");
    }
    for k in 0..(if thorough { 2000 } else { 400 }) {
        let t = quilgen::memref_text(&mut rng);
        let f = format!("{} \"xy\"", rng.below(9));
        if k % 4 == 0 {
            cx.observe_comp(3, &t, "valid-memref");
            cx.observe_comp(4, &f, "valid-frame");
        } else {
            cx.observe(3, &t, "valid-memref");
            cx.observe(4, &f, "valid-frame");
        }
        cx.observe(4, &t, "memref-as-frame");
    }

    // (3) mutations of valid texts: token and byte level; all five entry points on a rotating basis
    let nmut = if thorough { 120000 } else { 20000 };
    for k in 0..nmut {
        let base = &valid_texts[rng.below(valid_texts.len())];
        let mut t = quilgen::mutate(&mut rng, base);
        if rng.chance(1, 4) {
            t = quilgen::mutate(&mut rng, &t);
        }
        if k % 8 == 0 {
            cx.observe_comp(0, &t, "mutated");
        } else {
            cx.observe(0, &t, "mutated");
        }
        if k % 3 == 0 {
            if k % 30 == 0 {
                cx.observe_comp(1 + (k / 3) % 4, &t, "mutated-other-entry");
            } else {
                cx.observe(1 + (k / 3) % 4, &t, "mutated-other-entry");
            }
        }
    }
    // (3b) multi-byte UTF-8: the lexer slices by byte offset, so every string / comment / name
    // position is exercised with 2-, 3- and 4-byte characters and combining marks, both at the
    // start, inside and at the end of quoted strings and at random character boundaries.
    const WIDE: [&str; 8] = ["é", "ß", "λ", "—", "日本", "🙂", "e\u{301}", "\u{2028}"];
    let nwide = if thorough { 20000 } else { 4000 };
    for k in 0..nwide {
        let base = &valid_texts[rng.below(valid_texts.len())];
        let w = WIDE[rng.below(WIDE.len())];
        let mut t = base.clone();
        // prefer a position just after / before a double quote when the text has a string
        let quotes: Vec<usize> = t.char_indices().filter(|(_, c)| *c == '"').map(|(i, _)| i).collect();
        let pos = if !quotes.is_empty() && rng.chance(2, 3) {
            let q = quotes[rng.below(quotes.len())];
            if rng.chance(1, 2) { q + 1 } else { q }
        } else {
            let bounds: Vec<usize> = t.char_indices().map(|(i, _)| i).chain(std::iter::once(t.len())).collect();
            bounds[rng.below(bounds.len())]
        };
        t.insert_str(pos, w);
        if rng.chance(1, 3) {
            t.push_str(" # ");
            t.push_str(WIDE[rng.below(WIDE.len())]);
        }
        if k % 8 == 0 {
            cx.observe_comp(0, &t, "multibyte");
        } else {
            cx.observe(0, &t, "multibyte");
        }
        if k % 2 == 0 {
            cx.observe(1 + (k / 2) % 4, &t, "multibyte-other-entry");
        }
    }
    for w in WIDE {
        for t in [
            format!("PRAGMA note \"caf{w}\""), format!("PRAGMA note \"{w}\""), format!("PRAGMA {w}"),
            format!("INCLUDE \"{w}.quil\""), format!("PULSE 0 \"{w}\" flat(duration: 1.0, iq: 1.0)"),
            format!("DEFFRAME 0 \"{w}x\":\n    DIRECTION: \"t{w}\""), format!("X 0 # {w}"), format!("# {w}\nX 0"),
            format!("LABEL @{w}"), format!("DECLARE {w} BIT"), format!("DELAY 0 \"a{w}\" \"{w}b\" 1.0"),
            format!("0 \"{w}\""), format!("0 1 \"x{w}y\""), format!("r{w}[0]"), format!("%{w}+1"), format!("\"{w}"),
        ] {
            cx.observe_comp(0, &t, "multibyte-corpus");
            for e in 1..5 {
                cx.observe(e, &t, "multibyte-corpus");
            }
        }
    }
    // hand-picked corpus: the defect witnesses and lexer corner cases
    for t in [
        "ADD ro +1", "AND ro +1", "EQ a b +1.0", "NONBLOCKING", "NONBLOCKING X 0", "NONBLOCKING\n",
        "MOVE ro -9223372036854775808", "MOVE ro 9223372036854775808", "MOVE ro 18446744073709551615",
        "MOVE ro 18446744073709551616", "MOVE ro -9223372036854775809", "SUB ro *1.5", "STORE a b[0] ^2",
        "GE a b c /3", "XOR ro -9223372036854775808", "MOVE ro 1e999", "MOVE ro 0x", "MOVE ro 0b.", "MOVE ro ._1",
        "\u{0}", "\u{feff}X 0", "X 0\r\nY 1", "X\u{a0}0", "\"unterminated", "\"a\\", "@", "%", "#", "!", "",
        " ", "\t", "\n\n\n", ";;;", "X 0 # c", "    # c", "\t\t# c\nX 0", "DEFGATE", "DEFCAL", "DEFFRAME 0 \"x\":",
    ] {
        for e in 0..5 {
            cx.observe_comp(e, t, "corpus");
        }
    }

    // (L) byte-level lexer correspondence (own section above, own random stream)
    let lexer_report = lexsec::run(&mut cx, args.seed, thorough, &valid_texts);

    // (4) deep nesting, each in a child process
    let depths: &[usize] = if thorough { &[100, 400, 1000, 10000, 100000, 1000000] } else { &[100, 400, 1000, 10000, 100000] };
    let mut nest_report = serde_json::Map::new();
    for kind in ["gate-paren", "expr-paren", "expr-fn", "infix-chain", "defcal-block", "defcircuit-block", "brackets"] {
        let mut first_bad: Option<usize> = None;
        for &d in depths {
            let st = run_child(kind, d);
            cx.run.count(&format!("nest-{kind}:{}", if st == "ok" { "ok" } else { "abort" }));
            if st != "ok" {
                if first_bad.is_none() {
                    first_bad = Some(d);
                }
                // class of the open known finding: nesting depth > 500
                let known = if d > 500 { Some("deep-nesting-stack-overflow") } else { None };
                cx.run.process_failure(
                    &format!("child process {st} (nesting kind {kind}, depth {d})"),
                    &format!("{kind} depth {d}: {:.60}...", nest_text(kind, d)),
                    known,
                );
                break; // deeper inputs of the same kind abort as well
            }
        }
        nest_report.insert(
            kind.to_string(),
            match first_bad {
                Some(d) => serde_json::json!(format!("first failing probed depth {d}")),
                None => serde_json::json!(format!("ok up to {}", depths[depths.len() - 1])),
            },
        );
    }

    let panics = cx.panics;
    cx.run.finish(
        "Process-level oracle on every case (Program/Instruction/Expression/MemoryReference/FrameIdentifier \
         from_str under catch_unwind; deep nesting in a child process). Exhaustive: every text `t0 t1 .. tk` \
         (single spaces) with t0 a command keyword / NONBLOCKING / modifier / identifier / a non-initial token \
         and t1..tk over a 44-token alphabet, k <= 2 (quick) or 3 (thorough; 1/24 of the length-4 texts are \
         shipped to Coq, all are run); every sequence of length <= 3 (4) over an 18-token expression alphabet \
         at the Expression/MemoryReference/FrameIdentifier entry points; plus sampled longer sequences, \
         grammar-derived valid instructions of all 46 kinds, programs, expressions, and token/byte mutations. \
         Distinct by (entry, text); non-trivial = the real lexer accepts the text. \
         Byte-level lexer cases (`Lex <text>`): bytes + complete real token stream / lex error / panic, compared \
         with the byte-level lexer model: exhaustive strings of <= 3 (thorough 4) characters over a 24-character \
         alphabet (2- and 3-byte characters, quote, backslash, hash, separators, sigils, digits, letters, CR), all \
         pairs of 82 pieces, every reserved word perturbed, sampled piece concatenations, valid / mutated / \
         multi-byte texts; non-trivial = at least one token. \
         Composition cases (`Bytes:<Entry> <text>`): bytes + the ParsePanic token list derived from the real token \
         stream + real outcome, for every valid instruction / program, a quarter of the expression / memory-reference / \
         frame texts, an eighth of the mutated and multi-byte texts and the corpora (texts <= 400 bytes); judged by the \
         lexer model composed with conv and the parser models (DEF* grammar included); non-trivial = the real lexer \
         accepts the text.",
        true,
        serde_json::json!({"exhaustive_cmd_first_texts": exhaustive, "exhaustive_expression_texts": expr_exh,
            "panics_observed": panics, "nesting": nest_report, "mutant": mutant,
            "byte_level_lexer": lexer_report}),
    );
}
