//! C34 — placeholder resolution assigns unique, consistent values.
//!
//! Bodies are generated in the abstract form of coq/Model/Resolve.v (kind, qubit occurrences,
//! target occurrences), turned into real `Instruction`s through the public API (placeholders can
//! only be built programmatically; identity = `Arc` identity, so one placeholder object per id is
//! cloned into every occurrence), resolved by the real `Program`, and read back into the abstract
//! form by matching on the resolved `Instruction`s.  The case handed to Coq is
//! (input body, target mode, qubit mode, observed output body).
use qv::{gallina as g, Args, Rng, Run};
use quil_rs::expression::Expression;
use quil_rs::instruction::*;
use quil_rs::quil::Quil;
use quil_rs::Program;
use std::collections::HashMap;
use std::str::FromStr;

#[derive(Clone, Copy, PartialEq, Eq, Debug, Hash)]
enum Kind {
    Gate,
    Measure,
    Reset,
    Delay,
    Fence,
    Pulse,
    Capture,
    RawCapture,
    SetFrequency,
    SetPhase,
    SetScale,
    ShiftFrequency,
    ShiftPhase,
    SwapPhases,
    Label,
    Jump,
    JumpWhen,
    JumpUnless,
    Other,
}
use Kind::*;

impl Kind {
    fn coq(self) -> &'static str {
        match self {
            Gate => "KGate",
            Measure => "KMeasure",
            Reset => "KReset",
            Delay => "KDelay",
            Fence => "KFence",
            Pulse => "KPulse",
            Capture => "KCapture",
            RawCapture => "KRawCapture",
            SetFrequency => "KSetFrequency",
            SetPhase => "KSetPhase",
            SetScale => "KSetScale",
            ShiftFrequency => "KShiftFrequency",
            ShiftPhase => "KShiftPhase",
            SwapPhases => "KSwapPhases",
            Label => "KLabel",
            Jump => "KJump",
            JumpWhen => "KJumpWhen",
            JumpUnless => "KJumpUnless",
            Other => "KOther",
        }
    }
    fn text(self) -> &'static str {
        match self {
            Gate => "GATE",
            Measure => "MEASURE",
            Reset => "RESET",
            Delay => "DELAY",
            Fence => "FENCE",
            Pulse => "PULSE",
            Capture => "CAPTURE",
            RawCapture => "RAW-CAPTURE",
            SetFrequency => "SET-FREQUENCY",
            SetPhase => "SET-PHASE",
            SetScale => "SET-SCALE",
            ShiftFrequency => "SHIFT-FREQUENCY",
            ShiftPhase => "SHIFT-PHASE",
            SwapPhases => "SWAP-PHASES",
            Label => "LABEL",
            Jump => "JUMP",
            JumpWhen => "JUMP-WHEN",
            JumpUnless => "JUMP-UNLESS",
            Other => "NOP",
        }
    }
    fn frame_update(self) -> bool {
        matches!(
            self,
            SetFrequency | SetPhase | SetScale | ShiftFrequency | ShiftPhase | SwapPhases
        )
    }
}

#[derive(Clone, PartialEq, Eq, Debug)]
enum Q {
    F(u64),
    P(usize),
    V(usize),
    /// a placeholder object the harness did not create (never expected)
    Alien,
}
#[derive(Clone, PartialEq, Eq, Debug)]
enum T {
    F(String),
    P(usize, String),
    Alien,
}

#[derive(Clone, PartialEq, Eq, Debug)]
struct AI {
    kind: Kind,
    qs: Vec<Q>,
    ts: Vec<T>,
    /// SWAP-PHASES: number of qubits of the first frame; otherwise 0
    split: usize,
}

fn ai(kind: Kind, qs: Vec<Q>) -> AI {
    AI { kind, qs, ts: vec![], split: 0 }
}
fn at(kind: Kind, t: T) -> AI {
    AI { kind, qs: vec![], ts: vec![t], split: 0 }
}

/// The placeholder objects of one case: index = id of the model.
struct Tables {
    q: Vec<QubitPlaceholder>,
    t: Vec<TargetPlaceholder>,
    qrev: HashMap<QubitPlaceholder, usize>,
    trev: HashMap<TargetPlaceholder, usize>,
}

impl Tables {
    fn new(body: &[AI]) -> Tables {
        let mut tb = Tables { q: vec![], t: vec![], qrev: HashMap::new(), trev: HashMap::new() };
        for i in body {
            for q in &i.qs {
                if let Q::P(p) = q {
                    while tb.q.len() <= *p {
                        let ph = QubitPlaceholder::default();
                        tb.qrev.insert(ph.clone(), tb.q.len());
                        tb.q.push(ph);
                    }
                }
            }
        }
        // target placeholders: id -> base of the first occurrence (well-formed inputs use one base per id)
        let mut bases: Vec<Option<String>> = vec![];
        for i in body {
            for t in &i.ts {
                if let T::P(p, b) = t {
                    while bases.len() <= *p {
                        bases.push(None);
                    }
                    if bases[*p].is_none() {
                        bases[*p] = Some(b.clone());
                    }
                }
            }
        }
        for (k, b) in bases.into_iter().enumerate() {
            let ph = TargetPlaceholder::new(b.unwrap_or_else(|| "unused".to_string()));
            tb.trev.insert(ph.clone(), k);
            tb.t.push(ph);
        }
        tb
    }
    fn qubit(&self, q: &Q) -> Qubit {
        match q {
            Q::F(n) => Qubit::Fixed(*n),
            Q::P(p) => Qubit::Placeholder(self.q[*p].clone()),
            Q::V(v) => Qubit::Variable(format!("v{v}")),
            Q::Alien => unreachable!(),
        }
    }
    fn target(&self, t: &T) -> Target {
        match t {
            T::F(s) => Target::Fixed(s.clone()),
            T::P(p, _) => Target::Placeholder(self.t[*p].clone()),
            T::Alien => unreachable!(),
        }
    }
    fn unq(&self, q: &Qubit) -> Q {
        match q {
            Qubit::Fixed(n) => Q::F(*n),
            Qubit::Placeholder(p) => self.qrev.get(p).map(|k| Q::P(*k)).unwrap_or(Q::Alien),
            Qubit::Variable(v) => v
                .strip_prefix('v')
                .and_then(|s| s.parse().ok())
                .map(Q::V)
                .unwrap_or(Q::Alien),
        }
    }
    fn unt(&self, t: &Target) -> T {
        match t {
            Target::Fixed(s) => T::F(s.clone()),
            Target::Placeholder(p) => self
                .trev
                .get(p)
                .map(|k| T::P(*k, p.as_inner().to_string()))
                .unwrap_or(T::Alien),
        }
    }
}

fn one() -> Expression {
    Expression::Number(num_complex::Complex64::new(1.0, 0.0))
}
fn mref() -> MemoryReference {
    MemoryReference { name: "ro".to_string(), index: 0 }
}
fn wf() -> WaveformInvocation {
    WaveformInvocation { name: "w".to_string(), parameters: Default::default() }
}

fn build(tb: &Tables, i: &AI) -> Instruction {
    let qs: Vec<Qubit> = i.qs.iter().map(|q| tb.qubit(q)).collect();
    let frame = |qs: Vec<Qubit>| FrameIdentifier { name: "rf".to_string(), qubits: qs };
    match i.kind {
        Gate => Instruction::Gate(quil_rs::instruction::Gate {
            name: ["I", "X", "CNOT", "CCNOT", "G4", "G5"][qs.len().min(5)].to_string(),
            parameters: vec![],
            qubits: qs,
            modifiers: vec![],
        }),
        Measure => Instruction::Measurement(Measurement {
            name: None,
            qubit: qs[0].clone(),
            target: Some(mref()),
        }),
        Reset => Instruction::Reset(quil_rs::instruction::Reset { qubit: qs.first().cloned() }),
        Delay => Instruction::Delay(quil_rs::instruction::Delay {
            duration: one(),
            frame_names: vec![],
            qubits: qs,
        }),
        Fence => Instruction::Fence(quil_rs::instruction::Fence { qubits: qs }),
        Pulse => Instruction::Pulse(quil_rs::instruction::Pulse {
            blocking: true,
            frame: frame(qs),
            waveform: wf(),
        }),
        Capture => Instruction::Capture(quil_rs::instruction::Capture {
            blocking: true,
            frame: frame(qs),
            memory_reference: mref(),
            waveform: wf(),
        }),
        RawCapture => Instruction::RawCapture(quil_rs::instruction::RawCapture {
            blocking: true,
            frame: frame(qs),
            duration: one(),
            memory_reference: mref(),
        }),
        SetFrequency => Instruction::SetFrequency(quil_rs::instruction::SetFrequency {
            frame: frame(qs),
            frequency: one(),
        }),
        SetPhase => Instruction::SetPhase(quil_rs::instruction::SetPhase { frame: frame(qs), phase: one() }),
        SetScale => Instruction::SetScale(quil_rs::instruction::SetScale { frame: frame(qs), scale: one() }),
        ShiftFrequency => Instruction::ShiftFrequency(quil_rs::instruction::ShiftFrequency {
            frame: frame(qs),
            frequency: one(),
        }),
        ShiftPhase => Instruction::ShiftPhase(quil_rs::instruction::ShiftPhase {
            frame: frame(qs),
            phase: one(),
        }),
        SwapPhases => Instruction::SwapPhases(quil_rs::instruction::SwapPhases {
            frame_1: frame(qs[..i.split].to_vec()),
            frame_2: FrameIdentifier { name: "xy".to_string(), qubits: qs[i.split..].to_vec() },
        }),
        Label => Instruction::Label(quil_rs::instruction::Label { target: tb.target(&i.ts[0]) }),
        Jump => Instruction::Jump(quil_rs::instruction::Jump { target: tb.target(&i.ts[0]) }),
        JumpWhen => Instruction::JumpWhen(quil_rs::instruction::JumpWhen {
            target: tb.target(&i.ts[0]),
            condition: mref(),
        }),
        JumpUnless => Instruction::JumpUnless(quil_rs::instruction::JumpUnless {
            target: tb.target(&i.ts[0]),
            condition: mref(),
        }),
        Other => Instruction::Nop(),
    }
}

/// Read an instruction back into the abstract form: EVERY qubit / target field of the AST node,
/// independent of `get_qubits`.
fn read(tb: &Tables, i: &Instruction) -> AI {
    let qv = |v: &Vec<Qubit>| v.iter().map(|q| tb.unq(q)).collect::<Vec<_>>();
    match i {
        Instruction::Gate(x) => ai(Gate, qv(&x.qubits)),
        Instruction::Measurement(x) => ai(Measure, vec![tb.unq(&x.qubit)]),
        Instruction::Reset(x) => ai(Reset, x.qubit.iter().map(|q| tb.unq(q)).collect()),
        Instruction::Delay(x) => ai(Delay, qv(&x.qubits)),
        Instruction::Fence(x) => ai(Fence, qv(&x.qubits)),
        Instruction::Pulse(x) => ai(Pulse, qv(&x.frame.qubits)),
        Instruction::Capture(x) => ai(Capture, qv(&x.frame.qubits)),
        Instruction::RawCapture(x) => ai(RawCapture, qv(&x.frame.qubits)),
        Instruction::SetFrequency(x) => ai(SetFrequency, qv(&x.frame.qubits)),
        Instruction::SetPhase(x) => ai(SetPhase, qv(&x.frame.qubits)),
        Instruction::SetScale(x) => ai(SetScale, qv(&x.frame.qubits)),
        Instruction::ShiftFrequency(x) => ai(ShiftFrequency, qv(&x.frame.qubits)),
        Instruction::ShiftPhase(x) => ai(ShiftPhase, qv(&x.frame.qubits)),
        Instruction::SwapPhases(x) => {
            let mut qs = qv(&x.frame_1.qubits);
            let split = qs.len();
            qs.extend(qv(&x.frame_2.qubits));
            AI { kind: SwapPhases, qs, ts: vec![], split }
        }
        Instruction::Label(x) => at(Label, tb.unt(&x.target)),
        Instruction::Jump(x) => at(Jump, tb.unt(&x.target)),
        Instruction::JumpWhen(x) => at(JumpWhen, tb.unt(&x.target)),
        Instruction::JumpUnless(x) => at(JumpUnless, tb.unt(&x.target)),
        _ => ai(Other, vec![]),
    }
}

fn coq_q(q: &Q) -> String {
    match q {
        Q::F(n) => format!("QFixed {n}"),
        Q::P(p) => format!("QPh {p}"),
        Q::V(v) => format!("QVar {v}"),
        Q::Alien => "QPh 999999".to_string(),
    }
}
fn coq_t(t: &T) -> String {
    match t {
        T::F(s) => format!("TFixed \"{s}\""),
        T::P(p, b) => format!("TPh {p} \"{b}\""),
        T::Alien => "TPh 999999 \"\"".to_string(),
    }
}
fn coq_body(b: &[AI]) -> String {
    g::list(
        &b.iter()
            .map(|i| {
                format!(
                    "Instr {} {} {}",
                    i.kind.coq(),
                    g::list(&i.qs.iter().map(coq_q).collect::<Vec<_>>()),
                    g::list(&i.ts.iter().map(coq_t).collect::<Vec<_>>())
                )
            })
            .collect::<Vec<_>>(),
    )
}
fn txt_q(q: &Q) -> String {
    match q {
        Q::F(n) => format!("{n}"),
        Q::P(p) => format!("P{p}"),
        Q::V(v) => format!("v{v}"),
        Q::Alien => "P?".to_string(),
    }
}
fn txt_body(b: &[AI]) -> String {
    b.iter()
        .map(|i| {
            let mut s = i.kind.text().to_string();
            for (k, q) in i.qs.iter().enumerate() {
                if i.kind == SwapPhases && k == i.split {
                    s.push_str(" /");
                }
                s.push(' ');
                s.push_str(&txt_q(q));
            }
            for t in &i.ts {
                match t {
                    T::F(l) => s.push_str(&format!(" @{l}")),
                    T::P(p, b) => s.push_str(&format!(" @P{p}:{b}")),
                    T::Alien => s.push_str(" @P?"),
                }
            }
            s
        })
        .collect::<Vec<_>>()
        .join("; ")
}

type TMode = Option<Vec<(usize, String)>>;
type QMode = Option<Vec<(usize, u64)>>;

/// Does the real crate still have the frame-update defect (get_qubits omits the frame qubits of
/// SET-*/SHIFT-*/SWAP-PHASES)?  Decided by one probe, so the known-finding tag disappears by itself
/// once the fix has landed.
fn defect_present() -> bool {
    let body = vec![ai(SetPhase, vec![Q::P(0)])];
    let tb = Tables::new(&body);
    let mut p = Program::new();
    p.add_instruction(build(&tb, &body[0]));
    p.resolve_placeholders();
    let first: Instruction = p.body_instructions().next().unwrap().clone();
    read(&tb, &first).qs[0] == Q::P(0)
}

/// The narrow class hit by the pending fix: a frame-update instruction holds a placeholder the
/// qubit resolver has a value for, or (default qubit resolver) a fixed qubit that occurs in no
/// other kind of instruction, so it is not reserved.
fn in_pending_class(body: &[AI], qm: &QMode) -> bool {
    let resolves = |p: usize| match qm {
        None => true,
        Some(tbl) => tbl.iter().any(|(k, _)| *k == p),
    };
    for i in body.iter().filter(|i| i.kind.frame_update()) {
        for q in &i.qs {
            match q {
                Q::P(p) if resolves(*p) => return true,
                Q::F(n) if qm.is_none() => {
                    let elsewhere = body
                        .iter()
                        .filter(|j| !j.kind.frame_update())
                        .any(|j| j.qs.contains(&Q::F(*n)));
                    if !elsewhere {
                        return true;
                    }
                }
                _ => {}
            }
        }
    }
    false
}

struct Ctx {
    run: Run,
    mutant: u32,
    defect: bool,
}

fn mutate(mutant: u32, body: &[AI], out: &mut Vec<AI>) {
    match mutant {
        // 1: the last occurrence of a placeholder that occurs at least twice gets value + 1
        1 => {
            let mut seen: HashMap<usize, usize> = HashMap::new();
            for i in body {
                for q in &i.qs {
                    if let Q::P(p) = q {
                        *seen.entry(*p).or_default() += 1;
                    }
                }
            }
            'outer: for (ii, i) in body.iter().enumerate().rev() {
                for (qi, q) in i.qs.iter().enumerate().rev() {
                    if let Q::P(p) = q {
                        if seen[p] >= 2 {
                            if let Q::F(v) = out[ii].qs[qi] {
                                out[ii].qs[qi] = Q::F(v + 1);
                                break 'outer;
                            }
                        }
                    }
                }
            }
        }
        // 2: generated labels are not added to the taken set: every target placeholder gets the
        //    label of the first placeholder with the same base
        2 => {
            let mut first: HashMap<String, String> = HashMap::new();
            for (ii, i) in body.iter().enumerate() {
                for (ti, t) in i.ts.iter().enumerate() {
                    if let (T::P(_, b), T::F(l)) = (t, out[ii].ts[ti].clone()) {
                        let l0 = first.entry(b.clone()).or_insert(l).clone();
                        out[ii].ts[ti] = T::F(l0);
                    }
                }
            }
        }
        // 3: the qubit iterator does not skip used indices: i-th placeholder (first-occurrence
        //    order) gets index i
        3 => {
            let mut order: Vec<usize> = vec![];
            for i in body {
                for q in &i.qs {
                    if let Q::P(p) = q {
                        if !order.contains(p) {
                            order.push(*p);
                        }
                    }
                }
            }
            for (ii, i) in body.iter().enumerate() {
                for (qi, q) in i.qs.iter().enumerate() {
                    if let (Q::P(p), Q::F(_)) = (q, out[ii].qs[qi].clone()) {
                        out[ii].qs[qi] = Q::F(order.iter().position(|x| x == p).unwrap() as u64);
                    }
                }
            }
        }
        // 4: jump targets are not counted as taken (only LABEL definitions): a placeholder whose
        //    base_0 is used only as a fixed JUMP target gets base_0
        4 => {
            let labels: Vec<String> = body
                .iter()
                .filter(|i| i.kind == Label)
                .filter_map(|i| match &i.ts[0] {
                    T::F(s) => Some(s.clone()),
                    _ => None,
                })
                .collect();
            let mut given: HashMap<usize, String> = HashMap::new();
            let mut taken = labels.clone();
            for i in body {
                for t in &i.ts {
                    if let T::P(p, b) = t {
                        if !given.contains_key(p) {
                            let mut k = 0;
                            while taken.contains(&format!("{b}_{k}")) {
                                k += 1;
                            }
                            taken.push(format!("{b}_{k}"));
                            given.insert(*p, format!("{b}_{k}"));
                        }
                    }
                }
            }
            for (ii, i) in body.iter().enumerate() {
                for (ti, t) in i.ts.iter().enumerate() {
                    if let (T::P(p, _), T::F(_)) = (t, out[ii].ts[ti].clone()) {
                        out[ii].ts[ti] = T::F(given[p].clone());
                    }
                }
            }
        }
        _ => {}
    }
}

fn run_case(cx: &mut Ctx, body: &[AI], tm: &TMode, qm: &QMode) {
    let tb = Tables::new(body);
    let mut program = Program::new();
    for i in body {
        program.add_instruction(build(&tb, i));
    }
    let desc = format!(
        "{} || targets={} qubits={}",
        txt_body(body),
        match tm {
            None => "default".to_string(),
            Some(t) => format!("{t:?}"),
        },
        match qm {
            None => "default".to_string(),
            Some(t) => format!("{t:?}"),
        }
    );
    let known = if cx.defect && in_pending_class(body, qm) {
        Some("pending-fix-frame-update-qubits")
    } else {
        None
    };
    // the input as the implementation holds it must be the input we describe
    let held: Vec<AI> = program.body_instructions().map(|i| read(&tb, i)).collect();
    if held != body {
        cx.run.process_failure("harness: built body differs from the abstract body", &desc, None);
        return;
    }
    let res = qv::catch(std::panic::AssertUnwindSafe(|| {
        if tm.is_none() && qm.is_none() {
            program.resolve_placeholders();
        } else {
            let tr: Box<dyn Fn(&TargetPlaceholder) -> Option<String>> = match tm {
                None => program.default_target_resolver(),
                Some(tbl) => {
                    let rev = tb.trev.clone();
                    let tbl = tbl.clone();
                    Box::new(move |p| {
                        let id = rev.get(p)?;
                        tbl.iter().find(|(k, _)| k == id).map(|(_, v)| v.clone())
                    })
                }
            };
            let qr: Box<dyn Fn(&QubitPlaceholder) -> Option<u64>> = match qm {
                None => program.default_qubit_resolver(),
                Some(tbl) => {
                    let rev = tb.qrev.clone();
                    let tbl = tbl.clone();
                    Box::new(move |p| {
                        let id = rev.get(p)?;
                        tbl.iter().find(|(k, _)| k == id).map(|(_, v)| *v)
                    })
                }
            };
            program.resolve_placeholders_with_custom_resolvers(tr, qr);
        }
    }));
    if let Err(e) = res {
        cx.run.process_failure(&format!("panic in resolve_placeholders: {e}"), &desc, None);
        return;
    }
    let mut out: Vec<AI> = program.body_instructions().map(|i| read(&tb, i)).collect();

    // to_quil() succeeds exactly when no placeholder is left, and the printed program read back
    // by the parser has the qubits / labels we read off the AST.
    let remaining = out
        .iter()
        .any(|i| i.qs.iter().any(|q| matches!(q, Q::P(_) | Q::Alien)) || i.ts.iter().any(|t| !matches!(t, T::F(_))));
    match program.to_quil() {
        Ok(text) => {
            if remaining {
                cx.run.process_failure("to_quil succeeded with a placeholder left", &desc, known);
            } else {
                match Program::from_str(&text) {
                    Ok(back) => {
                        let again: Vec<AI> = back.body_instructions().map(|i| read(&tb, i)).collect();
                        if again != out {
                            cx.run.process_failure(
                                &format!("printed program reads back differently: {}", text.replace('\n', "; ")),
                                &desc,
                                None,
                            );
                        }
                    }
                    Err(e) => cx.run.process_failure(
                        &format!("printed program does not parse ({e}): {}", text.replace('\n', "; ")),
                        &desc,
                        None,
                    ),
                }
            }
            cx.run.count("to_quil=ok");
        }
        Err(_) => {
            if !remaining {
                cx.run.process_failure("to_quil failed although no placeholder is left", &desc, None);
            }
            cx.run.count("to_quil=err(placeholder left)");
        }
    }

    mutate(cx.mutant, body, &mut out);

    let tmc = match tm {
        None => "None".to_string(),
        Some(t) => format!(
            "(Some {})",
            g::list(&t.iter().map(|(k, v)| format!("({k}, \"{v}\")")).collect::<Vec<_>>())
        ),
    };
    let qmc = match qm {
        None => "None".to_string(),
        Some(t) => format!(
            "(Some {})",
            g::list(&t.iter().map(|(k, v)| format!("({k}, {v})")).collect::<Vec<_>>())
        ),
    };
    let coq = format!("({}, {tmc}, {qmc}, {})", coq_body(body), coq_body(&out));
    let nq = body.iter().flat_map(|i| i.qs.iter()).filter(|q| matches!(q, Q::P(_))).count();
    let nt = body.iter().flat_map(|i| i.ts.iter()).filter(|t| matches!(t, T::P(..))).count();
    let nontrivial = nq + nt > 0;
    cx.run.count(&format!("len={}", body.len()));
    cx.run.count(match (tm, qm) {
        (None, None) => "mode=default/default",
        (Some(_), None) => "mode=custom-target/default-qubit",
        (None, Some(_)) => "mode=default-target/custom-qubit",
        (Some(_), Some(_)) => "mode=custom/custom",
    });
    if body.iter().any(|i| i.kind.frame_update() && !i.qs.is_empty()) {
        cx.run.count("has-frame-update-qubits");
    }
    if known.is_some() {
        cx.run.count("in-pending-fix-class");
    }
    cx.run.case(coq, &desc, nontrivial, known);
}

fn enumerate(cx: &mut Ctx, alphabet: &[AI], body: &mut Vec<AI>, max: usize) {
    if !body.is_empty() {
        run_case(cx, body, &None, &None);
    }
    if body.len() == max {
        return;
    }
    for a in alphabet {
        body.push(a.clone());
        enumerate(cx, alphabet, body, max);
        body.pop();
    }
}

const FIXED_LABELS: [&str; 9] = ["a", "a_0", "a_1", "a_2", "b", "b_0", "a_0_0", "a_0_1", "loop"];
const BASES: [&str; 4] = ["a", "b", "a_0", "loop"];

fn random_body(rng: &mut Rng) -> Vec<AI> {
    let len = rng.range(2, 12);
    let nq = rng.range(1, 5);
    let nt = rng.range(1, 4);
    let tbase: Vec<String> = (0..nt)
        .map(|_| if rng.chance(1, 2) { "a".to_string() } else { rng.pick(&BASES).to_string() })
        .collect();
    let maxfix = *rng.pick(&[2u64, 3, 6]);
    let qubit = |rng: &mut Rng| -> Q {
        match rng.below(10) {
            0..=4 => Q::P(rng.below(nq)),
            5..=8 => Q::F(rng.below(maxfix as usize) as u64),
            _ => Q::V(rng.below(2)),
        }
    };
    let mut body = vec![];
    for _ in 0..len {
        let k = match rng.below(20) {
            0..=3 => Gate,
            4 => Measure,
            5 => Reset,
            6 => Delay,
            7 => Fence,
            8 => Pulse,
            9 => *rng.pick(&[Capture, RawCapture]),
            10 | 11 => *rng.pick(&[SetFrequency, SetPhase, SetScale, ShiftFrequency, ShiftPhase]),
            12 => SwapPhases,
            13 | 14 => Label,
            15 | 16 => Jump,
            17 => JumpWhen,
            18 => JumpUnless,
            _ => Other,
        };
        let i = match k {
            Gate => {
                let n = rng.range(1, 3);
                ai(Gate, (0..n).map(|_| qubit(rng)).collect())
            }
            Measure => ai(Measure, vec![qubit(rng)]),
            Reset => ai(Reset, if rng.chance(1, 4) { vec![] } else { vec![qubit(rng)] }),
            Delay | Fence => {
                let n = rng.range(if k == Delay { 1 } else { 0 }, 3);
                ai(k, (0..n).map(|_| qubit(rng)).collect())
            }
            Pulse | Capture | RawCapture | SetFrequency | SetPhase | SetScale | ShiftFrequency | ShiftPhase => {
                let n = rng.range(1, 2);
                ai(k, (0..n).map(|_| qubit(rng)).collect())
            }
            SwapPhases => {
                let a = rng.range(1, 2);
                let b = rng.range(1, 2);
                AI { kind: SwapPhases, qs: (0..a + b).map(|_| qubit(rng)).collect(), ts: vec![], split: a }
            }
            Label | Jump | JumpWhen | JumpUnless => {
                let t = if rng.chance(1, 2) {
                    let p = rng.below(nt);
                    T::P(p, tbase[p].clone())
                } else {
                    T::F(rng.pick(&FIXED_LABELS).to_string())
                };
                at(k, t)
            }
            Other => ai(Other, vec![]),
        };
        body.push(i);
    }
    body
}

fn main() {
    let args = Args::parse();
    let mutant: u32 = std::env::var("QV_MUTANT").ok().and_then(|s| s.parse().ok()).unwrap_or(0);
    let header = "From Coq Require Import List NArith String.\nFrom QV Require Import Model.Resolve.\nImport ListNotations.\nOpen Scope string_scope.\nOpen Scope N_scope.";
    let run = Run::new(&args.out, header, "case", "failing", 600);
    let defect = defect_present();
    let mut cx = Ctx { run, mutant, defect };
    cx.run.note(&format!(
        "frame-update defect (get_qubits omits SET-*/SHIFT-*/SWAP-PHASES frame qubits) present in the crate under test: {defect}"
    ));
    if mutant != 0 {
        cx.run.note(&format!("QV_MUTANT={mutant}: observed outputs perturbed"));
    }

    // (1a) exhaustive: qubit side.  atoms 0, 1, P0, P1 in X / PULSE / SET-PHASE, plus two-qubit forms.
    let atoms = [Q::F(0), Q::F(1), Q::P(0), Q::P(1)];
    let mut qalpha: Vec<AI> = vec![];
    for k in [Gate, Pulse, SetPhase] {
        for a in &atoms {
            qalpha.push(ai(k, vec![a.clone()]));
        }
    }
    qalpha.push(ai(Gate, vec![Q::P(1), Q::P(0)]));
    qalpha.push(ai(Fence, vec![Q::F(2), Q::P(0)]));
    qalpha.push(AI { kind: SwapPhases, qs: vec![Q::P(1), Q::F(0)], ts: vec![], split: 1 });
    let qmax = if args.thorough() { 4 } else { 3 };
    enumerate(&mut cx, &qalpha, &mut vec![], qmax);
    // (1b) exhaustive: label side.
    let tatoms = [
        T::F("a_0".into()),
        T::F("a_1".into()),
        T::P(0, "a".into()),
        T::P(1, "a".into()),
        T::P(2, "a_0".into()),
        T::F("a_0_0".into()),
    ];
    let mut talpha: Vec<AI> = vec![];
    for k in [Label, Jump] {
        for a in &tatoms {
            talpha.push(at(k, a.clone()));
        }
    }
    talpha.push(at(JumpWhen, T::P(0, "a".into())));
    talpha.push(at(JumpUnless, T::F("a_0".into())));
    let tmax = if args.thorough() { 4 } else { 3 };
    enumerate(&mut cx, &talpha, &mut vec![], tmax);
    let exhaustive_cases = cx.run.evaluations;

    // (2) seeded random bodies mixing everything, default and custom resolvers
    let mut rng = Rng::new(args.seed);
    let nrand = if args.thorough() { 30000 } else { 3000 };
    for _ in 0..nrand {
        let body = random_body(&mut rng);
        let (tm, qm): (TMode, QMode) = match rng.below(10) {
            0..=4 => (None, None),
            5 | 6 => (None, Some(vec![])),
            7 => (Some(vec![]), None),
            _ => (Some(vec![]), Some(vec![])),
        };
        // custom tables: a random subset of ids, values possibly colliding (that is the caller's business)
        let qm = qm.map(|_| {
            let mut v = vec![];
            for p in 0..6usize {
                if rng.chance(1, 2) {
                    v.push((p, rng.below(8) as u64));
                }
            }
            v
        });
        let tm = tm.map(|_| {
            let mut v = vec![];
            for p in 0..5usize {
                if rng.chance(1, 2) {
                    v.push((p, rng.pick(&["x", "a_0", "end", "a"]).to_string()));
                }
            }
            v
        });
        run_case(&mut cx, &body, &tm, &qm);
    }
    cx.run.finish(
        "exhaustive: every body up to the stated length over (a) 15 qubit instructions (X/PULSE/SET-PHASE on 0,1,P0,P1; \
         X P1 P0; FENCE 2 P0; SWAP-PHASES P1 / 0) and (b) 14 label instructions (LABEL/JUMP on a_0,a_1,a_0_0 and \
         placeholders P0:a,P1:a,P2:a_0; JUMP-WHEN P0; JUMP-UNLESS a_0), default resolvers; plus seeded random bodies \
         of 2..12 instructions of all kinds with default or custom (partial, possibly colliding) resolvers. \
         Distinct by body and resolver tables; non-trivial = the body contains at least one placeholder occurrence.",
        true,
        serde_json::json!({"exhaustive_max_len": qmax, "exhaustive_cases": exhaustive_cases, "random_cases": nrand,
                           "mutant": mutant, "frame_update_defect_present": defect}),
    );
}
