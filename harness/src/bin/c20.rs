//! C20 -- gate-sequence expansion substitutes correctly and keeps needed definitions.
#[path = "../seqgen.rs"]
mod seqgen;

fn main() {
    seqgen::main_with(seqgen::Mode::C20);
}
