//! C29 — gate depth equals the longest chain of qualifying gates.
//!
//! Every case is a real `Program` parsed from Quil text (one basic block, obtained through
//! `ControlFlowGraph`), handed to `QubitGraph::try_from_basic_block`; observed: the error verdict
//! or `gate_depth(k)` for each threshold.  Programs containing a gate that repeats a qubit
//! (`CNOT 0 0`) are ALWAYS evaluated in a child process with a timeout: at the snapshot commit such
//! a gate produced a self-loop on which `gate_depth` never returned; a hang is a process failure.
use qv::{gallina as g, Args, Rng, Run};
use quil_rs::instruction::{
    DefaultHandler, Instruction, InstructionHandler, InstructionRole, Qubit,
};
use quil_rs::program::analysis::{ControlFlowGraph, QubitGraph, QubitGraphError};
use quil_rs::Program;
use std::io::{BufRead, Write};
use std::sync::mpsc;
use std::time::Duration;

/// A handler that accepts FENCE and DELAY (role ClassicalCompute): nodes with qubits that are
/// neither gates nor measurements.
struct FenceOk;
impl InstructionHandler for FenceOk {
    fn role(&self, i: &Instruction) -> InstructionRole {
        match i {
            Instruction::Fence(_) | Instruction::Delay(_) => InstructionRole::ClassicalCompute,
            _ => DefaultHandler.role(i),
        }
    }
}

#[derive(Clone, Copy, PartialEq, Debug)]
enum Mode {
    Default,
    FenceOk,
}

#[derive(Clone, Debug, PartialEq)]
enum Obs {
    Err(usize),
    Depths(Vec<usize>),
}

fn parse_block_program(text: &str) -> Program {
    // the leading label guarantees that a (single) block exists even for an empty sequence
    let full = format!("LABEL @s\n{text}");
    full.parse().unwrap_or_else(|e| panic!("generated program does not parse: {e}\n{text}"))
}

/// The real thing.
fn observe(text: &str, mode: Mode, ks: &[usize]) -> Obs {
    let program = parse_block_program(text);
    let blocks = ControlFlowGraph::from(&program).into_blocks();
    assert_eq!(blocks.len(), 1, "expected one basic block:\n{text}");
    let block = &blocks[0];
    let graph = match mode {
        Mode::Default => QubitGraph::try_from_basic_block(block, &DefaultHandler),
        Mode::FenceOk => QubitGraph::try_from_basic_block(block, &FenceOk),
    };
    match graph {
        Err(QubitGraphError::UnsupportedInstruction(ins)) => Obs::Err(
            block
                .instructions()
                .iter()
                .position(|i| **i == ins)
                .unwrap_or(usize::MAX),
        ),
        Ok(graph) => Obs::Depths(ks.iter().map(|k| graph.gate_depth(*k)).collect()),
    }
}

fn obs_to_line(o: &Result<Obs, String>) -> String {
    match o {
        Ok(Obs::Err(i)) => format!("E {i}"),
        Ok(Obs::Depths(d)) => format!("D {}", d.iter().map(|x| x.to_string()).collect::<Vec<_>>().join(" ")),
        Err(msg) => format!("P {}", msg.replace('\n', " ")),
    }
}
fn line_to_obs(l: &str) -> Result<Obs, String> {
    let (tag, rest) = l.split_at(1);
    match tag {
        "E" => Ok(Obs::Err(rest.trim().parse().unwrap())),
        "D" => Ok(Obs::Depths(rest.split_whitespace().map(|x| x.parse().unwrap()).collect())),
        _ => Err(rest.trim().to_string()),
    }
}

const KS: [usize; 5] = [0, 1, 2, 3, 4];

/// Child mode: read `mode<TAB>escaped text` lines from the file, print one observation per line.
fn child_main(path: &str) {
    let f = std::fs::File::open(path).expect("child input");
    let out = std::io::stdout();
    for line in std::io::BufReader::new(f).lines() {
        let line = line.unwrap();
        let (m, t) = line.split_once('\t').unwrap();
        let mode = if m == "F" { Mode::FenceOk } else { Mode::Default };
        let text = t.replace("\\n", "\n");
        // QV_MUTANT=5 emulates the snapshot's defect (gate_depth never returns on a self-loop)
        if std::env::var("QV_MUTANT").as_deref() == Ok("5") && text == "X 0\nCNOT 0 0" {
            loop {
                std::thread::sleep(Duration::from_secs(3600));
            }
        }
        let r = qv::catch(move || observe(&text, mode, &KS));
        let mut o = out.lock();
        writeln!(o, "{}", obs_to_line(&r)).unwrap();
        o.flush().unwrap();
    }
}

/// Evaluate `inputs` in child processes; a case whose answer does not arrive within the timeout is
/// reported as `Err("timeout")` and the child is restarted on the remaining inputs.
fn run_in_children(dir: &std::path::Path, inputs: &[(String, Mode)]) -> Vec<Result<Obs, String>> {
    let exe = std::env::current_exe().expect("current_exe");
    let mut results: Vec<Result<Obs, String>> = Vec::new();
    let timeout = Duration::from_secs(20);
    let mut round = 0;
    while results.len() < inputs.len() {
        let start = results.len();
        let path = dir.join(format!("child_input_{round}.txt"));
        round += 1;
        let mut s = String::new();
        for (t, m) in &inputs[start..] {
            s.push_str(if *m == Mode::FenceOk { "F" } else { "D" });
            s.push('\t');
            s.push_str(&t.replace('\n', "\\n"));
            s.push('\n');
        }
        std::fs::write(&path, s).unwrap();
        let mut child = std::process::Command::new(&exe)
            .env("QV_C29_CHILD", &path)
            .stdout(std::process::Stdio::piped())
            .stderr(std::process::Stdio::null())
            .spawn()
            .expect("spawn child");
        let stdout = child.stdout.take().unwrap();
        let (tx, rx) = mpsc::channel::<String>();
        let reader = std::thread::spawn(move || {
            for l in std::io::BufReader::new(stdout).lines().map_while(Result::ok) {
                if tx.send(l).is_err() {
                    break;
                }
            }
        });
        loop {
            if results.len() == inputs.len() {
                break;
            }
            match rx.recv_timeout(timeout) {
                Ok(l) => results.push(line_to_obs(&l)),
                Err(mpsc::RecvTimeoutError::Timeout) => {
                    results.push(Err("timeout".to_string()));
                    break;
                }
                Err(mpsc::RecvTimeoutError::Disconnected) => {
                    // the child died (abort) while working on the next input
                    results.push(Err("child process died".to_string()));
                    break;
                }
            }
        }
        let _ = child.kill();
        let _ = child.wait();
        let _ = reader.join();
        let _ = std::fs::remove_file(&path);
    }
    results
}

// ---------------------------------------------------------------------------------------------

#[derive(Clone, Debug, PartialEq)]
enum Kind {
    Gate,
    Measure,
    Other,
    Classical,
    Unsupported,
}

/// Independent abstraction of a block instruction: kind and qubit list (with repetitions).
fn abstract_instr(i: &Instruction, mode: Mode) -> (Kind, Vec<u64>) {
    let q = |q: &Qubit| -> u64 {
        match q {
            Qubit::Fixed(n) => *n,
            Qubit::Variable(name) => 1000 + name.bytes().map(|b| b as u64).sum::<u64>(),
            Qubit::Placeholder(_) => 999_999,
        }
    };
    match i {
        Instruction::Gate(gate) => (Kind::Gate, gate.qubits.iter().map(q).collect()),
        Instruction::Measurement(m) => (Kind::Measure, vec![q(&m.qubit)]),
        Instruction::Fence(f) if mode == Mode::FenceOk => {
            if f.qubits.is_empty() {
                (Kind::Classical, vec![])
            } else {
                (Kind::Other, f.qubits.iter().map(q).collect())
            }
        }
        Instruction::Delay(d) if mode == Mode::FenceOk => {
            if d.qubits.is_empty() {
                (Kind::Classical, vec![])
            } else {
                (Kind::Other, d.qubits.iter().map(q).collect())
            }
        }
        Instruction::Arithmetic(_)
        | Instruction::BinaryLogic(_)
        | Instruction::Call(_)
        | Instruction::Comparison(_)
        | Instruction::Convert(_)
        | Instruction::Exchange(_)
        | Instruction::Load(_)
        | Instruction::Move(_)
        | Instruction::Nop()
        | Instruction::Store(_)
        | Instruction::UnaryLogic(_)
        | Instruction::Wait() => (Kind::Classical, vec![]),
        _ => (Kind::Unsupported, vec![]),
    }
}

fn instr_coq(k: &Kind, qs: &[u64]) -> String {
    let kind = match k {
        Kind::Gate => "KGate",
        Kind::Measure => "KMeasure",
        Kind::Other => "KOther",
        Kind::Classical => "KClassical",
        Kind::Unsupported => "KUnsupported",
    };
    format!("mkI {kind} {}", g::list(&qs.iter().map(|q| format!("{q}%N")).collect::<Vec<_>>()))
}

fn has_repeated_qubit(abs: &[(Kind, Vec<u64>)]) -> bool {
    abs.iter().any(|(_, qs)| {
        let mut s = qs.clone();
        s.sort();
        s.windows(2).any(|w| w[0] == w[1])
    })
}

/// Number of source->sink paths of the multigraph the implementation builds (to keep the
/// exponential path enumeration bounded on random inputs); counts up to `cap`.
fn path_count(abs: &[(Kind, Vec<u64>)], cap: u64) -> u64 {
    let n = abs.len();
    let mut last: std::collections::HashMap<u64, usize> = Default::default();
    let mut edges: Vec<(usize, usize)> = Vec::new();
    for (i, (_, qs)) in abs.iter().enumerate() {
        for q in qs {
            if let Some(j) = last.insert(*q, i) {
                if j != i {
                    edges.push((j, i));
                }
            }
        }
    }
    let mut to_sink = vec![0u64; n];
    for i in (0..n).rev() {
        let out: Vec<usize> = edges.iter().filter(|e| e.0 == i).map(|e| e.1).collect();
        to_sink[i] = if out.is_empty() { 1 } else { out.iter().map(|j| to_sink[*j]).sum::<u64>().min(cap) };
    }
    (0..n)
        .filter(|i| !edges.iter().any(|e| e.1 == *i))
        .map(|i| to_sink[i])
        .sum::<u64>()
        .min(cap)
}

struct Pending {
    text: String,
    mode: Mode,
    abs: Vec<(Kind, Vec<u64>)>,
    kind: &'static str,
}

struct Ctx {
    mutant: u32,
    in_child: Vec<Pending>,
}

/// QV_MUTANT: perturb the observation the way a subtly wrong implementation would.
fn mutate(m: u32, text: &str, mode: Mode, o: Obs) -> Obs {
    let filtered = |pred: &dyn Fn(&str) -> bool| -> String {
        text.lines().filter(|l| pred(l)).collect::<Vec<_>>().join("\n")
    };
    match (m, o) {
        // 1: off-by-one in the threshold (`>` instead of `>=`)
        (1, Obs::Depths(d)) => {
            let mut ks: Vec<usize> = KS.iter().map(|k| k + 1).collect();
            ks.truncate(d.len());
            observe(text, mode, &ks)
        }
        // 2: a gate's qubits are counted without repetition for the threshold (`CNOT 0 0` counts
        //    as a one-qubit gate): emulated by observing the program with such gates collapsed
        (2, Obs::Depths(_)) => {
            let collapsed = text
                .lines()
                .map(|l| {
                    let toks: Vec<&str> = l.split_whitespace().collect();
                    let is_gate = matches!(toks.first(), Some(&"CNOT") | Some(&"CZ") | Some(&"CCNOT"));
                    if is_gate && toks.len() >= 3 && toks[1..].iter().all(|t| *t == toks[1]) {
                        format!("X {}", toks[1])
                    } else {
                        l.to_string()
                    }
                })
                .collect::<Vec<_>>()
                .join("\n");
            observe(&collapsed, mode, &KS)
        }
        // 3: dropped case: PRAGMA is accepted and ignored instead of rejected
        (3, Obs::Err(_)) => observe(&filtered(&|l| !l.starts_with("PRAGMA")), mode, &KS),
        // 4: the depth is the number of qualifying gates in the block (longest chain replaced by a sum)
        (4, Obs::Depths(d)) => {
            let program = parse_block_program(text);
            let blocks = ControlFlowGraph::from(&program).into_blocks();
            let v = KS[..d.len()]
                .iter()
                .map(|k| {
                    blocks[0]
                        .instructions()
                        .iter()
                        .filter(|i| matches!(i, Instruction::Gate(g) if g.qubits.len() >= *k))
                        .count()
                })
                .collect();
            Obs::Depths(v)
        }
        (_, o) => o,
    }
}

fn emit(run: &mut Run, cx: &Ctx, p: &Pending, r: Result<Obs, String>) {
    let obs = match r {
        Ok(o) => {
            if cx.mutant != 0 {
                mutate(cx.mutant, &p.text, p.mode, o)
            } else {
                o
            }
        }
        Err(msg) => {
            let what = if msg == "timeout" {
                "QubitGraph::gate_depth did not return within 20 s (child process killed)".to_string()
            } else {
                format!("QubitGraph construction / gate_depth failed: {msg}")
            };
            run.count("process failure");
            run.process_failure(&what, &desc(p), None);
            return;
        }
    };
    let obs_coq = match &obs {
        Obs::Err(i) => {
            run.count("verdict: unsupported");
            format!("ObsErr {}", if *i == usize::MAX { 99999 } else { *i })
        }
        Obs::Depths(d) => {
            run.count(&format!("depth(1)={}", d[1]));
            format!("ObsDepths {}", g::list(&d.iter().map(|x| x.to_string()).collect::<Vec<_>>()))
        }
    };
    let coq = format!(
        "({}, {}, {})",
        g::list(&p.abs.iter().map(|(k, q)| instr_coq(k, q)).collect::<Vec<_>>()),
        g::list(&KS.iter().map(|x| x.to_string()).collect::<Vec<_>>()),
        obs_coq
    );
    // non-trivial: at least two instructions share a qubit
    let nontrivial = path_count(&p.abs, 10) >= 1
        && p.abs.iter().enumerate().any(|(i, (_, a))| {
            p.abs[i + 1..].iter().any(|(_, b)| a.iter().any(|q| b.contains(q)))
        });
    run.count(&format!("{} len={}", p.kind, p.abs.len()));
    run.case(coq, &desc(p), nontrivial, None);
}

fn desc(p: &Pending) -> String {
    format!("{}{}", if p.mode == Mode::FenceOk { "#handler=fence-ok\n" } else { "" }, p.text)
}

fn submit(run: &mut Run, cx: &mut Ctx, lines: &[&str], mode: Mode, kind: &'static str) {
    let text = lines.join("\n");
    let program = parse_block_program(&text);
    let blocks = ControlFlowGraph::from(&program).into_blocks();
    assert_eq!(blocks.len(), 1);
    assert_eq!(blocks[0].instructions().len(), lines.len(), "a line did not reach the block:\n{text}");
    let abs: Vec<(Kind, Vec<u64>)> =
        blocks[0].instructions().iter().map(|i| abstract_instr(i, mode)).collect();
    let p = Pending { text, mode, abs, kind };
    if has_repeated_qubit(&p.abs) {
        run.count("repeated-qubit gate (child process)");
        cx.in_child.push(p);
    } else {
        let (t, m) = (p.text.clone(), p.mode);
        let r = qv::catch(move || observe(&t, m, &KS));
        emit(run, cx, &p, r);
    }
}

fn flush_children(run: &mut Run, cx: &mut Ctx, dir: &std::path::Path) {
    let pend = std::mem::take(&mut cx.in_child);
    let inputs: Vec<(String, Mode)> = pend.iter().map(|p| (p.text.clone(), p.mode)).collect();
    let results = run_in_children(dir, &inputs);
    for (p, r) in pend.iter().zip(results) {
        emit(run, cx, p, r);
    }
}

const ALPHA: [&str; 8] = [
    "X 0",
    "H 2",
    "CNOT 0 1",
    "CZ 1 2",
    "CNOT 0 0",
    "CCNOT 0 1 2",
    "MEASURE 1 ro[0]",
    "MOVE ro[0] 1",
];

/// second alphabet: accepted / rejected non-gates
const ALPHA2: [&str; 9] = [
    "X 0",
    "CNOT 0 1",
    "PRAGMA foo",
    "FENCE 0 1",
    "FENCE",
    "MEASURE 0",
    "NOP",
    "RESET 0",
    "WAIT",
];

fn enumerate<'a>(
    run: &mut Run,
    cx: &mut Ctx,
    alpha: &[&'a str],
    seq: &mut Vec<&'a str>,
    max: usize,
    mode: Mode,
    kind: &'static str,
) {
    submit(run, cx, seq, mode, kind);
    if seq.len() == max {
        return;
    }
    for s in alpha {
        seq.push(s);
        enumerate(run, cx, alpha, seq, max, mode, kind);
        seq.pop();
    }
}

fn random_program(rng: &mut Rng) -> (Vec<String>, Mode) {
    let len = rng.range(6, 12);
    let mode = if rng.chance(1, 4) { Mode::FenceOk } else { Mode::Default };
    let with_unsupported = rng.chance(1, 12);
    let nq = rng.range(2, 4);
    let mut three = 0;
    let mut v = Vec::new();
    for _ in 0..len {
        let r = rng.below(100);
        let a = rng.below(nq);
        let b = rng.below(nq);
        let line = if r < 30 {
            format!("{} {a}", rng.pick(&["X", "H", "RX(pi)", "DAGGER T"]))
        } else if r < 62 {
            // a == b (repeated qubit) happens with probability 1/nq; keep some, reroll most
            let b = if a == b && rng.chance(2, 3) { (a + 1) % nq } else { b };
            format!("{} {a} {b}", rng.pick(&["CNOT", "CZ", "CONTROLLED X"]))
        } else if r < 70 && three < 3 {
            three += 1;
            let c = rng.below(nq);
            format!("CCNOT {a} {b} {c}")
        } else if r < 82 {
            if rng.chance(1, 2) {
                format!("MEASURE {a} ro[0]")
            } else {
                format!("MEASURE {a}")
            }
        } else if r < 92 {
            rng.pick(&["MOVE ro[0] 1", "NOP", "ADD ro[0] 1", "WAIT"]).to_string()
        } else if mode == Mode::FenceOk {
            match rng.below(3) {
                0 => format!("FENCE {a} {b}"),
                1 => "FENCE".to_string(),
                _ => format!("DELAY {a} 1.0"),
            }
        } else if with_unsupported {
            rng.pick(&["PRAGMA foo", "RESET 0", "FENCE 0", "RESET"]).to_string()
        } else {
            format!("X {a}")
        };
        v.push(line);
    }
    (v, mode)
}

fn main() {
    if let Ok(path) = std::env::var("QV_C29_CHILD") {
        child_main(&path);
        return;
    }
    let args = Args::parse();
    let mut cx = Ctx {
        mutant: std::env::var("QV_MUTANT").ok().and_then(|s| s.parse().ok()).unwrap_or(0),
        in_child: Vec::new(),
    };
    if let Some(d) = &args.replay {
        let d = d.replace("\\n", "\n");
        let (mode, text) = match d.strip_prefix("#handler=fence-ok\n") {
            Some(t) => (Mode::FenceOk, t.to_string()),
            None => (Mode::Default, d.clone()),
        };
        println!("block:\n{text}\nhandler: {mode:?}");
        let r = run_in_children(std::path::Path::new("run"), &[(text.clone(), mode)]);
        println!("implementation (thresholds {KS:?}): {}", obs_to_line(&r[0]));
        println!("required: gate_depth(k) = the largest number of gates with at least k qubit arguments on a chain of instructions in which consecutive instructions share a qubit with no instruction on that qubit between them");
        return;
    }
    let header = "From Coq Require Import List NArith.\nFrom QV Require Import Model.QubitGraph.\nImport ListNotations.\nOpen Scope nat_scope.";
    let mut run = Run::new(&args.out, header, "case", "failing", 1000);
    let out_dir = args.out.clone();
    let max = if args.thorough() { 6 } else { 5 };
    enumerate(&mut run, &mut cx, &ALPHA, &mut Vec::new(), max, Mode::Default, "exh");
    let max2 = if args.thorough() { 4 } else { 3 };
    enumerate(&mut run, &mut cx, &ALPHA2, &mut Vec::new(), max2, Mode::Default, "exh2-default");
    enumerate(&mut run, &mut cx, &ALPHA2, &mut Vec::new(), max2, Mode::FenceOk, "exh2-fence-ok");
    // pinned: the hang witness of the snapshot commit and variable qubits
    submit(&mut run, &mut cx, &["X 0", "CNOT 0 0"], Mode::Default, "pinned");
    submit(&mut run, &mut cx, &["CNOT 0 0", "CNOT 0 0", "CNOT 0 1", "CCNOT 1 1 1"], Mode::Default, "pinned");
    let mut rng = Rng::new(args.seed);
    let nrand = if args.thorough() { 20000 } else { 3000 };
    let mut made = 0;
    while made < nrand {
        let (lines, mode) = random_program(&mut rng);
        let refs: Vec<&str> = lines.iter().map(|s| s.as_str()).collect();
        // bound the exponential path enumeration (also in the Coq model)
        let program = parse_block_program(&refs.join("\n"));
        let blocks = ControlFlowGraph::from(&program).into_blocks();
        let abs: Vec<(Kind, Vec<u64>)> =
            blocks[0].instructions().iter().map(|i| abstract_instr(i, mode)).collect();
        if path_count(&abs, 100_000) > 3000 {
            run.count("random program skipped: more than 3000 paths");
            continue;
        }
        made += 1;
        submit(&mut run, &mut cx, &refs, mode, "rnd");
    }
    flush_children(&mut run, &mut cx, &out_dir);
    run.finish(
        "exhaustive: every sequence up to the stated length over {X 0, H 2, CNOT 0 1, CZ 1 2, CNOT 0 0 (repeated qubit), \
         CCNOT 0 1 2, MEASURE 1 ro[0], MOVE ro[0] 1}; every sequence up to length 3 (thorough 4) over \
         {X 0, CNOT 0 1, PRAGMA foo, FENCE 0 1, FENCE, MEASURE 0, NOP, RESET 0, WAIT} with the default handler and \
         with a handler accepting FENCE/DELAY; seeded random sequences of 6..12 instructions over 2..4 qubits \
         (1-3 qubit gates incl. modifiers and repeated qubits, measurements, classical, occasional unsupported). \
         Thresholds 0..4 in every case. Distinct by handler + program text; non-trivial = two instructions share a qubit.",
        true,
        serde_json::json!({"exhaustive_max_len": max, "random_cases": nrand, "mutant": cx.mutant,
                           "thresholds": KS}),
    );
}
