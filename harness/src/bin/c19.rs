//! C19 — the calibration source map exactly accounts for every expansion.
//!
//! Real `Program::from_str` + `expand_calibrations_with_source_map()`; the full `SourceMap` tree and
//! the answers of the real `list_sources` / `list_targets` are abstracted into the syntax of
//! `Model/CalExpandFull.v`; comparison with the model and the verified checker `chk_wfmap` run
//! inside Coq (`failing19`).
#[path = "../calgen.rs"]
mod calgen;

use calgen::{Ent, Interner};
use qv::{gallina as g, Args, Rng, Run};
use quil_rs::instruction::Instruction;
use quil_rs::program::{ExpansionResult, InstructionIndex, ProgramError};
use quil_rs::quil::Quil;
use quil_rs::Program;
use std::str::FromStr;

fn mutant() -> u32 {
    std::env::var("QV_MUTANT").ok().and_then(|s| s.parse().ok()).unwrap_or(0)
}

/// QV_MUTANT perturbs the observed source map (emulating realistic bookkeeping bugs).
fn mutate_entries(m: &mut Vec<Ent>) {
    fn first_nested_rewr(v: &mut Vec<Ent>, depth: usize) -> Option<&mut Ent> {
        for e in v.iter_mut() {
            if let Ent::Rewr(..) = e {
                if depth >= 1 {
                    return Some(e);
                }
                if let Ent::Rewr(_, _, _, _, sub) = e {
                    if let Some(x) = first_nested_rewr(sub, depth + 1) {
                        return Some(x);
                    }
                }
            }
        }
        None
    }
    fn drop_first_unmod(v: &mut Vec<Ent>) -> bool {
        if let Some(i) = v.iter().position(|e| matches!(e, Ent::Unmod(..))) {
            v.remove(i);
            return true;
        }
        for e in v.iter_mut() {
            if let Ent::Rewr(_, _, _, _, sub) = e {
                if drop_first_unmod(sub) {
                    return true;
                }
            }
        }
        false
    }
    match mutant() {
        // 1: off-by-one: the end of the first nested range (else of the first range) is one too large
        1 => {
            if let Some(Ent::Rewr(_, _, _, hi, _)) = first_nested_rewr(m, 0) {
                *hi += 1;
            } else if let Some(Ent::Rewr(_, _, _, hi, _)) = m.iter_mut().find(|e| matches!(e, Ent::Rewr(..))) {
                *hi += 1;
            }
        }
        // 2: a dropped case: the first Unmodified entry is not recorded
        2 => {
            drop_first_unmod(m);
        }
        // 3: nested Unmodified targets recorded relative to the program instead of the parent range
        3 => {
            for e in m.iter_mut() {
                if let Ent::Rewr(_, _, lo, _, sub) = e {
                    if *lo > 0 {
                        for n in sub.iter_mut() {
                            if let Ent::Unmod(_, t) = n {
                                *t += *lo;
                            }
                        }
                        break;
                    }
                }
            }
        }
        // 4: swapped order: the first two entries are recorded in the wrong order
        4 => {
            if m.len() >= 2 {
                m.swap(0, 1);
            }
        }
        _ => {}
    }
}

fn run_case(run: &mut Run, text: &str, verbose: bool) {
    let p = match Program::from_str(text) {
        Ok(p) => p,
        Err(e) => {
            eprintln!("generator produced unparseable text:\n{text}\n{e}");
            std::process::exit(3)
        }
    };
    let r = match qv::catch(|| p.expand_calibrations_with_source_map()) {
        Ok(r) => r,
        Err(m) => {
            run.process_failure(&format!("expand_calibrations_with_source_map panicked: {m}"), text, None);
            return;
        }
    };
    let mut it = Interner::new();
    let lit = (|| -> Result<String, String> {
        let cs = it.cals(&p)?;
        let pr = it.program(&p)?;
        let o = match &r {
            Ok((p2, m)) => {
                let nout = p2.body_instructions().count();
                let nsrc = p.body_instructions().count();
                let mut srcs = Vec::new();
                for t in 0..nout {
                    let v: Vec<String> = m.list_sources(&InstructionIndex(t)).iter().map(|s| format!("{}", s.0)).collect();
                    srcs.push(g::list(&v));
                }
                let mut tgts = Vec::new();
                for s in 0..nsrc {
                    let mut v = Vec::new();
                    for tl in m.list_targets(&InstructionIndex(s)) {
                        v.push(match tl {
                            ExpansionResult::Unmodified(t) => format!("EUnmod {s} {}", t.0),
                            ExpansionResult::Rewritten(x) => it.rewritten(s, x)?,
                        });
                    }
                    tgts.push(g::list(&v));
                }
                let mut tree = it.tree(m)?;
                mutate_entries(&mut tree);
                let entries = calgen::print_entries(&tree);
                format!("(OOk ({}, {}, ({}, {})))", it.program(p2)?, entries, g::list(&srcs), g::list(&tgts))
            }
            Err(ProgramError::RecursiveCalibration(i)) => format!("(OErr ({}))", it.instr(i)?),
            Err(e) => return Err(format!("unexpected error {e}")),
        };
        Ok(format!("{cs}, {pr}, {o}"))
    })();
    let lit = match lit {
        Ok(x) => x,
        Err(e) => {
            run.count(&format!("skipped-unsupported: {}", e.split(' ').next().unwrap_or("")));
            return;
        }
    };
    // class of the open finding: some expansion (at any depth) emits a DECLARE
    let singles: Vec<_> = p.body_instructions().map(|i| p.calibrations.expand(i, &[])).collect();
    let expanded = singles.iter().any(|s| matches!(s, Ok(Some(_))));
    let hoists = singles.iter().any(|s| matches!(s, Ok(Some(v)) if v.iter().any(|i| matches!(i, Instruction::Declaration(_)))));
    let (nested, depth) = match &r {
        Ok((_, m)) => {
            fn depth(m: &calgen::Map) -> usize {
                m.entries().iter().map(|e| match e.target_location() {
                    ExpansionResult::Rewritten(x) => 1 + depth(x.expansions()),
                    _ => 0,
                }).max().unwrap_or(0)
            }
            let d = depth(m);
            (d >= 2, d)
        }
        _ => (false, 0),
    };
    run.count(match (&r, expanded) {
        (Err(_), _) => "outcome=recursive-error",
        (Ok(_), true) => "outcome=expanded",
        (Ok(_), false) => "outcome=nothing-matched",
    });
    run.count(&format!("map-depth={depth}"));
    if hoists {
        run.count("expansion-emits-declare");
    }
    if verbose {
        println!("--- input\n{text}");
        match &r {
            Ok((p2, m)) => println!("--- expanded\n{}\n--- source map\n{m:#?}", p2.to_quil_or_debug()),
            Err(e) => println!("--- error: {e}"),
        }
        println!("--- Coq case (mode 0)\n(0, {lit})");
        println!("class hoisted-declaration-in-expansion: {hoists}");
    }
    let nontrivial = expanded && r.is_ok();
    let _ = nested;
    if hoists && r.is_ok() {
        // the model follows the code (remove_target_index literally): correspondence is still
        // demanded; the well-formedness check alone is attributed to the known finding
        run.case(format!("(1, {lit})"), text, nontrivial, None);
        run.case(format!("(2, {lit})"), &format!("{text}# property-only"), false, Some("hoisted-declaration-in-expansion"));
    } else {
        run.case(format!("(0, {lit})"), text, nontrivial, None);
    }
}

fn main() {
    let args = Args::parse();
    let header = "From Coq Require Import List NArith ZArith.\nFrom QV Require Import Model.CalExpandFull.\nImport ListNotations.\nOpen Scope N_scope.";
    if let Some(desc) = &args.replay {
        let text = desc.replace("\\n", "\n").replace("# property-only", "");
        let dir = std::env::temp_dir().join("qv-c19-replay");
        let mut run = Run::new(&dir, header, "c19_case", "failing19", 400);
        run_case(&mut run, &text, true);
        return;
    }
    let mut run = Run::new(&args.out, header, "c19_case", "failing19", 300);
    for t in calgen::CORPUS {
        run_case(&mut run, t, false);
    }
    let corpus = run.evaluations;
    let stride = if args.thorough() { 1 } else { 5 };
    let mut k = 0usize;
    calgen::exhaustive(2, |t, len| {
        k += 1;
        if len == 1 || k % stride == 0 {
            run_case(&mut run, t, false)
        }
    });
    calgen::exhaustive_params(|t| run_case(&mut run, t, false));
    let exhaustive_cases = run.evaluations - corpus;
    let mut rng = Rng::new(args.seed ^ 0x19);
    let nrand = if args.thorough() { 30000 } else { 2000 };
    for _ in 0..nrand {
        let t = calgen::random_program(&mut rng);
        run_case(&mut run, &t, false);
    }
    let nchain = if args.thorough() { 6000 } else { 500 };
    let mut rng2 = Rng::new(args.seed ^ 0x19c);
    for _ in 0..nchain {
        let t = calgen::chain_program(&mut rng2);
        run_case(&mut run, &t, false);
    }
    run.finish(
        "same generators as C17: corpus (the pinned quil-rs source-map test program::tests::expand_calibrations, calibration::tests::expand_with_detail_recursive, DECLARE in first/middle position of nested expansions); exhaustive small scope (one calibration x bodies of length 1..2 over the instruction pools, incl. DECLARE and nested calls); seeded random programs with 1..5 calibrations (nested up to depth 3, parameterised, DECLAREs) and 1..5 body instructions. Multi-parameter exhaustive scope: calibrations U and V of arity 2 and 3 with every literal/variable pattern (distinct variable names, literal i+1 at position i), bodies using every variable in a frame instruction, an unmatched gate and a nested call passing the parameters in reverse order, applied to pairwise distinct arguments in matching and rotated order; the random stream also uses 0..3 parameters with mixed patterns. Chains: seeded chains of nested calibrations A -> B -> C -> MEASURE of depth 2..4 with leaf instructions around the nested calls and an optional DECLARE at a random level. Distinct by program text; non-trivial = the source map has at least one Rewritten entry.",
        true,
        serde_json::json!({"corpus": corpus, "exhaustive_cases": exhaustive_cases, "random_cases": nrand, "chain_cases": nchain, "mutant": mutant()}),
    );
}
