//! C05 — numeric literals are parsed to their exact value or rejected.
//!
//! LexC cases: a text; the real lexer's first token (kind, value / f64 bit pattern, bytes spanned)
//! observed through the hook `verif::lex_debug`; compared in Coq with `lex_number` of the model;
//! float values are judged by the exact-arithmetic checker `chk_nearest`.
//! PosC cases: a literal with an optional sign placed in an operand position of a real instruction
//! parsed with `Instruction::from_str`; the field's value (or the rejection) is the observation.
use quil_rs::expression::{Expression, PrefixOperator};
use quil_rs::instruction::{
    ArithmeticOperand, BinaryOperand, ComparisonOperand, GateSpecification, Instruction, PragmaArgument,
    Qubit, UnresolvedCallArgument,
};
use qv::{gallina as g, Args, Rng, Run};
use std::str::FromStr;

fn mutant() -> u32 {
    std::env::var("QV_MUTANT").ok().and_then(|s| s.parse().ok()).unwrap_or(0)
}

#[derive(Clone, Debug, PartialEq)]
enum Obs {
    Err,
    Int(i64),
    U64(u64),
    Real(u64),
    NegExpr(u64),
    Other(String),
}

impl Obs {
    fn coq(&self) -> String {
        match self {
            Obs::Err => "PErr".into(),
            Obs::Int(z) => format!("(PInt {})", g::z(*z)),
            Obs::U64(v) => format!("(PU64 {})", g::n(*v)),
            Obs::Real(b) => format!("(PReal {})", g::n(*b)),
            Obs::NegExpr(b) => format!("(PNegExpr {})", g::n(*b)),
            Obs::Other(_) => "POther".into(),
        }
    }
    fn class(&self) -> &'static str {
        match self {
            Obs::Err => "err",
            Obs::Int(_) => "int",
            Obs::U64(_) => "u64",
            Obs::Real(_) => "real",
            Obs::NegExpr(_) => "negexpr",
            Obs::Other(_) => "other",
        }
    }
}

/// (name, class, text before the literal, text after it)
const POSITIONS: &[(&str, u64, &str, &str)] = &[
    ("MOVE", 0, "MOVE ro ", ""),
    ("ADD", 0, "ADD ro ", ""),
    ("SUB", 0, "SUB ro ", ""),
    ("MUL", 0, "MUL ro ", ""),
    ("DIV", 0, "DIV ro ", ""),
    ("STORE", 0, "STORE m off[0] ", ""),
    ("EQ", 0, "EQ b ro ", ""),
    ("GT", 0, "GT b ro ", ""),
    ("GE", 0, "GE b ro ", ""),
    ("LT", 0, "LT b ro ", ""),
    ("LE", 0, "LE b ro ", ""),
    ("AND", 1, "AND ro ", ""),
    ("IOR", 1, "IOR ro ", ""),
    ("XOR", 1, "XOR ro ", ""),
    ("index", 2, "MOVE ro[", "] 1"),
    ("expr-index", 2, "RX(ro[", "]) 0"),
    ("LOAD-index", 2, "LOAD ro m off[", "]"),
    ("qubit", 2, "X ", ""),
    ("DECLARE-length", 2, "DECLARE ro BIT[", "]"),
    ("SHARING-offset", 2, "DECLARE ro BIT[1] SHARING o OFFSET ", " BIT"),
    ("PRAGMA-argument", 2, "PRAGMA P ", ""),
    ("permutation-entry", 2, "DEFGATE G AS PERMUTATION:\n\t0, ", ""),
    ("expression", 3, "RX(", ") 0"),
    ("SHIFT-PHASE", 3, "SHIFT-PHASE 0 \"f\" ", ""),
    ("DELAY", 3, "DELAY 0 ", ""),
    ("CALL", 4, "CALL f ", ""),
];
/// one representative position per class
const REPRESENTATIVES: &[usize] = &[0, 11, 14, 22, 25];

fn arith(o: &ArithmeticOperand) -> Obs {
    match o {
        ArithmeticOperand::LiteralInteger(i) => Obs::Int(*i),
        ArithmeticOperand::LiteralReal(r) => Obs::Real(r.to_bits()),
        ArithmeticOperand::MemoryReference(m) => Obs::Other(format!("memref {m:?}")),
    }
}

fn expr(e: &Expression) -> Obs {
    match e {
        Expression::Number(c) if c.im == 0.0 => Obs::Real(c.re.to_bits()),
        Expression::Prefix(p) if p.operator == PrefixOperator::Minus => match &*p.expression {
            Expression::Number(c) if c.im == 0.0 => Obs::NegExpr(c.re.to_bits()),
            other => Obs::Other(format!("{other:?}")),
        },
        other => Obs::Other(format!("{other:?}")),
    }
}

fn observe(pos: usize, text: &str) -> Result<Obs, String> {
    let name = POSITIONS[pos].0;
    let owned = text.to_string();
    let parsed = qv::catch(move || Instruction::from_str(&owned))?;
    let i = match parsed {
        Ok(i) => i,
        Err(_) => return Ok(Obs::Err),
    };
    let other = |i: &Instruction| Obs::Other(format!("{i:?}"));
    Ok(match (name, &i) {
        ("MOVE", Instruction::Move(m)) => arith(&m.source),
        ("ADD" | "SUB" | "MUL" | "DIV", Instruction::Arithmetic(a)) => arith(&a.source),
        ("STORE", Instruction::Store(s)) => arith(&s.source),
        ("EQ" | "GT" | "GE" | "LT" | "LE", Instruction::Comparison(c)) => match &c.rhs {
            ComparisonOperand::LiteralInteger(i) => Obs::Int(*i),
            ComparisonOperand::LiteralReal(r) => Obs::Real(r.to_bits()),
            ComparisonOperand::MemoryReference(m) => Obs::Other(format!("memref {m:?}")),
        },
        ("AND" | "IOR" | "XOR", Instruction::BinaryLogic(b)) => match &b.source {
            BinaryOperand::LiteralInteger(i) => Obs::Int(*i),
            BinaryOperand::MemoryReference(m) => Obs::Other(format!("memref {m:?}")),
        },
        ("index", Instruction::Move(m)) => Obs::U64(m.destination.index),
        ("expr-index", Instruction::Gate(gate)) => match gate.parameters.first() {
            Some(Expression::Address(m)) => Obs::U64(m.index),
            _ => other(&i),
        },
        ("LOAD-index", Instruction::Load(l)) => Obs::U64(l.offset.index),
        ("qubit", Instruction::Gate(gate)) => match gate.qubits.as_slice() {
            [Qubit::Fixed(q)] => Obs::U64(*q),
            _ => other(&i),
        },
        ("DECLARE-length", Instruction::Declaration(d)) => Obs::U64(d.size.length),
        ("SHARING-offset", Instruction::Declaration(d)) => match &d.sharing {
            Some(s) if s.offsets.len() == 1 => Obs::U64(s.offsets[0].offset),
            _ => other(&i),
        },
        ("PRAGMA-argument", Instruction::Pragma(p)) => match p.arguments.as_slice() {
            [PragmaArgument::Integer(v)] => Obs::U64(*v),
            _ => other(&i),
        },
        ("permutation-entry", Instruction::GateDefinition(d)) => match &d.specification {
            GateSpecification::Permutation(p) if p.len() == 2 && p[0] == 0 => Obs::U64(p[1]),
            _ => other(&i),
        },
        ("expression", Instruction::Gate(gate)) => match gate.parameters.as_slice() {
            [e] => expr(e),
            _ => other(&i),
        },
        ("SHIFT-PHASE", Instruction::ShiftPhase(s)) => expr(&s.phase),
        ("DELAY", Instruction::Delay(d)) => expr(&d.duration),
        ("CALL", Instruction::Call(c)) => match c.arguments.as_slice() {
            [UnresolvedCallArgument::Immediate(v)] if v.im == 0.0 => Obs::Real(v.re.to_bits()),
            _ => other(&i),
        },
        _ => other(&i),
    })
}

#[derive(Clone, Debug, PartialEq)]
enum LexObs {
    Int(u64, usize),
    Float(u64, usize),
    Err,
    Panic(String),
}

/// `lex_debug` with panics caught (lexical's debug assertions can fire): Err(None) = lex error,
/// Err(Some(msg)) = panic
fn lex_tokens(text: &str) -> Result<Vec<String>, Option<String>> {
    let owned = text.to_string();
    match qv::catch(move || quil_rs::verif::lex_debug(&owned)) {
        Ok(Ok(t)) => Ok(t),
        Ok(Err(_)) => Err(None),
        Err(p) => Err(Some(p)),
    }
}

/// The first token of `text` and the number of bytes it spans: the longest prefix that lexes to
/// exactly that one token.
fn lex_observe(full: &str) -> LexObs {
    // If the text fails to lex at a later token (the error message carries the column where the
    // failing token starts), the first token is observed on the part before that column.
    let mut text = full;
    let owned = full.to_string();
    match qv::catch(move || quil_rs::verif::lex_debug(&owned)) {
        Err(p) => return LexObs::Panic(p),
        Ok(Ok(_)) => {}
        Ok(Err(msg)) => {
            let col = msg
                .split("column ")
                .nth(1)
                .and_then(|r| r.split(|c: char| !c.is_ascii_digit()).next())
                .and_then(|d| d.parse::<usize>().ok())
                .unwrap_or(1);
            if col <= 1 || col - 1 > full.len() || !full.is_ascii() {
                return LexObs::Err;
            }
            text = &full[..col - 1];
        }
    }
    let t1 = match lex_tokens(text) {
        Ok(t) if !t.is_empty() => t[0].clone(),
        Ok(_) => return LexObs::Err,
        Err(None) => return LexObs::Err,
        Err(Some(p)) => return LexObs::Panic(p),
    };
    let mut k = 0;
    for n in 1..=text.len() {
        if !text.is_char_boundary(n) {
            continue;
        }
        if let Ok(tokens) = lex_tokens(&text[..n]) {
            if tokens.len() == 1 && tokens[0] == t1 {
                k = n;
            }
        }
    }
    if let Some(v) = t1.strip_prefix("INTEGER(").and_then(|s| s.strip_suffix(')')) {
        LexObs::Int(v.parse().expect("u64 in token"), k)
    } else if let Some(v) = t1.strip_prefix("FLOAT(").and_then(|s| s.strip_suffix(')')) {
        // Display of f64 is the shortest digit string that parses back to the same f64
        LexObs::Float(v.parse::<f64>().expect("f64 in token").to_bits(), k)
    } else {
        // not a number token at all (never happens for texts starting with a digit or a dot)
        LexObs::Err
    }
}

/// literals in the known class: a base prefix followed by separators only
fn prefix_without_digits(text: &str) -> bool {
    let b = text.as_bytes();
    if b.len() < 3 || b[0] != b'0' {
        return false;
    }
    let radix = match b[1] | 0x20 {
        b'b' => 2,
        b'o' => 8,
        b'x' => 16,
        _ => return false,
    };
    let mut seps = 0;
    for &c in &b[2..] {
        if c == b'_' {
            seps += 1;
        } else if (c as char).to_digit(radix).is_some() {
            return false;
        } else {
            break;
        }
    }
    seps > 0
}

/// no known class is open for this property (both findings of the first run were fixed:
/// base prefix without digits, lexical's debug assertion after `._`)
fn known_panic(_text: &str, _message: &str) -> Option<&'static str> {
    None
}

fn lex_case(run: &mut Run, text: &str, family: &str) {
    let mut obs = lex_observe(text);
    if mutant() == 3 {
        // a lexer that stops at the first digit separator
        if let Some(p) = text.find('_') {
            if let LexObs::Int(_, k) = obs {
                if p < k && !text[..p].is_empty() && text[..p].bytes().all(|c| c.is_ascii_digit()) {
                    obs = LexObs::Int(text[..p].parse().unwrap_or(0), p);
                }
            }
        }
    }
    if let LexObs::Panic(p) = &obs {
        run.process_failure(&format!("panic while lexing: {p}"), text, known_panic(text, p));
        run.count(&format!("lex:{family}:panic"));
        return;
    }
    let o = match &obs {
        LexObs::Int(v, k) => format!("(LInt {} {})", g::n(*v), g::n(*k as u64)),
        LexObs::Float(b, k) => format!("(LFloat {} {})", g::n(*b), g::n(*k as u64)),
        LexObs::Err | LexObs::Panic(_) => "LErr".into(),
    };
    run.count(&format!(
        "lex:{family}:{}",
        match obs {
            LexObs::Int(..) => "int",
            LexObs::Float(..) => "float",
            LexObs::Err | LexObs::Panic(_) => "err",
        }
    ));
    let known = None;
    if prefix_without_digits(text) {
        run.count("lex:regression:prefix-without-digits");
    }
    let nontrivial = obs != LexObs::Err && text.len() > 1;
    run.case(format!("LexC {} {o}", g::bytes(text.as_bytes())), &format!("lex {text:?}"), nontrivial, known);
}

fn pos_case(run: &mut Run, pos: usize, sign: u64, lit: &str) {
    let (name, class, pre, post) = POSITIONS[pos];
    let s = ["", "-", "+"][sign as usize];
    let text = format!("{pre}{s}{lit}{post}");
    let mut obs = match observe(pos, &text) {
        Ok(o) => o,
        Err(panic) => {
            run.process_failure(&format!("panic while parsing: {panic}"), &text, known_panic(&text, &panic));
            run.count(&format!("pos:{name}:panic"));
            return;
        }
    };
    match mutant() {
        1 => {
            // the signed conversion wrapping instead of rejecting (`v as i64`)
            if class <= 1 && obs == Obs::Err {
                if let Some(LexObs::Int(v, k)) = Some(lex_observe(lit)) {
                    if k == lit.len() && sign < 2 {
                        let w = v as i64;
                        obs = Obs::Int(if sign == 1 { w.wrapping_neg() } else { w });
                    }
                }
            }
        }
        2 => {
            // the range check off by one at the negative boundary
            if obs == Obs::Int(i64::MIN) {
                obs = Obs::Err;
            }
        }
        4 => {
            // a real literal with an integral value turned into an integer operand
            if let Obs::Real(b) = obs {
                let f = f64::from_bits(b);
                if class == 0 && f.fract() == 0.0 && f.abs() < 1e15 {
                    obs = Obs::Int(f as i64);
                }
            }
        }
        _ => {}
    }
    run.count(&format!("pos:{name}:{}", obs.class()));
    if let Obs::Other(what) = &obs {
        run.note(&format!("unexpected shape for {text:?}: {what}"));
    }
    let known = None;
    let coq = format!("PosC {} {} {} {}", g::n(class), g::n(sign), g::bytes(lit.as_bytes()), obs.coq());
    run.case(coq, &format!("{text:?}"), obs != Obs::Err, known);
}

fn dec(v: u128) -> String {
    v.to_string()
}

fn with_seps(digits: &str, every: usize, sep: &str) -> String {
    let mut out = String::new();
    let n = digits.len();
    for (i, c) in digits.chars().enumerate() {
        out.push(c);
        let left = n - 1 - i;
        if left > 0 && left % every == 0 {
            out.push_str(sep);
        }
    }
    out
}

/// every integer spelling family of one value
fn int_spellings(v: u128) -> Vec<(String, &'static str)> {
    let d = dec(v);
    let mut out = vec![
        (d.clone(), "dec"),
        (format!("000{d}"), "dec-leading-zeros"),
        (with_seps(&d, 3, "_"), "dec-sep"),
        (format!("{}__", with_seps(&d, 2, "__")), "dec-sep-consecutive-trailing"),
        (format!("0x{v:x}"), "hex"),
        (format!("0X{v:X}"), "hex-upper"),
        (format!("0x__{}_", with_seps(&format!("{v:x}"), 4, "_")), "hex-sep"),
        (format!("0x000{v:X}"), "hex-leading-zeros"),
        (format!("0o{v:o}"), "oct"),
        (format!("0O0{}", with_seps(&format!("{v:o}"), 3, "_")), "oct-sep"),
        (format!("0b{v:b}"), "bin"),
        (format!("0B_{}", with_seps(&format!("{v:b}"), 8, "_")), "bin-sep"),
    ];
    out.dedup();
    out
}

/// float spellings of an integer-valued digit string
fn float_spellings(v: u128) -> Vec<(String, &'static str)> {
    let d = dec(v);
    let n = d.len();
    let mut out = vec![
        (format!("{d}."), "float-trailing-dot"),
        (format!("{d}.0"), "float-dot-zero"),
        (format!("{d}e0"), "float-e0"),
        (format!("{d}E+0"), "float-E+0"),
        (format!("{d}.000e-0"), "float-dot-e-0"),
        (format!("{d}.5"), "float-dot-five"),
        (format!("{}.{}e{}", &d[..1], &d[1..], n - 1), "float-scientific"),
        (format!(".{d}e{n}"), "float-leading-dot"),
        (format!("0.{d}E{n}"), "float-zero-dot"),
        (format!("{d}000e-3"), "float-neg-exp"),
        (format!("{}_.{}_e+_{}_", with_seps(&d[..1], 1, "_"), with_seps(&d[1..], 3, "_"), n - 1), "float-sep"),
    ];
    out.dedup();
    out
}

fn boundary_values() -> Vec<u128> {
    let p = |k: u32| 1u128 << k;
    vec![
        0, 1, 7, 10, 255, p(31) - 1, p(31), p(32) - 1, p(32), p(53) - 1, p(53), p(53) + 1, p(63) - 1, p(63),
        p(63) + 1, p(64) - 1, p(64), p(64) + 1, 10u128.pow(19), 10u128.pow(20), p(65), p(100),
    ]
}

const SPECIAL_FLOATS: &[&str] = &[
    "0.1", "0.3", "1e23", "8.5e-1", "3.14159", "2.718281828459045235360287471352662497757",
    "1.7976931348623157e308", "1.797693134862315807e308", "1.797693134862315808e308", "1.8e308", "1e308",
    "1e309", "1e400", "1e-400", "5e-324", "4.9e-324", "2.4703282292062327e-324", "2.4703282292062328e-324",
    "2.2250738585072014e-308", "2.2250738585072011e-308", "2.225073858507201e-308",
    "9007199254740993.0", "9007199254740993.000000000000000000000001", "9007199254740992.9999999999999999",
    "9007199254740995.0", "0.000000000000000000000000000000000000000000001e45", "123456789012345678.9e-5",
    "1e22", "1e-22", "0e0", "0.0", ".0", "0.", "00.00e00", "1e+0_0_3", "1_0.0_1e-0_2", "4.35", "0.7", "1.1e1",
    "17976931348623157e292", "17976931348623158e292", "0.000001e314", "1e99999999999999999999",
    "1e-99999999999999999999", "0e99999999999999999999", "1.0e1_000_000", "6.02214076e23", "6.62607015E-34",
];

const MALFORMED: &[&str] = &[
    "1e", "1e+", "1e-", ".", "._5", "1._5", "1._5e", "1._e", "._", ".e3", "0x", "0b", "0o", "0b2", "0o8", "0xg",
    "0x_", "0b_", "0o__", "0X_", "1__", "1e_5", "1e_+5", "1e+_5", "1e5_", "5.e", "0b.", "0x.1", "1.e5", "1_.5",
    "0_", "1_e3", "1.5e3_",
    // regression witnesses of the two fixed findings
    "0b__", "0O_", "0x_g", "0b_2", "1._1234567890123456789", "1234567890._1234567890", "1._5e3", "12._", "1_._5",
    "481_6._109763739_0988465E132",
];

fn random_literal(rng: &mut Rng) -> String {
    let digits = |rng: &mut Rng, n: usize, radix: u32| -> String {
        (0..n)
            .map(|_| {
                if rng.chance(1, 9) {
                    '_'
                } else {
                    std::char::from_digit(rng.below(radix as usize) as u32, radix).unwrap()
                }
            })
            .collect()
    };
    let kind = rng.below(6);
    let n = rng.range(0, 20);
    match kind {
        0 => format!("0x{}", digits(rng, 1 + n % 18, 16)),
        1 => format!("0b{}", digits(rng, 1 + (n * 7) % 66, 2)),
        2 => format!("0o{}", digits(rng, 1 + n, 8)),
        3 => format!("{}{}", 1 + n % 9, digits(rng, n, 10)),
        _ => {
            let mut s = format!("{}{}", n % 10, digits(rng, n, 10));
            if rng.chance(2, 3) {
                s.push('.');
                let n2 = rng.range(0, 20);
                s.push_str(&digits(rng, n2, 10));
            }
            if rng.chance(1, 2) {
                s.push(*rng.pick(&['e', 'E']));
                s.push_str(*rng.pick(&["", "+", "-"]));
                s.push_str(&format!("{}", rng.below(330)));
            }
            s
        }
    }
}

fn single_token_or_error(lit: &str) -> bool {
    match lex_tokens(lit) {
        Ok(t) => t.len() == 1,
        Err(_) => true,
    }
}

fn main() {
    if std::env::var("QV_PROBE").is_ok() {
        // debugging aid: lex every line of stdin with the harness build (debug assertions on)
        for line in std::io::stdin().lines() {
            let l = line.unwrap();
            println!("{l:40} => {:?}", lex_tokens(&l));
        }
        return;
    }
    let args = Args::parse();
    let header = "From Coq Require Import List NArith ZArith.\nFrom QV Require Import Model.LexNum.\nImport ListNotations.\nOpen Scope N_scope.";
    let mut run = Run::new(&args.out, header, "case", "failing", 1000);
    let thorough = args.thorough();

    // literal pool
    let mut key: Vec<String> = Vec::new(); // full cross product with positions and signs
    let mut pool: Vec<(String, String)> = Vec::new(); // (literal, family)
    for v in boundary_values() {
        for (s, fam) in int_spellings(v) {
            if fam == "dec" || fam == "hex" {
                key.push(s.clone());
            }
            pool.push((s, fam.to_string()));
        }
        for (s, fam) in float_spellings(v) {
            if fam == "float-dot-zero" && (v < 1000 || v >= (1u128 << 63) - 1) {
                key.push(s.clone());
            }
            pool.push((s, fam.to_string()));
        }
    }
    for s in SPECIAL_FLOATS {
        pool.push((s.to_string(), "special-float".into()));
    }
    for s in ["0.1", "1e23", "1.7976931348623157e308", "1e309", "5e-324", "9007199254740993.0"] {
        key.push(s.to_string());
    }
    for s in MALFORMED {
        pool.push((s.to_string(), "malformed".into()));
    }
    for s in ["0x_", "1e", "1_", "._5"] {
        key.push(s.to_string());
    }
    let mut rng = Rng::new(args.seed);
    let nrand = if thorough { 4000 } else { 600 };
    for _ in 0..nrand {
        pool.push((random_literal(&mut rng), "random".into()));
    }

    // (1) lexer cases: the pool, and every short text over a number alphabet
    for (s, fam) in &pool {
        lex_case(&mut run, s, fam);
    }
    let alphabet: &[&str] = &["0", "1", "9", "_", ".", "e", "+", "-", "x", "b", "f"];
    let maxlen = if thorough { 5 } else { 4 };
    let mut texts: Vec<String> = vec![];
    fn go(cur: &mut String, left: usize, alphabet: &[&str], out: &mut Vec<String>) {
        out.push(cur.clone());
        if left == 0 {
            return;
        }
        for a in alphabet {
            let n = cur.len();
            cur.push_str(a);
            go(cur, left - 1, alphabet, out);
            cur.truncate(n);
        }
    }
    for first in ["0", "1", "9", "."] {
        go(&mut first.to_string(), maxlen - 1, alphabet, &mut texts);
    }
    let exhaustive_texts = texts.len();
    for t in &texts {
        lex_case(&mut run, t, "exhaustive");
    }

    // (2) position cases
    let mut npos = 0u64;
    for lit in &key {
        if !single_token_or_error(lit) {
            continue;
        }
        for pos in 0..POSITIONS.len() {
            for sign in 0..3 {
                pos_case(&mut run, pos, sign, lit);
                npos += 1;
            }
        }
    }
    for (lit, _) in &pool {
        if !single_token_or_error(lit) {
            run.count("pos:skipped-multi-token-literal");
            continue;
        }
        for &pos in REPRESENTATIVES {
            for sign in 0..3 {
                pos_case(&mut run, pos, sign, lit);
                npos += 1;
            }
        }
    }
    run.finish(
        "LexC: the first token the real lexer produces for every literal of the pool (22 boundary values in 12 \
         integer and 11 float spelling families, special floats near rounding / overflow / underflow boundaries, \
         malformed literals, seeded random literals) and for every text of the stated length over \
         {0,1,9,_,.,e,+,-,x,b,f} starting with a digit or a dot; PosC: key literals x 26 operand positions x signs \
         {none,-,+} and every pool literal x 5 representative positions x 3 signs. Distinct by the text; \
         non-trivial = the implementation accepted the literal.",
        true,
        serde_json::json!({"exhaustive_max_len": maxlen, "exhaustive_texts": exhaustive_texts, "pool": pool.len(),
            "key_literals": key.len(), "position_cases": npos, "positions": POSITIONS.len(), "mutant": mutant()}),
    );
}
