//! C14 — standard gate unitaries match the Quil specification.
//!
//! Every standard gate x 16 values of theta x EVERY injective placement into n <= 5 qubits: the
//! real `Gate::to_unitary` (and `Program::to_unitary` on the printed gate) is evaluated; the
//! implementation's base matrix (canonical placement k-1 .. 0 in a k-qubit space) is compared
//! numerically (1e-12) with the harness's own symbolic statement of the Quil specification, whose
//! text is also printed into the case and compared syntactically in Coq with `spec_table`; for
//! constant gates the base matrix is additionally printed as recognised constants.  The lifted
//! matrix is printed as sparse rows of value classes (classes = distinct values of the spec matrix
//! at theta) and its index structure is decided exactly in Coq.
#[path = "../unitary.rs"]
mod unitary;

use qv::{Args, Run};
use std::str::FromStr;
use unitary::*;

fn observe(name: &str, theta: Option<f64>, qs: &[u64], n: u64) -> Result<Mat, String> {
    let params: Vec<f64> = theta.into_iter().collect();
    let mut g = make_gate(name, &params, qs, vec![]);
    let m = qv::catch(std::panic::AssertUnwindSafe(|| g.to_unitary(n)))
        .map_err(|p| format!("panic: {p}"))?
        .map_err(|e| format!("error: {e}"))?;
    Ok(to_mat(&m))
}

fn observe_program(name: &str, theta: Option<f64>, qs: &[u64], n: u64) -> Result<Mat, String> {
    let text = quil_text(name, theta, qs);
    let p = quil_rs::Program::from_str(&text).map_err(|e| format!("parse error: {e}"))?;
    let m = qv::catch(std::panic::AssertUnwindSafe(|| p.to_unitary(n)))
        .map_err(|p| format!("panic: {p}"))?
        .map_err(|e| format!("error: {e}"))?;
    Ok(to_mat(&m))
}

fn quil_text(name: &str, theta: Option<f64>, qs: &[u64]) -> String {
    let q = qs.iter().map(|q| q.to_string()).collect::<Vec<_>>().join(" ");
    match theta {
        Some(t) => format!("{name}({t:?}) {q}"),
        None => format!("{name} {q}"),
    }
}

/// Emulated implementation bugs (QV_MUTANT): what is observed instead of (name, theta, qs).
fn mutate(mutant: u32, name: &str, theta: Option<f64>, qs: &[u64], m: Mat) -> Mat {
    match mutant {
        // PSWAP off-diagonal `cos(theta) + theta` (the original defect)
        2 if name == "PSWAP" => {
            let t = theta.unwrap();
            let want = C::cis(t);
            let bad = C::new(t.cos() + t, 0.0);
            m.into_iter()
                .map(|r| r.into_iter().map(|v| if (v - want).norm() < 1e-12 && (v - C::new(1.0, 0.0)).norm() > 1e-12 { bad } else { v }).collect())
                .collect()
        }
        _ => {
            let _ = qs;
            m
        }
    }
}

fn main() {
    let args = Args::parse();
    let header = "From Coq Require Import List NArith.\nFrom QV Require Import Model.Unitary.\nImport ListNotations.\nOpen Scope N_scope.";
    let mut run = Run::new(&args.out, header, "case14", "failing14", 150);
    let mutant: u32 = std::env::var("QV_MUTANT").ok().and_then(|s| s.parse().ok()).unwrap_or(0);
    let nmax: u64 = 5;
    let mut placements_total = 0u64;

    for gi in GATES.iter() {
        let sym = spec_table(gi.name);
        let thetas: Vec<Option<f64>> = if gi.param { THETAS.iter().map(|t| Some(*t)).collect() } else { vec![None] };
        for theta in thetas {
            let t = theta.unwrap_or(0.0);
            let spec = eval_table(&sym, t);
            // value classes of the spec matrix at theta
            let mut classes: Vec<C> = Vec::new();
            let mut bcls: Vec<Vec<usize>> = Vec::new();
            for row in &spec {
                let mut crow = Vec::new();
                for v in row {
                    if v.norm() < 1e-12 {
                        crow.push(0);
                    } else if let Some(i) = classes.iter().position(|c| (c - v).norm() < 1e-9) {
                        crow.push(i + 1);
                    } else {
                        classes.push(*v);
                        crow.push(classes.len());
                    }
                }
                bcls.push(crow);
            }
            let bcls_coq = format!(
                "[{}]",
                bcls.iter().map(|r| format!("[{}]", r.iter().map(|k| k.to_string()).collect::<Vec<_>>().join("; "))).collect::<Vec<_>>().join("; ")
            );

            // emulated bugs that observe a different gate
            let obs_name = match (mutant, gi.name) {
                (1, "RZ") => "RY",               // RZ entry is a copy of RY (the original defect)
                (4, "CPHASE01") => "CPHASE10",   // two table entries swapped
                (4, "CPHASE10") => "CPHASE01",
                _ => gi.name,
            };

            // the implementation's base matrix: canonical placement k-1 .. 0 in a k-qubit space
            let canon: Vec<u64> = (0..gi.arity as u64).rev().collect();
            let base = observe(obs_name, theta, &canon, gi.arity as u64).map(|m| mutate(mutant, gi.name, theta, &canon, m));
            let (base_ok, base_sym) = match &base {
                Ok(b) => {
                    let ok = max_diff(b, &spec) <= 1e-12;
                    let sym_txt = if gi.param {
                        "None".to_string()
                    } else {
                        let rec: Vec<Vec<Entry>> = b.iter().map(|r| r.iter().map(|v| recognise(*v)).collect()).collect();
                        format!("(Some {})", table_coq(&rec))
                    };
                    (ok, sym_txt)
                }
                Err(e) => {
                    run.process_failure(&format!("to_unitary failed on the canonical placement: {e}"), &quil_text(gi.name, theta, &canon), None);
                    continue;
                }
            };

            for n in gi.arity as u64..=nmax {
                for qs in placements(gi.arity, n) {
                    placements_total += 1;
                    let desc = format!("{} on {n} qubits", quil_text(gi.name, theta, &qs));
                    // emulated bug 3: first listed qubit treated as least significant
                    let obs_qs: Vec<u64> = if mutant == 3 { qs.iter().rev().copied().collect() } else { qs.clone() };
                    let lifted = match observe(obs_name, theta, &obs_qs, n) {
                        Ok(m) => mutate(mutant, gi.name, theta, &qs, m),
                        Err(e) => {
                            run.process_failure(&format!("Gate::to_unitary failed: {e}"), &desc, None);
                            continue;
                        }
                    };
                    // Program::to_unitary on the printed gate must give the same matrix
                    let via_program = match observe_program(obs_name, theta, &obs_qs, n) {
                        Ok(m) => max_diff(&mutate(mutant, gi.name, theta, &qs, m), &lifted) <= 1e-15,
                        Err(e) => {
                            run.process_failure(&format!("Program::to_unitary failed: {e}"), &desc, None);
                            false
                        }
                    };
                    let dim = 1usize << n;
                    let well_shaped = lifted.len() == dim && lifted.iter().all(|r| r.len() == dim);
                    let mut rows = Vec::new();
                    if well_shaped {
                        for r in 0..dim {
                            let mut row = Vec::new();
                            for c in 0..dim {
                                let v = lifted[r][c];
                                if v.norm() < 1e-12 {
                                    continue;
                                }
                                let k = classes.iter().position(|x| (x - v).norm() < 1e-9).map(|i| i + 1).unwrap_or(99);
                                row.push(format!("({c}, {k})"));
                            }
                            rows.push(format!("[{}]", row.join("; ")));
                        }
                    }
                    let coq = format!(
                        "(Case14 {} [{}] {n} {} {} {} {} [{}])",
                        gi.coq,
                        qs.iter().map(|q| q.to_string()).collect::<Vec<_>>().join("; "),
                        table_coq(&sym),
                        base_sym,
                        base_ok && via_program && well_shaped,
                        bcls_coq,
                        rows.join("; ")
                    );
                    run.count(&format!("gate={}", gi.name));
                    run.count(&format!("n={n}"));
                    let adjacent_desc = qs.windows(2).all(|w| w[0] == w[1] + 1);
                    if gi.arity > 1 {
                        run.count(if adjacent_desc { "placement=adjacent-descending" } else { "placement=needs-permutation" });
                    }
                    run.case(coq, &desc, gi.arity > 1 || n > 1, None);
                }
            }
        }
    }
    run.finish(
        "exhaustive: every standard gate (22) x 16 values of theta for the parameterised ones (0, +-pi, +-pi/2, pi/4, 2pi, 3pi, 7.5, -7, 0.1, 1, -2.5, 1e-3, pi/3, 5pi/4) \
         x every injective placement of its qubits into n qubits, arity <= n <= 5. Distinct by gate text and n; non-trivial = the lifted space is larger than the gate or the gate has several qubits.",
        true,
        serde_json::json!({"placements": placements_total, "mutant": mutant, "nmax": nmax}),
    );
}
