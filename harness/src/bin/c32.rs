//! C32 — built-in waveforms sample to the right length and respond linearly.
//!
//! For every generated (kind, parameters, common parameters, rate, mask) the REAL implementation is
//! sampled three times: the concrete API (`iq_values_at_sample_rate`), the partial API with every
//! parameter present, and the partial API with the masked parameters missing.  The observed shapes
//! (error class / placeholder-or-samples / flat-or-vector / count) go into the Coq case, durations,
//! pads, rates and parameters as EXACT rationals (every f64 is a dyadic rational).  Linearity in the
//! scale, the phase rotation, zero scale and "all-known partial = concrete" are checked numerically
//! here (tolerance 1e-9) and passed as booleans so that the verdict stays in the Coq case.
use num_complex::Complex64;
use quil_rs::units::Cycles;
use quil_rs::waveform::builtin::{
    BoxcarKernel, BuiltinWaveform, BuiltinWaveformParameters, CommonBuiltinParameters, DragGaussian,
    ErfSquare, Flat, Gaussian, HermiteGaussian, IqSamplesOrPlaceholder, PartialBuiltinWaveformParameters,
    RaisedCosine,
};
use quil_rs::waveform::sampling::{IqSamples, SamplingError};
use quil_rs::waveform::{Concrete, Partial};
use qv::{Args, Rng, Run};

type PC = Partial<Concrete>;

#[derive(Clone, Copy, Debug, PartialEq)]
enum Kind {
    Flat,
    Gaussian,
    Drag,
    Erf,
    Hermite,
    Raised,
    Boxcar,
}
const KINDS: [Kind; 7] = [
    Kind::Flat,
    Kind::Gaussian,
    Kind::Drag,
    Kind::Erf,
    Kind::Hermite,
    Kind::Raised,
    Kind::Boxcar,
];

/// A concrete waveform: kind, its real parameters (in declaration order), iq (Flat), pads.
#[derive(Clone, Debug)]
struct Wf {
    kind: Kind,
    ps: Vec<f64>,
    iq: Complex64,
    pad_l: f64,
    pad_r: f64,
}

#[derive(Clone, Copy, Debug)]
struct Common {
    duration: f64,
    scale: Option<f64>,
    phase: Option<f64>,
    detuning: Option<f64>,
}

/// Which parameters are forgotten in the masked partial waveform.
#[derive(Clone, Debug, Default)]
struct Mask {
    scale: bool,
    phase: bool,
    detuning: bool,
    ps: Vec<bool>,
    iq: bool,
}

fn n_params(k: Kind) -> usize {
    match k {
        Kind::Flat | Kind::Boxcar => 0,
        Kind::Gaussian => 2,
        Kind::Drag => 4,
        Kind::Erf => 1,
        Kind::Hermite => 5,
        Kind::Raised => 1,
    }
}

fn concrete_wf(w: &Wf) -> BuiltinWaveform<Concrete> {
    let p = &w.ps;
    match w.kind {
        Kind::Flat => Flat::<Concrete> { iq: w.iq }.into(),
        Kind::Gaussian => Gaussian::<Concrete> { fwhm: p[0], t0: p[1] }.into(),
        Kind::Drag => DragGaussian::<Concrete> { fwhm: p[0], t0: p[1], anh: p[2], alpha: p[3] }.into(),
        Kind::Erf => ErfSquare::<Concrete> { risetime: p[0], pad_left: w.pad_l, pad_right: w.pad_r }.into(),
        Kind::Hermite => HermiteGaussian::<Concrete> {
            fwhm: p[0],
            t0: p[1],
            anh: p[2],
            alpha: p[3],
            second_order_hrm_coeff: p[4],
        }
        .into(),
        Kind::Raised => RaisedCosine::<Concrete> { rolloff: p[0], pad_left: w.pad_l, pad_right: w.pad_r }.into(),
        Kind::Boxcar => BoxcarKernel.into(),
    }
}

fn partial_wf(w: &Wf, m: &Mask) -> BuiltinWaveform<PC> {
    let p: Vec<Option<f64>> = w
        .ps
        .iter()
        .enumerate()
        .map(|(i, x)| if m.ps.get(i).copied().unwrap_or(false) { None } else { Some(*x) })
        .collect();
    match w.kind {
        Kind::Flat => Flat::<PC> { iq: if m.iq { None } else { Some(w.iq) } }.into(),
        Kind::Gaussian => Gaussian::<PC> { fwhm: p[0], t0: p[1] }.into(),
        Kind::Drag => DragGaussian::<PC> { fwhm: p[0], t0: p[1], anh: p[2], alpha: p[3] }.into(),
        Kind::Erf => ErfSquare::<PC> { risetime: p[0], pad_left: w.pad_l, pad_right: w.pad_r }.into(),
        Kind::Hermite => HermiteGaussian::<PC> {
            fwhm: p[0],
            t0: p[1],
            anh: p[2],
            alpha: p[3],
            second_order_hrm_coeff: p[4],
        }
        .into(),
        Kind::Raised => RaisedCosine::<PC> { rolloff: p[0], pad_left: w.pad_l, pad_right: w.pad_r }.into(),
        Kind::Boxcar => BoxcarKernel.into(),
    }
}

fn concrete_common(c: &Common) -> CommonBuiltinParameters<Concrete> {
    CommonBuiltinParameters { duration: c.duration, scale: c.scale, phase: c.phase.map(Cycles), detuning: c.detuning }
}
fn partial_common(c: &Common, m: &Mask) -> CommonBuiltinParameters<PC> {
    let f = |x: Option<f64>, hide: bool| x.map(|v| if hide { None } else { Some(v) });
    CommonBuiltinParameters {
        duration: c.duration,
        scale: f(c.scale, m.scale),
        phase: f(c.phase, m.phase).map(Cycles),
        detuning: f(c.detuning, m.detuning),
    }
}

// ---------------------------------------------------------------------------------------------
// exact rationals

/// A finite f64 as (negative, numerator, denominator = 2^k) in lowest dyadic terms.
fn dyadic(x: f64) -> Option<(bool, u128, u32)> {
    if !x.is_finite() {
        return None;
    }
    if x == 0.0 {
        return Some((false, 0, 0));
    }
    let bits = x.to_bits();
    let neg = bits >> 63 == 1;
    let e = ((bits >> 52) & 0x7ff) as i64;
    let frac = bits & ((1u64 << 52) - 1);
    let (mut m, mut exp) = if e == 0 { (frac as u128, -1074i64) } else { ((frac | (1u64 << 52)) as u128, e - 1075) };
    while m % 2 == 0 && exp < 0 {
        m /= 2;
        exp += 1;
    }
    if exp >= 0 {
        if exp > 60 {
            return None;
        }
        Some((neg, m << exp, 0))
    } else {
        if -exp > 120 {
            return None;
        }
        Some((neg, m, (-exp) as u32))
    }
}

fn q(x: f64) -> String {
    if let Some((neg, m, k)) = dyadic(x) {
        let den: u128 = 1u128 << k;
        return if neg { format!("((-{m}) # {den})%Q") } else { format!("({m} # {den})%Q") };
    }
    // very large or very small magnitudes: m * 2^e with the power left to Coq
    assert!(x.is_finite(), "representable parameter");
    let bits = x.to_bits();
    let neg = bits >> 63 == 1;
    let e = ((bits >> 52) & 0x7ff) as i64;
    let frac = bits & ((1u64 << 52) - 1);
    let (m, exp) = if e == 0 { (frac, -1074i64) } else { (frac | (1u64 << 52), e - 1075) };
    let num = if neg { format!("(-{m})") } else { format!("{m}") };
    if exp >= 0 {
        format!("(Qmake (Z.mul {num} (Z.pow 2 {exp})) 1)")
    } else {
        format!("(Qmake {num} (Pos.pow 2 {}))", -exp)
    }
}

/// Is `a * r` computed exactly in f64 (r a non-negative integer-valued or dyadic rate)?
fn product_exact(a: f64, r: f64) -> bool {
    let (Some((_, ma, _)), Some((_, mr, _))) = (dyadic(a), dyadic(r)) else { return false };
    ma.checked_mul(mr).map_or(false, |p| p < (1u128 << 53))
}

/// Decide whether the f64 computation of the sample count provably agrees with the exact one
/// (keeps the generated durations away from the rounding and misalignment thresholds).
/// Returns None when the case must be skipped.
fn count_is_safe(d: f64, r: f64) -> Option<()> {
    // (since /repo b8fb6ef) misaligned <=> |(f - n) / r| >= 1 / (100 r): for r > 0 the threshold is
    // |f - n| = 0.01 samples; for r < 0 the bound is negative (always misaligned); r = 0 gives NaN
    if product_exact(d, r) {
        // the product, the rounding and the subtraction are exact; the quotient and the tolerance
        // are rounded: stay away from the threshold unless the misalignment is exactly 0
        let f = d * r;
        let mis = (f - f.round()).abs();
        if r <= 0.0 || mis == 0.0 {
            return Some(());
        }
        if (mis - 0.01).abs() > 1e-9 {
            return Some(());
        }
        return None;
    }
    // inexact product: only positive rates and durations, with a wide margin
    if !(r > 0.0 && d > 0.0) {
        return None;
    }
    let f = d * r;
    if !(f < 4.0e9) {
        return None;
    }
    let n = f.round();
    let mis = (f - n).abs();
    let err = f * 4.0 * f64::EPSILON + f64::MIN_POSITIVE;
    if mis + err < 0.25 && (mis + err < 0.01 * 0.999 || mis - err > 0.01 * 1.001) {
        Some(())
    } else {
        None
    }
}

// ---------------------------------------------------------------------------------------------
// observation

#[derive(Clone, Debug, PartialEq)]
enum Shape {
    ErrRange,
    ErrMisaligned,
    Placeholder(bool, u64), // flat?, count
    Samples(bool, u64),
}

fn shape_str(s: &Shape) -> String {
    match s {
        Shape::ErrRange => "(OErr ErrRange)".into(),
        Shape::ErrMisaligned => "(OErr ErrMisaligned)".into(),
        Shape::Placeholder(f, n) => format!("(OPlaceholder {} {n}%N)", if *f { "SFlat" } else { "SSamples" }),
        Shape::Samples(f, n) => format!("(OSamples {} {n}%N)", if *f { "SFlat" } else { "SSamples" }),
    }
}

fn err_shape(e: &SamplingError) -> Shape {
    match e {
        SamplingError::SampleCountOutOfRange { .. } => Shape::ErrRange,
        SamplingError::MisalignedDuration { .. } => Shape::ErrMisaligned,
    }
}
fn iq_shape<T>(s: &IqSamples<T>) -> (bool, u64) {
    match s {
        IqSamples::Flat { sample_count, .. } => (true, *sample_count as u64),
        IqSamples::Samples(v) => (false, v.len() as u64),
    }
}
fn conc_shape(r: &Result<IqSamples<Complex64>, SamplingError>) -> Shape {
    match r {
        Err(e) => err_shape(e),
        Ok(s) => {
            let (f, n) = iq_shape(s);
            // sample_count() must agree with the representation
            assert_eq!(s.sample_count() as u64, n);
            Shape::Samples(f, n)
        }
    }
}
fn part_shape(r: &Result<IqSamplesOrPlaceholder, SamplingError>) -> Shape {
    match r {
        Err(e) => err_shape(e),
        Ok(IqSamplesOrPlaceholder::Placeholder(s)) => {
            let (f, n) = iq_shape(s);
            Shape::Placeholder(f, n)
        }
        Ok(IqSamplesOrPlaceholder::Samples(s)) => {
            let (f, n) = iq_shape(s);
            Shape::Samples(f, n)
        }
    }
}

fn sample_c(w: &Wf, c: &Common, rate: f64) -> Result<IqSamples<Complex64>, SamplingError> {
    concrete_wf(w).iq_values_at_sample_rate(concrete_common(c), rate)
}
fn sample_p(w: &Wf, c: &Common, m: &Mask, rate: f64) -> Result<IqSamplesOrPlaceholder, SamplingError> {
    partial_wf(w, m).partial_iq_values_at_sample_rate(partial_common(c, m), rate)
}

fn close(a: Complex64, b: Complex64) -> bool {
    if a.re.is_nan() || a.im.is_nan() {
        return b.re.is_nan() || b.im.is_nan();
    }
    (a - b).norm() <= 1e-9 * (1.0 + a.norm().max(b.norm()))
}
fn all_close(a: &[Complex64], b: &[Complex64]) -> bool {
    a.len() == b.len() && a.iter().zip(b).all(|(x, y)| close(*x, *y))
}

const MAX_NUMERIC: u64 = 8192;

fn values(r: Result<IqSamples<Complex64>, SamplingError>) -> Option<Vec<Complex64>> {
    match r {
        Ok(s) if (s.sample_count() as u64) <= MAX_NUMERIC => Some(s.into_iq_values()),
        _ => None,
    }
}

struct Flags {
    hom: bool,
    phase: bool,
    zero: bool,
    same: bool,
}

fn numeric_flags(w: &Wf, c: &Common, rate: f64, base: &Result<IqSamples<Complex64>, SamplingError>, mutant: u32, rng: &mut Rng) -> Flags {
    let mut fl = Flags { hom: true, phase: true, zero: true, same: true };
    let n = match base {
        Ok(s) => s.sample_count() as u64,
        Err(_) => return fl,
    };
    if n > MAX_NUMERIC {
        return fl;
    }
    // homogeneity: scale s*a against a * (scale s)
    let s = c.scale.unwrap_or(1.0);
    let a = *rng.pick(&[2.0, -0.5, 3.0, 0.0, 0.25, -1.0]);
    let c1 = Common { scale: Some(s), ..*c };
    let c2 = Common { scale: Some(s * a), ..*c };
    if let (Some(v1), Some(v2)) = (values(sample_c(w, &c1, rate)), values(sample_c(w, &c2, rate))) {
        let want: Vec<Complex64> = v1.iter().map(|z| z * a).collect();
        fl.hom = all_close(&v2, &want);
    } else {
        fl.hom = false;
    }
    // phase: phase p against cis(2 pi p) * (phase 0 or absent)
    let p = c.phase.filter(|p| *p != 0.0).unwrap_or(*rng.pick(&[0.25, 0.5, -0.125, 0.3125, 1.0, 0.0625]));
    let c0 = Common { phase: if rng.chance(1, 2) { None } else { Some(0.0) }, ..*c };
    let cp = Common { phase: Some(p), ..*c };
    if let (Some(v0), Some(mut vp)) = (values(sample_c(w, &c0, rate)), values(sample_c(w, &cp, rate))) {
        if mutant == 3 {
            // emulated bug: phase applied with the wrong sign
            let v00 = v0.clone();
            let rot = Complex64::cis(-2.0 * std::f64::consts::PI * p);
            vp = v00.iter().map(|z| z * rot).collect();
        }
        let rot = Complex64::cis(2.0 * std::f64::consts::PI * p);
        let want: Vec<Complex64> = v0.iter().map(|z| z * rot).collect();
        fl.phase = all_close(&vp, &want);
    } else {
        fl.phase = false;
    }
    // zero scale
    let z = if rng.chance(1, 4) { -0.0 } else { 0.0 };
    let cz = Common { scale: Some(z), ..*c };
    match values(sample_c(w, &cz, rate)) {
        Some(v) => fl.zero = v.len() as u64 == n && v.iter().all(|x| x.re == 0.0 && x.im == 0.0),
        None => fl.zero = false,
    }
    fl
}

/// Homogeneity and phase judged RELATIVELY (1e-9 per sample): samples(scale s) = s * samples(scale 1),
/// samples(phase p) = cis(2 pi p) * samples(phase absent).  An exactly zero scale must give exact
/// zeros; a non-zero scale must not (unless the product underflows: absolute slack 4 * MIN_POSITIVE).
fn relative_flags(w: &Wf, c: &Common, rate: f64, n: u64) -> (bool, bool) {
    if n > MAX_NUMERIC {
        return (true, true);
    }
    let rel_close = |got: &[Complex64], want: &[Complex64]| -> bool {
        got.len() == want.len()
            && got.iter().zip(want).all(|(g, e)| {
                if !(e.re.is_finite() && e.im.is_finite()) {
                    return true; // overflow or NaN envelope: outside the clause
                }
                (g - e).norm() <= 1e-9 * e.norm() + 4.0 * f64::MIN_POSITIVE
            })
    };
    let mut hom = true;
    if let Some(s) = c.scale {
        let c1 = Common { scale: Some(1.0), ..*c };
        match (values(sample_c(w, &c1, rate)), values(sample_c(w, c, rate))) {
            (Some(v1), Some(vs)) => {
                if s == 0.0 {
                    hom = vs.len() == v1.len() && vs.iter().all(|z| z.re == 0.0 && z.im == 0.0);
                } else {
                    let want: Vec<Complex64> = v1.iter().map(|z| z * s).collect();
                    hom = rel_close(&vs, &want);
                }
            }
            _ => hom = false,
        }
    }
    let mut phase = true;
    if let Some(p) = c.phase {
        let c0 = Common { phase: None, ..*c };
        match (values(sample_c(w, &c0, rate)), values(sample_c(w, c, rate))) {
            (Some(v0), Some(vp)) => {
                let rot = Complex64::cis(2.0 * std::f64::consts::PI * p);
                let want: Vec<Complex64> = v0.iter().map(|z| z * rot).collect();
                // the rotation itself is rounded: relative 1e-9 still holds sample by sample
                phase = rel_close(&vp, &want);
            }
            _ => phase = false,
        }
    }
    (hom, phase)
}

// ---------------------------------------------------------------------------------------------
// Coq literals

fn kind_name(k: Kind) -> &'static str {
    match k {
        Kind::Flat => "flat",
        Kind::Gaussian => "gaussian",
        Kind::Drag => "drag_gaussian",
        Kind::Erf => "erf_square",
        Kind::Hermite => "hermite_gaussian",
        Kind::Raised => "raised_cosine",
        Kind::Boxcar => "boxcar_kernel",
    }
}

fn coq_wf_c(w: &Wf) -> String {
    let ps = format!("[{}]", w.ps.iter().map(|x| q(*x)).collect::<Vec<_>>().join("; "));
    match w.kind {
        Kind::Flat => "(WFlat tt)".into(),
        Kind::Boxcar => "WBoxcar".into(),
        Kind::Gaussian => format!("(WEnv EGaussian {ps})"),
        Kind::Drag => format!("(WEnv EDragGaussian {ps})"),
        Kind::Hermite => format!("(WEnv EHermiteGaussian {ps})"),
        Kind::Erf => format!("(WPad PErfSquare {ps} {} {})", q(w.pad_l), q(w.pad_r)),
        Kind::Raised => format!("(WPad PRaisedCosine {ps} {} {})", q(w.pad_l), q(w.pad_r)),
    }
}
fn coq_wf_p(w: &Wf, m: &Mask) -> String {
    let ps = format!(
        "[{}]",
        w.ps
            .iter()
            .enumerate()
            .map(|(i, x)| if m.ps.get(i).copied().unwrap_or(false) { "None".to_string() } else { format!("Some {}", q(*x)) })
            .collect::<Vec<_>>()
            .join("; ")
    );
    match w.kind {
        Kind::Flat => format!("(WFlat {})", if m.iq { "None" } else { "(Some tt)" }),
        Kind::Boxcar => "WBoxcar".into(),
        Kind::Gaussian => format!("(WEnv EGaussian {ps})"),
        Kind::Drag => format!("(WEnv EDragGaussian {ps})"),
        Kind::Hermite => format!("(WEnv EHermiteGaussian {ps})"),
        Kind::Erf => format!("(WPad PErfSquare {ps} {} {})", q(w.pad_l), q(w.pad_r)),
        Kind::Raised => format!("(WPad PRaisedCosine {ps} {} {})", q(w.pad_l), q(w.pad_r)),
    }
}
fn coq_opt_c(x: Option<f64>) -> String {
    match x {
        None => "None".into(),
        Some(v) => format!("(Some {})", q(v)),
    }
}
fn coq_opt_p(x: Option<f64>, hide: bool) -> String {
    match x {
        None => "None".into(),
        Some(_) if hide => "(Some None)".into(),
        Some(v) => format!("(Some (Some {}))", q(v)),
    }
}
fn coq_rate(r: f64) -> String {
    q(r)
}

struct Ctx {
    run: Run,
    mutant: u32,
    rng2: Rng,
    skipped: u64,
}

fn run_case(cx: &mut Ctx, w: &Wf, c: &Common, m: &Mask, rate: f64) {
    // keep to inputs whose f64 count/pad computation is provably the exact one
    if count_is_safe(c.duration, rate).is_none()
        || !(product_exact(w.pad_l, rate) && product_exact(w.pad_r, rate))
        || dyadic(c.duration).is_none()
    {
        cx.skipped += 1;
        return;
    }
    let none = Mask { ps: vec![false; w.ps.len()], ..Default::default() };
    let rc = qv::catch(std::panic::AssertUnwindSafe(|| sample_c(w, c, rate)));
    let rk = qv::catch(std::panic::AssertUnwindSafe(|| sample_p(w, c, &none, rate)));
    let rm = qv::catch(std::panic::AssertUnwindSafe(|| sample_p(w, c, m, rate)));
    let desc = format!(
        "{} ps={:?} iq={} pads=({:?},{:?}) duration={:?} scale={:?} phase={:?} detuning={:?} rate={:?} mask={{scale:{},phase:{},detuning:{},ps:{:?},iq:{}}}",
        kind_name(w.kind), w.ps, w.iq, w.pad_l, w.pad_r, c.duration, c.scale, c.phase, c.detuning, rate,
        m.scale, m.phase, m.detuning, m.ps, m.iq
    );
    let (rc, rk, rm) = match (rc, rk, rm) {
        (Ok(a), Ok(b), Ok(c)) => (a, b, c),
        (a, b, c) => {
            let what = [a.err(), b.err(), c.err()].into_iter().flatten().next().unwrap_or_default();
            cx.run.process_failure(&format!("panic while sampling: {what}"), &desc, None);
            return;
        }
    };
    let mut oc = conc_shape(&rc);
    let ok = part_shape(&rk);
    let mut om = part_shape(&rm);
    let mut fl = numeric_flags(w, c, rate, &rc, cx.mutant, &mut cx.rng2);
    if let Ok(sm) = &rc {
        let (h, p) = relative_flags(w, c, rate, sm.sample_count() as u64);
        fl.hom = fl.hom && h;
        fl.phase = fl.phase && p;
    }
    // all-known partial = concrete, bit for bit
    fl.same = match (&rc, &rk) {
        (Ok(a), Ok(IqSamplesOrPlaceholder::Samples(b))) => a == b || (a.sample_count() == b.sample_count() && {
            // NaN-tolerant comparison (NaN != NaN under PartialEq)
            let (x, y) = (a.clone().into_iter(), b.clone().into_iter());
            a.sample_count() as u64 <= MAX_NUMERIC && x.zip(y).all(|(p, q)| close(p, q))
        }),
        (Err(a), Err(b)) => err_shape(a) == err_shape(b),
        _ => false,
    };

    // emulated implementation bugs (QV_MUTANT): perturb the OBSERVED output
    match cx.mutant {
        1 => {
            // pads rounded to nearest instead of up
            let fr = |p: f64| (p * rate) - (p * rate).floor();
            let drop = [w.pad_l, w.pad_r].iter().filter(|p| { let f = fr(**p); f > 0.0 && f < 0.5 }).count() as u64;
            if matches!(w.kind, Kind::Erf | Kind::Raised) && drop > 0 {
                if let Shape::Samples(f, n) = oc { oc = Shape::Samples(f, n.saturating_sub(drop)); }
            }
        }
        2 => {
            // duration * rate truncated instead of rounded: one sample short when the product is
            // just below an integer
            let f = c.duration * rate;
            let below = {
                let (Some((_, md, kd)), Some((_, mr, kr))) = (dyadic(c.duration), dyadic(rate)) else { unreachable!() };
                // exact product md*mr / 2^(kd+kr) has a fractional part >= 1/2 ?
                let k = kd + kr;
                k > 0 && k < 127 && md.checked_mul(mr).map_or(false, |p| (p >> (k - 1)) & 1 == 1)
            };
            if below && f > 0.0 {
                if let Shape::Samples(fl_, n) = oc { oc = Shape::Samples(fl_, n.saturating_sub(1)); }
            }
        }
        4 => {
            // zero-scale shortcut forgotten for partial data: placeholder instead of zeros
            if let Shape::Samples(true, n) = om {
                if m.scale == false && c.scale == Some(0.0) && (m.phase || m.detuning || m.ps.iter().any(|b| *b)) {
                    om = Shape::Placeholder(false, n);
                }
            }
        }
        _ => {}
    }

    let coq = format!(
        "(Case {} (Common {} {} {} {}) {} {} (Common {} {} {} {}) {} {} {} {} {} {} {})",
        coq_wf_c(w),
        q(c.duration), coq_opt_c(c.scale), coq_opt_c(c.phase), coq_opt_c(c.detuning),
        coq_rate(rate),
        coq_wf_p(w, m),
        q(c.duration), coq_opt_p(c.scale, m.scale), coq_opt_p(c.phase, m.phase), coq_opt_p(c.detuning, m.detuning),
        shape_str(&oc), shape_str(&ok), shape_str(&om),
        fl.hom, fl.phase, fl.zero, fl.same
    );
    let nontrivial = matches!(oc, Shape::Samples(_, n) if n > 0);
    cx.run.count(&format!("kind={}", kind_name(w.kind)));
    cx.run.count(&format!("rate={rate:?}"));
    cx.run.count(match oc {
        Shape::ErrRange => "concrete=ErrRange",
        Shape::ErrMisaligned => "concrete=ErrMisaligned",
        Shape::Samples(true, _) => "concrete=Flat",
        Shape::Samples(false, _) => "concrete=Samples",
        Shape::Placeholder(..) => "concrete=Placeholder?!",
    });
    cx.run.count(match om {
        Shape::Placeholder(true, _) => "masked=PlaceholderFlat",
        Shape::Placeholder(false, _) => "masked=PlaceholderSamples",
        Shape::Samples(true, _) => "masked=SamplesFlat",
        Shape::Samples(false, _) => "masked=Samples",
        _ => "masked=Err",
    });
    if let Shape::Samples(_, n) = oc {
        cx.run.count(match n { 0 => "count=0", 1..=16 => "count=1..16", 17..=8192 => "count=17..8192", _ => "count>8192" });
    }
    cx.run.case(coq, &desc, nontrivial, None);
}

/// A dyadic pad unit of about 1/16 sample period, such that small multiples times the rate are exact.
fn pad_unit(rate: f64) -> f64 {
    let r = rate.abs();
    if r == 0.0 {
        return 1.0 / 16.0;
    }
    let e = r.log2().ceil() as i32 + 4;
    (2.0f64).powi(-e)
}

/// Sane envelope parameters for a kind, derived from the duration.
fn params_for(k: Kind, d: f64, rng: &mut Rng) -> Vec<f64> {
    let d = if d > 0.0 { d } else { 1.0 };
    match k {
        Kind::Flat | Kind::Boxcar => vec![],
        Kind::Gaussian => vec![d / 4.0, d / 2.0],
        Kind::Drag => vec![d / 4.0, d / 2.0, *rng.pick(&[1.0e6, -2.5e5, 0.5]), *rng.pick(&[1.0, 0.5, -0.25])],
        Kind::Hermite => vec![d / 4.0, d / 2.0, *rng.pick(&[1.0e6, -2.5e5, 0.5]), *rng.pick(&[1.0, 0.5, -0.25]), *rng.pick(&[0.125, 0.5, 0.0])],
        Kind::Erf => vec![d / 8.0],
        Kind::Raised => vec![*rng.pick(&[0.0, 0.5, 1.0, 0.25])],
    }
}

fn main() {
    let args = Args::parse();
    let header = "From Coq Require Import List NArith ZArith QArith.\nFrom QV Require Import Model.Waveform.\nImport ListNotations.";
    let run = Run::new(&args.out, header, "case", "failing", 600);
    let mutant: u32 = std::env::var("QV_MUTANT").ok().and_then(|s| s.parse().ok()).unwrap_or(0);
    let mut cx = Ctx { run, mutant, rng2: Rng::new(args.seed ^ 0x5151), skipped: 0 };
    let mut rng = Rng::new(args.seed);

    // (1) exhaustive small scope
    let rates = [1.0, 8.0, 1.0e6, 1.0e9];
    let counts: &[u64] = if args.thorough() { &[0, 1, 2, 3, 5] } else { &[0, 1, 3] };
    let scale_opts = [None, Some(0.0), Some(0.75)];
    let phase_opts = [None, Some(0.0), Some(0.3125)];
    let mut exhaustive = 0u64;
    for &kind in &KINDS {
        for &rate in &rates {
            for &k in counts {
                let duration = k as f64 / rate;
                for sc in scale_opts {
                    for ph in phase_opts {
                        for det in [None, Some(0.0), Some(rate / 8.0)] {
                            let np = n_params(kind);
                            // masks: nothing, each common parameter, first kind parameter (or iq), everything
                            let mut masks = vec![Mask { ps: vec![false; np], ..Default::default() }];
                            masks.push(Mask { scale: true, ps: vec![false; np], ..Default::default() });
                            masks.push(Mask { phase: true, ps: vec![false; np], ..Default::default() });
                            masks.push(Mask { detuning: true, ps: vec![false; np], ..Default::default() });
                            let mut first = vec![false; np];
                            if np > 0 { first[0] = true; }
                            masks.push(Mask { ps: first, iq: true, ..Default::default() });
                            masks.push(Mask { scale: true, phase: true, detuning: true, ps: vec![true; np], iq: true });
                            for m in masks {
                                let w = Wf {
                                    kind,
                                    ps: params_for(kind, duration, &mut rng),
                                    iq: Complex64::new(0.5, -0.25),
                                    pad_l: if matches!(kind, Kind::Erf | Kind::Raised) { 20.0 * pad_unit(rate) } else { 0.0 },
                                    pad_r: if matches!(kind, Kind::Erf | Kind::Raised) { 32.0 * pad_unit(rate) } else { 0.0 },
                                };
                                let c = Common { duration, scale: sc, phase: ph, detuning: det };
                                run_case(&mut cx, &w, &c, &m, rate);
                                exhaustive += 1;
                            }
                        }
                    }
                }
            }
        }
    }

    // (2) seeded random stream
    let nrand = if args.thorough() { 40000 } else { 6000 };
    let all_rates = [1.0, 8.0, 1.0e6, 1.0e9, 1.0, 8.0, 1.0e6, 1.0e9, 0.0, -1.0, 1.0 / 1024.0, 3.0];
    for _ in 0..nrand {
        let kind = *rng.pick(&KINDS);
        let rate = *rng.pick(&all_rates);
        let style = rng.below(10);
        let rr = if rate > 0.0 { rate } else { 1.0 };
        // the duration
        let duration = match style {
            // exact multiple of the sample period, small
            0..=3 => rng.below(200) as f64 / rr,
            // decimal duration k * 1e-9 / k * 1e-6 / k * 0.1 (inexact in f64, realistic)
            4 => rng.below(5000) as f64 * *rng.pick(&[1.0e-9, 1.0e-6, 0.1, 1.0e-3]),
            // dyadic misalignment: k + j/2^e sample periods
            5 => (rng.below(50) as f64 + rng.range(1, 7) as f64 / (1u64 << rng.range(1, 12)) as f64) / rr,
            // half-way and near-half products
            6 => (rng.below(20) as f64 + 0.5) / rr,
            // huge counts around u32::MAX (only when the result cannot be a sample vector)
            7 => (4294967295.0 - rng.below(3) as f64 + rng.below(3) as f64) / rr,
            // negative and tiny durations
            8 => -(rng.below(8) as f64) / 4.0 / rr,
            // up to a few thousand samples
            _ => rng.range(200, 3000) as f64 / rr,
        };
        let huge = duration * rate > 1.0e6;
        let np = n_params(kind);
        let mut scale = match rng.below(5) { 0 => None, 1 => Some(0.0), _ => Some(*rng.pick(&[0.5, 1.0, 2.0, -1.5, 1.25, 0.75])) };
        let phase = match rng.below(4) { 0 => None, 1 => Some(0.0), _ => Some(*rng.pick(&[0.25, 0.5, -0.125, 0.3125, 1.0])) };
        let mut detuning = match rng.below(4) { 0 => None, 1 => Some(0.0), _ => Some(rr * *rng.pick(&[0.125, 0.1875, -0.0625, 0.5])) };
        if huge {
            // keep the concrete result Flat so that nothing of size 2^32 is allocated
            match kind {
                Kind::Flat | Kind::Boxcar => detuning = if rng.chance(1, 2) { None } else { Some(0.0) },
                _ => scale = Some(0.0),
            }
        }
        let padded = matches!(kind, Kind::Erf | Kind::Raised);
        let pad = |rng: &mut Rng| -> f64 {
            if !padded { return 0.0; }
            let u = pad_unit(rate);
            match rng.below(5) {
                0 => 0.0,
                1 => rng.below(6) as f64 * 16.0 * u,
                2 => -(rng.below(40) as f64) * u,
                _ => rng.range(1, 90) as f64 * u,
            }
        };
        let w = Wf {
            kind,
            ps: params_for(kind, duration.abs(), &mut rng),
            iq: Complex64::new(*rng.pick(&[0.5, -1.0, 0.0, 0.125]), *rng.pick(&[-0.25, 0.0, 1.0])),
            pad_l: pad(&mut rng),
            pad_r: pad(&mut rng),
        };
        let m = Mask {
            scale: rng.chance(1, 4),
            phase: rng.chance(1, 4),
            detuning: rng.chance(1, 4),
            ps: (0..np).map(|_| rng.chance(1, 3)).collect(),
            iq: rng.chance(1, 3),
        };
        let c = Common { duration, scale, phase, detuning };
        run_case(&mut cx, &w, &c, &m, rate);
    }

    // (2b) SCALE-BOUNDARY stream: every kind, tiny / huge / exactly-zero scales, concrete and
    // partial (all known, and with the first kind parameter forgotten)
    let boundary = [5e-324, 1e-300, 1e-20, 1e-17, 2.2e-16, 2.3e-16, 1e-12, 1e-6, 1.0, 1e6, 1e300];
    let mut scales: Vec<f64> = vec![0.0, -0.0];
    for b in boundary {
        scales.push(b);
        scales.push(-b);
    }
    let mut boundary_cases = 0u64;
    for &kind in &KINDS {
        for &rate in &[1.0, 8.0, 1.0e6] {
            let duration = 6.0 / rate;
            for &sc in &scales {
                for (ph, det) in [(None, None), (Some(0.3125), None), (Some(0.25), Some(rate / 8.0))] {
                    let np = n_params(kind);
                    let padded = matches!(kind, Kind::Erf | Kind::Raised);
                    let w = Wf {
                        kind,
                        ps: params_for(kind, duration, &mut rng),
                        iq: Complex64::new(0.5, -0.25),
                        pad_l: if padded { 20.0 * pad_unit(rate) } else { 0.0 },
                        pad_r: if padded { 32.0 * pad_unit(rate) } else { 0.0 },
                    };
                    let c = Common { duration, scale: Some(sc), phase: ph, detuning: det };
                    let mut first = vec![false; np];
                    if np > 0 && boundary_cases % 2 == 1 {
                        first[0] = true;
                    }
                    let m = Mask { ps: first, iq: boundary_cases % 4 == 3, ..Default::default() };
                    run_case(&mut cx, &w, &c, &m, rate);
                    boundary_cases += 1;
                }
            }
        }
    }
    cx.run.count_n("scale-boundary-cases", boundary_cases);

    // (3) decimal durations that are exact multiples of the sample period as written (k ns at
    // 1 GS/s, k us at 1 MS/s, ...).  The f64 nearest to k * 10^-e is not a dyadic multiple, so the
    // outcome depends on IEEE rounding of duration * rate, which the model does not cover: these are
    // judged here against the property directly (the duration aligns, so k samples are expected).
    let ndec = if args.thorough() { 20000 } else { 3000 };
    let mut dec_ok = 0u64;
    let mut dec_rejected = 0u64;
    for i in 0..ndec {
        let (mut rate, mut e) = *rng.pick(&[(1.0e9, 9), (1.0e9, 9), (1.0e6, 6), (1.0e3, 3)]);
        let mut k = if i % 3 == 0 { rng.range(1, 4000) } else { rng.range(4000, 400_000) } as u64;
        // regression witnesses of the repaired finding misalignment-tolerance-units
        if i < 2 {
            rate = 1.0e9;
            e = 9;
            k = [250_624, 122_343][i];
        }
        let duration: f64 = format!("{k}e-{e}").parse().unwrap();
        let w = Wf { kind: Kind::Flat, ps: vec![], iq: Complex64::new(1.0, 0.0), pad_l: 0.0, pad_r: 0.0 };
        let c = Common { duration, scale: None, phase: None, detuning: None };
        let desc = format!("flat duration={duration:?} rate={rate:?} (= {k} sample periods)");
        match sample_c(&w, &c, rate) {
            Ok(s) if s.sample_count() as u64 == k => dec_ok += 1,
            Ok(s) => cx.run.process_failure(
                &format!("aligned decimal duration gave {} samples instead of {k}", s.sample_count()),
                &desc,
                None,
            ),
            Err(SamplingError::MisalignedDuration { misalignment, max_misalignment, .. }) => {
                // (finding misalignment-tolerance-units, repaired by /repo b8fb6ef: must not recur)
                dec_rejected += 1;
                cx.run.process_failure(
                    &format!("aligned decimal duration rejected as misaligned (misalignment {misalignment:e} s, tolerance {max_misalignment:e} s)"),
                    &desc,
                    None,
                );
            }
            Err(e) => cx.run.process_failure(&format!("aligned decimal duration rejected: {e}"), &desc, None),
        }
    }
    cx.run.count_n("decimal-aligned=ok", dec_ok);
    cx.run.count_n("decimal-aligned=rejected", dec_rejected);

    let skipped = cx.skipped;
    cx.run.note(&format!("{skipped} generated inputs skipped: f64 rounding of duration*rate or pad*rate not provably exact / too close to a threshold"));
    cx.run.finish(
        "exhaustive: 7 kinds x rates {1,8,1e6,1e9} x exact counts x (scale, phase, detuning) in {absent, 0, non-zero}^3 x 6 masks; \
         random: durations exact / decimal / dyadically misaligned / half-way / around u32::MAX / negative, dyadic pads, \
         rates additionally {0,-1,2^-10,3}. Distinct by the full parameter description; non-trivial = the concrete \
         API returned at least one sample.",
        false,
        serde_json::json!({"exhaustive_cases": exhaustive, "random_cases": nrand, "decimal_aligned_probes": ndec, "decimal_aligned_rejected": dec_rejected, "skipped": skipped, "mutant": mutant}),
    );
}
