//! C08 — serialization is deterministic and keeps definition order.
//! Every generated sequence is built into a real Program 20 times in this process by each of three
//! builders (Program::from_instructions, FromStr on the Quil text, `from(is1) + from(is2)` for a
//! split of the sequence) and once more by each of 3 child processes (fresh hash seeds); all
//! serializations must be byte-identical.  The listing is printed next to the sequence and the Coq
//! shard compares it with the independently defined `listing_spec` (first-insertion order, last
//! value) and with the model.
#[path = "../proggen.rs"]
mod proggen;
use proggen::*;
use qv::{fnv1a, Args, Rng, Run};
use quil_rs::program::Program;
use quil_rs::quil::Quil;
use std::io::{BufRead, Write};
use std::str::FromStr;

const REPEAT: usize = 20;
const CHILDREN: usize = 3;

fn esc(s: &str) -> String {
    s.replace('\\', "\\\\").replace('\n', "\\n").replace('\t', "\\t")
}
fn unesc(s: &str) -> String {
    let mut out = String::new();
    let mut it = s.chars();
    while let Some(c) = it.next() {
        if c == '\\' {
            match it.next() {
                Some('n') => out.push('\n'),
                Some('t') => out.push('\t'),
                Some(o) => out.push(o),
                None => {}
            }
        } else {
            out.push(c);
        }
    }
    out
}

/// child mode: read `text1 \t text2` lines, print the hashes of the serializations of
/// FromStr(text1 ++ text2) and FromStr(text1) + FromStr(text2)
fn child(path: &str) {
    let f = std::fs::File::open(path).expect("child input");
    let out = std::io::stdout();
    let mut out = out.lock();
    for line in std::io::BufReader::new(f).lines() {
        let line = line.unwrap();
        let (a, b) = line.split_once('\t').unwrap();
        let (a, b) = (unesc(a), unesc(b));
        let whole = Program::from_str(&format!("{a}{b}")).expect("child parse").to_quil_or_debug();
        let sum = (Program::from_str(&a).expect("child parse") + Program::from_str(&b).expect("child parse")).to_quil_or_debug();
        writeln!(out, "{:016x} {:016x}", fnv1a(&whole), fnv1a(&sum)).unwrap();
    }
}

struct Pending {
    desc: String,
    h_whole: u64,
    h_sum: u64,
}

fn mutate_listing(m: u32, sa: &[AI], out: &mut Vec<AI>) {
    match m {
        // frames listed by key instead of by insertion (what an ordered-by-key or hashed map does)
        1 => {
            let idx: Vec<usize> = out.iter().enumerate().filter(|(_, x)| matches!(x, AI::FrameDef { .. })).map(|(i, _)| i).collect();
            let mut fr: Vec<AI> = idx.iter().map(|i| out[*i].clone()).collect();
            fr.sort_by_key(|x| if let AI::FrameDef { key, .. } = x { *key } else { 0 });
            for (slot, f) in idx.iter().zip(fr) {
                out[*slot] = f;
            }
        }
        // a redefined gate definition moves to the end (swap_remove + insert)
        3 => {
            let mut seen: Vec<u64> = Vec::new();
            let mut moved: Option<u64> = None;
            for y in sa {
                if let AI::GateDef { name, .. } = y {
                    if seen.contains(name) {
                        moved = Some(*name);
                    }
                    seen.push(*name);
                }
            }
            if let Some(nm) = moved {
                let idx: Vec<usize> = out.iter().enumerate().filter(|(_, x)| matches!(x, AI::GateDef { .. })).map(|(i, _)| i).collect();
                if let Some(pos) = idx.iter().position(|i| matches!(&out[*i], AI::GateDef { name, .. } if *name == nm)) {
                    let mut gs: Vec<AI> = idx.iter().map(|i| out[*i].clone()).collect();
                    let g = gs.remove(pos);
                    gs.push(g);
                    for (slot, g) in idx.iter().zip(gs) {
                        out[*slot] = g;
                    }
                }
            }
        }
        _ => {}
    }
}

fn run_seq(run: &mut Run, u: &mut U, sa: &[AI], split: usize, mutant: u32, pend: &mut Vec<Pending>, input: &mut String) {
    let desc = u.describe(sa);
    let (s1, s2) = sa.split_at(split.min(sa.len()));
    let (t1, t2) = (u.quil_text(s1), u.quil_text(s2));
    let text = format!("{t1}{t2}");
    let c1 = u.conc_all(s1);
    let c2 = u.conc_all(s2);
    let call = u.conc_all(sa);

    // reference builds
    let p_from = Program::from_instructions(call.clone());
    let ser_from = p_from.to_quil_or_debug();
    let p_sum = Program::from_instructions(c1.clone()) + Program::from_instructions(c2.clone());
    let ser_sum = p_sum.to_quil_or_debug();
    let mut nondet = 0;
    for rep in 0..REPEAT {
        let a = Program::from_instructions(call.clone()).to_quil_or_debug();
        let mut b = Program::from_str(&text).map(|p| p.to_quil_or_debug()).unwrap_or_else(|e| format!("PARSE ERROR {e}"));
        let c = (Program::from_instructions(c1.clone()) + Program::from_instructions(c2.clone())).to_quil_or_debug();
        if mutant == 2 && rep == 7 && distinct_frames(sa) >= 2 {
            // emulate a hash-ordered frame map: one build lists the frames in another order
            let lines: Vec<&str> = b.split("DEFFRAME").collect();
            let mut v: Vec<String> = lines.iter().map(|s| s.to_string()).collect();
            let n = v.len();
            v.swap(n - 1, n - 2);
            b = v.join("DEFFRAME");
        }
        if a != ser_from || b != ser_from || c != ser_sum {
            nondet += 1;
        }
    }
    if nondet > 0 {
        run.process_failure(
            &format!("{nondet} of {REPEAT} repeated builds (from_instructions / FromStr / +) serialise differently"),
            &desc,
            pending_tag(sa),
        );
    }
    pend.push(Pending { desc: desc.clone(), h_whole: fnv1a(&ser_from), h_sum: fnv1a(&ser_sum) });
    input.push_str(&format!("{}\t{}\n", esc(&t1), esc(&t2)));

    let redefinition = sa.iter().enumerate().any(|(i, y)| y.route().is_some() && sa[..i].iter().any(|x| x.route() == y.route()));
    let nontrivial = redefinition || distinct_frames(sa) >= 2;
    run.count(if redefinition { "with-redefinition" } else { "no-redefinition" });
    run.count(&format!("distinct-frames={}", distinct_frames(sa)));

    // case A: from_instructions
    let mut out = u.abs_all(&p_from.to_instructions());
    mutate_listing(mutant, sa, &mut out);
    let coq = format!("({}, [], {})", u.coq_list(sa), u.coq_list(&out));
    report_unknown(u, run, &desc);
    run.case(coq, &desc, nontrivial, pending_tag(sa));
    // case B: concatenation of the two halves
    if split > 0 && split < sa.len() {
        let mut out = u.abs_all(&p_sum.to_instructions());
        mutate_listing(mutant, sa, &mut out);
        let coq = format!("({}, {}, {})", u.coq_list(s1), u.coq_list(s2), u.coq_list(&out));
        let d2 = format!("{} ++ {}", u.describe(s1), u.describe(s2));
        report_unknown(u, run, &d2);
        run.case(coq, &d2, nontrivial, pending_tag(sa));
        run.count("via-concatenation");
    }
}

fn main() {
    if let Ok(path) = std::env::var("QV_C08_CHILD") {
        child(&path);
        return;
    }
    let args = Args::parse();
    let mutant: u32 = std::env::var("QV_MUTANT").ok().and_then(|s| s.parse().ok()).unwrap_or(0);
    let header = "From Coq Require Import List NArith.\nFrom QV Require Import Model.Program.\nImport ListNotations.\nOpen Scope N_scope.";
    let mut run = Run::new(&args.out, header, "c08_case", "c08_failing", 1000);
    let mut u = U::new();
    let mut pend: Vec<Pending> = Vec::new();
    let mut input = String::new();

    // exhaustive small scope: several distinct frames, a frame redefinition, and one redefinable
    // definition of other kinds
    let alphabet = vec![
        AI::FrameDef { key: 0, payload: 0 },
        AI::FrameDef { key: 1, payload: 0 },
        AI::FrameDef { key: 3, payload: 0 },
        AI::FrameDef { key: 0, payload: 1 },
        AI::GateDef { name: 0, payload: 0 },
        AI::GateDef { name: 1, payload: 0 },
        AI::GateDef { name: 0, payload: 1 },
        AI::MeasureCalib { sig: 0, payload: 0 },
        AI::MeasureCalib { sig: 1, payload: 0 },
        AI::MeasureCalib { sig: 0, payload: 2 },
        // differs from sig 0 only in the NAME of the formal target; from sig 0 only in having one
        AI::MeasureCalib { sig: 3, payload: 0 },
        AI::MeasureCalib { sig: 4, payload: 0 },
        AI::Body { k: 0, qs: vec![0] },
    ];
    let maxlen = if args.thorough() { 4 } else { 3 };
    let mut frontier: Vec<Vec<AI>> = vec![vec![]];
    let mut n_ex = 0u64;
    for _ in 0..maxlen {
        let mut next = Vec::new();
        for s in &frontier {
            for x in &alphabet {
                let mut t = s.clone();
                t.push(x.clone());
                let split = (n_ex as usize) % (t.len() + 1);
                run_seq(&mut run, &mut u, &t, split, mutant, &mut pend, &mut input);
                n_ex += 1;
                next.push(t);
            }
        }
        frontier = next;
    }

    let mut rng = Rng::new(args.seed);
    let g = Gen { nkeys: 4, npayloads: 3, placeholders: false, variables: true };
    let nrand = if args.thorough() { 2000 } else { 300 };
    for i in 0..nrand {
        let s = if i % 4 == 0 {
            let len = rng.range(2, 14);
            g.seq(&mut rng, &mut u, len)
        } else {
            g.rich_seq(&mut rng, &mut u)
        };
        let split = rng.range(0, s.len());
        run_seq(&mut run, &mut u, &s, split, mutant, &mut pend, &mut input);
    }

    // child processes: fresh hash seeds
    let input_path = args.out.join("children_input.txt");
    std::fs::write(&input_path, &input).unwrap();
    let exe = std::env::current_exe().unwrap();
    let mut child_mismatches = 0u64;
    for c in 0..CHILDREN {
        let outp = std::process::Command::new(&exe)
            .env("QV_C08_CHILD", &input_path)
            .output()
            .expect("spawn child");
        if !outp.status.success() {
            run.process_failure(&format!("child process {c} failed"), &String::from_utf8_lossy(&outp.stderr), None);
            continue;
        }
        let text = String::from_utf8_lossy(&outp.stdout).to_string();
        let lines: Vec<&str> = text.lines().collect();
        if lines.len() != pend.len() {
            run.process_failure(&format!("child process {c}: {} lines for {} cases", lines.len(), pend.len()), "", None);
            continue;
        }
        for (l, p) in lines.iter().zip(pend.iter()) {
            let want = format!("{:016x} {:016x}", p.h_whole, p.h_sum);
            let mut got = l.to_string();
            if mutant == 4 && c == 1 && p.desc.matches("DEFFRAME").count() >= 2 {
                got = format!("{:016x} {:016x}", p.h_whole ^ 1, p.h_sum);
            }
            if got != want {
                child_mismatches += 1;
                if child_mismatches <= 5 {
                    run.process_failure(&format!("child process {c} serialises differently from the parent"), &p.desc, None);
                }
            }
        }
    }
    let _ = std::fs::remove_file(&input_path);
    run.count_n("builds-compared", (pend.len() * (3 * REPEAT + 2 * CHILDREN)) as u64);
    run.finish(
        "instruction sequences; each is built 20x in-process by from_instructions, FromStr and (for a \
         split point) `+` of the two halves, and once by each of 3 child processes; serializations \
         compared byte for byte; the listing is compared in Coq with listing_spec. Exhaustive part: \
         every sequence up to the stated length over a 13-instruction alphabet (3 distinct frames + \
         a frame redefinition, 2 gate definitions + redefinition, measure calibrations differing in \
         qubit / target name / target presence + a redefinition, one gate). Random part: seeded sequences with 2-4 definitions of every kind. \
         Non-trivial = contains a redefinition or two distinct frames.",
        true,
        serde_json::json!({"exhaustive_max_len": maxlen, "exhaustive_cases": n_ex, "random_cases": nrand,
                           "repeat": REPEAT, "children": CHILDREN, "child_mismatches": child_mismatches, "mutant": mutant}),
    );
}
