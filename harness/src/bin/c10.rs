//! C10 — a program's used-qubit set and equality depend only on its content.
//! Random histories of public Program operations (length <= 12) are applied to a real Program;
//! the final listing, used-qubit set and `==` verdicts between pairs of programs are observed.
//! Each pair is printed twice: mode 0 = correspondence with the model (never tagged; also
//! cross-checks the harness's class computation against Coq's `all_hits`), mode 1 = the property on
//! the implementation's output (tagged with the known class the histories fall in, if any).
#[path = "../proggen.rs"]
mod proggen;
use proggen::*;
use qv::{Args, Rng, Run};
use quil_rs::instruction::{DefaultHandler, FrameIdentifier, Instruction, InstructionHandler, MemoryReference, Qubit, Reset, Target};
use quil_rs::program::Program;

#[derive(Clone, Debug)]
enum Op {
    Add(AI),
    AddMany(Vec<AI>),
    Concat(Vec<AI>),
    ConcatSelf,
    CloneWithoutBody,
    Resolve,
    ExpandCal(Vec<AI>),
    ExpandSeq(Vec<u64>, Vec<AI>),
    Simplify(Vec<u64>, Vec<u64>, Vec<u64>, Vec<AI>),
    WrapInLoop(u64, Vec<AI>, Vec<AI>),
    RoundTrip,
    RoundTripInto,
}

fn coq_op(u: &mut U, o: &Op) -> String {
    match o {
        Op::Add(i) => format!("OAdd ({})", u.coq(i)),
        Op::AddMany(l) => format!("OAddMany {}", u.coq_list(l)),
        Op::Concat(l) => format!("OConcat {}", u.coq_list(l)),
        Op::ConcatSelf => "OConcatSelf".into(),
        Op::CloneWithoutBody => "OCloneWithoutBody".into(),
        Op::Resolve => "OResolve".into(),
        Op::ExpandCal(out) => format!("OExpandCal {}", u.coq_list(out)),
        Op::ExpandSeq(k, out) => format!("OExpandSeq {} {}", coq_ns(k), u.coq_list(out)),
        Op::Simplify(ke, kf, kw, out) => {
            format!("OSimplify {} {} {} {}", coq_ns(ke), coq_ns(kf), coq_ns(kw), u.coq_list(out))
        }
        Op::WrapInLoop(n, h, f) => format!("OWrapInLoop {n} {} {}", u.coq_list(h), u.coq_list(f)),
        Op::RoundTrip => "ORoundTrip".into(),
        Op::RoundTripInto => "ORoundTripInto".into(),
    }
}

fn desc_op(u: &mut U, o: &Op) -> String {
    match o {
        Op::Add(i) => format!("Add[{}]", u.describe(std::slice::from_ref(i))),
        Op::AddMany(l) => format!("AddMany[{}]", u.describe(l)),
        Op::Concat(l) => format!("Concat[{}]", u.describe(l)),
        Op::ConcatSelf => "ConcatSelf".into(),
        Op::CloneWithoutBody => "CloneWithoutBody".into(),
        Op::Resolve => "ResolvePlaceholders".into(),
        Op::ExpandCal(_) => "ExpandCalibrations".into(),
        Op::ExpandSeq(k, _) => format!("ExpandSequences(keep gates {k:?})"),
        Op::Simplify(..) => "Simplify".into(),
        Op::WrapInLoop(n, ..) => format!("WrapInLoop({n})"),
        Op::RoundTrip => "FromInstructions(ToInstructions)".into(),
        Op::RoundTripInto => "FromInstructions(IntoInstructions)".into(),
    }
}

// ---- the known classes, computed on the abstract pre-state (mirrors `hits` of Model/Program.v)

const K_RESET: u64 = 1;
const K_FRAME: u64 = 3;
const K_CIRC: u64 = 4;

#[derive(Clone, Default)]
struct AState {
    defs: Vec<Vec<(u64, AI)>>, // 8 kinds
    body: Vec<AI>,
}

fn gq(u: &mut U, a: &AI) -> Vec<u64> {
    match a {
        AI::Calib { .. } | AI::MeasureCalib { .. } | AI::Body { .. } => u.qs(a),
        _ => vec![],
    }
}
fn subset(a: &[u64], b: &[u64]) -> bool {
    a.iter().all(|x| b.contains(x))
}
fn uncounted(u: &mut U, a: &AI) -> Option<u64> {
    let all = u.qs(a);
    let rep = gq(u, a);
    if subset(&all, &rep) {
        None
    } else if matches!(a, AI::FrameDef { .. }) {
        Some(K_FRAME)
    } else {
        Some(K_CIRC)
    }
}

impl AState {
    fn of(listing: &[AI]) -> AState {
        let mut s = AState { defs: vec![Vec::new(); 8], body: Vec::new() };
        for a in listing {
            match a.route() {
                Some((kd, k)) => s.defs[kd as usize].push((k, a.clone())),
                None => s.body.push(a.clone()),
            }
        }
        s
    }
    fn add(&mut self, a: &AI) {
        match a.route() {
            Some((kd, k)) => {
                let l = &mut self.defs[kd as usize];
                if let Some(e) = l.iter_mut().find(|(k2, _)| *k2 == k) {
                    e.1 = a.clone();
                } else {
                    l.push((k, a.clone()));
                }
            }
            None => self.body.push(a.clone()),
        }
    }
    fn cleared(&self) -> AState {
        AState { defs: self.defs.clone(), body: Vec::new() }
    }
    /// (the stale-cache class was repaired by 1fc8c68: only uncounted definitions hit)
    fn hits_adds(&mut self, u: &mut U, is: &[AI], out: &mut Vec<u64>) {
        for a in is {
            if let Some(c) = uncounted(u, a) {
                out.push(c);
            }
            self.add(a);
        }
    }
    fn reset_hit(&self, u: &mut U, out: &mut Vec<u64>) {
        let any = self.defs.iter().flatten().any(|(_, a)| !gq(u, a).is_empty());
        if any {
            out.push(K_RESET);
        }
    }
}

fn hits(u: &mut U, st: &AState, o: &Op) -> Vec<u64> {
    let mut out = Vec::new();
    match o {
        Op::Add(i) => st.clone().hits_adds(u, std::slice::from_ref(i), &mut out),
        Op::AddMany(l) => st.clone().hits_adds(u, l, &mut out),
        Op::Concat(l) => st.clone().hits_adds(u, l, &mut out),
        Op::ConcatSelf | Op::Resolve | Op::RoundTrip | Op::RoundTripInto => {}
        Op::CloneWithoutBody => st.reset_hit(u, &mut out),
        Op::ExpandCal(o2) => {
            let mut c = st.cleared();
            c.reset_hit(u, &mut out);
            c.hits_adds(u, o2, &mut out);
        }
        Op::ExpandSeq(kg, o2) => {
            let mut c = st.cleared();
            c.defs[6].retain(|(k, _)| kg.contains(k));
            c.reset_hit(u, &mut out);
            c.hits_adds(u, o2, &mut out);
        }
        Op::Simplify(_, _, _, o2) => {
            let mut c = st.cleared();
            c.hits_adds(u, o2, &mut out);
            if o2.iter().any(|i| matches!(i, AI::Calib { .. } | AI::MeasureCalib { .. })) {
                out.push(K_RESET);
            }
        }
        Op::WrapInLoop(n, h, f) => match n {
            1 => {}
            0 => st.cleared().reset_hit(u, &mut out),
            _ => {
                let mut c = st.cleared();
                c.reset_hit(u, &mut out);
                let all: Vec<AI> = h.iter().chain(st.body.iter()).chain(f.iter()).cloned().collect();
                c.hits_adds(u, &all, &mut out);
            }
        },
    }
    out
}

fn class_name(c: u64) -> &'static str {
    match c {
        K_RESET => "clone-without-body-cache",
        K_FRAME => "framedef-qubits-uncounted",
        _ => "circuitdef-qubits-uncounted",
    }
}

// ---- generation and execution of histories

struct Hist {
    ops: Vec<Op>,
    prog: Program,
    hits: Vec<u64>,
}

fn okey_of(a: &AI) -> u64 {
    a.route().map(|(_, k)| k).unwrap_or(0)
}

/// choose and apply one operation; returns None if the implementation reports an error (the
/// operation is then not part of the history)
fn step(u: &mut U, rng: &mut Rng, g: &Gen, mode: usize, p: &Program, nops: &mut [u64; 12]) -> Option<(Op, Program)> {
    let allow_def = |a: &AI| match mode {
        0 => matches!(a, AI::Decl { .. } | AI::WaveDef { .. } | AI::Extern { .. } | AI::Body { .. })
            || matches!(a, AI::GateDef { payload, .. } if *payload < 50),
        // calibrations too, but nothing whose qubits get_qubits does not report
        3 => !matches!(a, AI::FrameDef { .. } | AI::CircuitDef { .. })
            && !matches!(a, AI::GateDef { payload, .. } if *payload >= 50),
        _ => true,
    };
    let gen_instr = |u: &mut U, rng: &mut Rng| loop {
        let a = g.any(rng, u);
        if allow_def(&a) {
            return a;
        }
    };
    let choice = rng.below(20);
    let reset_allowed = mode != 1;
    match choice {
        0..=5 => {
            let a = gen_instr(u, rng);
            let mut q = p.clone();
            q.add_instruction(u.conc(&a));
            nops[0] += 1;
            Some((Op::Add(a), q))
        }
        6..=7 => {
            let n = rng.range(1, 4);
            let l: Vec<AI> = (0..n).map(|_| gen_instr(u, rng)).collect();
            let mut q = p.clone();
            q.add_instructions(u.conc_all(&l));
            nops[1] += 1;
            Some((Op::AddMany(l), q))
        }
        8..=9 => {
            let n = rng.range(1, 5);
            let l: Vec<AI> = (0..n).map(|_| gen_instr(u, rng)).collect();
            let mut q = p.clone();
            q += Program::from_instructions(u.conc_all(&l));
            nops[2] += 1;
            Some((Op::Concat(l), q))
        }
        10 => {
            nops[3] += 1;
            Some((Op::ConcatSelf, p.clone() + p.clone()))
        }
        11 if reset_allowed => {
            nops[4] += 1;
            Some((Op::CloneWithoutBody, p.clone_without_body_instructions()))
        }
        12..=13 => {
            let mut q = p.clone();
            q.resolve_placeholders();
            nops[5] += 1;
            Some((Op::Resolve, q))
        }
        14 if reset_allowed => match p.expand_calibrations() {
            Ok(q) => {
                let body: Vec<Instruction> = q.body_instructions().cloned().collect();
                nops[6] += 1;
                Some((Op::ExpandCal(u.abs_all(&body)), q))
            }
            Err(_) => None,
        },
        15 if reset_allowed => {
            let drop0 = rng.chance(1, 2);
            match p.clone().expand_defgate_sequences(|name| !(drop0 && name == "G0")) {
                Ok(q) => {
                    let body: Vec<Instruction> = q.body_instructions().cloned().collect();
                    let keep: Vec<u64> = q
                        .gate_definitions
                        .keys()
                        .map(|n| n.trim_start_matches('G').parse::<u64>().expect("gate name"))
                        .collect();
                    nops[7] += 1;
                    Some((Op::ExpandSeq(keep, u.abs_all(&body)), q))
                }
                Err(_) => None,
            }
        }
        16 => match p.simplify(&DefaultHandler) {
            Ok(q) => {
                let listing = u.abs_all(&q.to_instructions());
                let ke: Vec<u64> = listing.iter().filter(|a| matches!(a, AI::Extern { .. })).map(okey_of).collect();
                let kf: Vec<u64> = listing.iter().filter(|a| matches!(a, AI::FrameDef { .. })).map(okey_of).collect();
                let kw: Vec<u64> = listing.iter().filter(|a| matches!(a, AI::WaveDef { .. })).map(okey_of).collect();
                let body: Vec<Instruction> = q.body_instructions().cloned().collect();
                nops[8] += 1;
                Some((Op::Simplify(ke, kf, kw, u.abs_all(&body)), q))
            }
            Err(_) => None,
        },
        17 => {
            let n = if reset_allowed { *rng.pick(&[0u64, 1, 2, 3]) } else { 1 };
            let decl = AI::Decl { name: 9, payload: 100 };
            u.conc(&decl);
            let q = p.wrap_in_loop(
                MemoryReference { name: "lc9".into(), index: 0 },
                Target::Fixed("loop".into()),
                n as u32,
            );
            let (h, f) = if n >= 2 {
                let body: Vec<Instruction> = q.body_instructions().cloned().collect();
                let nb = body.len();
                let mut h = vec![decl];
                h.extend(u.abs_all(&body[..2]));
                (h, u.abs_all(&body[nb - 2..]))
            } else {
                (vec![], vec![])
            };
            nops[9] += 1;
            Some((Op::WrapInLoop(n, h, f), q))
        }
        18 => {
            nops[10] += 1;
            Some((Op::RoundTrip, Program::from_instructions(p.to_instructions())))
        }
        19 => {
            nops[11] += 1;
            Some((Op::RoundTripInto, Program::from_instructions(p.clone().into_instructions())))
        }
        _ => None,
    }
}

fn gen_history(u: &mut U, rng: &mut Rng, g: &Gen, mode: usize, len: usize, nops: &mut [u64; 12]) -> Hist {
    let mut h = Hist { ops: Vec::new(), prog: Program::new(), hits: Vec::new() };
    let mut tries = 0;
    while h.ops.len() < len && tries < 4 * len + 8 {
        tries += 1;
        if let Some((op, q)) = step(u, rng, g, mode, &h.prog, nops) {
            let st = AState::of(&u.abs_all(&h.prog.to_instructions()));
            h.hits.extend(hits(u, &st, &op));
            h.ops.push(op);
            h.prog = q;
        }
    }
    h
}

fn apply_one(u: &mut U, h: &Hist, op: Op, q: Program) -> Hist {
    let st = AState::of(&u.abs_all(&h.prog.to_instructions()));
    let mut hits2 = h.hits.clone();
    hits2.extend(hits(u, &st, &op));
    let mut ops = h.ops.clone();
    ops.push(op);
    Hist { ops, prog: q, hits: hits2 }
}

/// `DefaultHandler::matching_frames` for a bare `RESET` (the observable that depends on the cache):
/// (used, blocked) frame keys, sorted
fn reset_frames(p: &Program) -> (Vec<u64>, Vec<u64>) {
    fn key(f: &FrameIdentifier) -> u64 {
        let qs: Vec<String> = f
            .qubits
            .iter()
            .map(|q| match q {
                Qubit::Fixed(n) => n.to_string(),
                other => format!("{other:?}"),
            })
            .collect();
        let qs = qs.join(" ");
        FRAME_KEYS
            .iter()
            .position(|(q, n)| *q == qs && *n == f.name)
            .map(|i| i as u64)
            .unwrap_or(999)
    }
    match DefaultHandler.matching_frames(p, &Instruction::Reset(Reset { qubit: None })) {
        Some(m) => {
            let mut us: Vec<u64> = m.used.iter().map(|f| key(f)).collect();
            let mut bl: Vec<u64> = m.blocked.iter().map(|f| key(f)).collect();
            us.sort();
            bl.sort();
            (us, bl)
        }
        None => (vec![998], vec![998]),
    }
}

fn emit_pair(run: &mut Run, u: &mut U, a: &Hist, b: &Hist, kind: &str, mutant: u32) {
    let mut oa = u.obs(&a.prog);
    let mut ob = u.obs(&b.prog);
    let mut e = a.prog == b.prog;
    match mutant {
        // the cache forgets the largest qubit (a path that does not extend the cache)
        1 => {
            if oa.1.len() >= 2 {
                oa.1.pop();
            }
        }
        // == ignores the body order (compares as multisets)
        2 => {
            let mut x = oa.0.clone();
            let mut y = ob.0.clone();
            x.sort_by_key(|a| format!("{a:?}"));
            y.sort_by_key(|a| format!("{a:?}"));
            if x == y && oa.1 == ob.1 {
                e = true;
            }
        }
        // equality compares the cache even when the listings agree: emulate a cache that keeps
        // resolved placeholders' old entries after resolve_placeholders (no rebuild)
        3 => {
            if a.ops.iter().any(|o| matches!(o, Op::Resolve)) && !oa.1.is_empty() {
                oa.1.push(2000);
                if oa.0 == ob.0 {
                    e = false;
                }
            }
        }
        _ => {}
    }
    let _ = &mut ob;
    let cls = a.hits.iter().chain(b.hits.iter()).next().copied().unwrap_or(0);
    let ha: Vec<String> = a.ops.iter().map(|o| coq_op(u, o)).collect();
    let hb: Vec<String> = b.ops.iter().map(|o| coq_op(u, o)).collect();
    let da: Vec<String> = a.ops.iter().map(|o| desc_op(u, o)).collect();
    let db: Vec<String> = b.ops.iter().map(|o| desc_op(u, o)).collect();
    let desc = format!("[{kind}] H1: {} || H2: {}", da.join(" ; "), db.join(" ; "));
    let mut ra = reset_frames(&a.prog);
    let rb = reset_frames(&b.prog);
    if mutant == 4 {
        // RESET frame matching computed from a stale copy of the cache: reports no frame at all
        if !ra.0.is_empty() || !ra.1.is_empty() {
            ra = (vec![], vec![]);
        }
    }
    if !ra.0.is_empty() || !ra.1.is_empty() {
        run.count("reset-matches-some-frame");
    }
    let body = format!(
        "{cls}, [{}], [{}], {}, {}, {}, ({}, {}), ({}, {})",
        ha.join("; "),
        hb.join("; "),
        u.coq_obs(&oa),
        u.coq_obs(&ob),
        coq_bool(e),
        coq_ns(&ra.0),
        coq_ns(&ra.1),
        coq_ns(&rb.0),
        coq_ns(&rb.1)
    );
    let nontrivial = !oa.1.is_empty() && a.ops.len() >= 3;
    run.count(&format!("pair-{kind}"));
    run.count(&format!("class-{}", if cls == 0 { "none" } else { class_name(cls) }));
    if oa.0 == ob.0 {
        run.count("pairs-with-equal-listing");
    }
    run.count(&format!("len={}", a.ops.len()));
    report_unknown(u, run, &desc);
    run.case(format!("(0, {body})"), &format!("corr {desc}"), nontrivial, None);
    let known = if cls == 0 { None } else { Some(class_name(cls)) };
    run.case(format!("(1, {body})"), &format!("prop {desc}"), nontrivial, known);
}

fn main() {
    let args = Args::parse();
    let mutant: u32 = std::env::var("QV_MUTANT").ok().and_then(|s| s.parse().ok()).unwrap_or(0);
    let header = "From Coq Require Import List NArith.\nFrom QV Require Import Model.Program.\nImport ListNotations.\nOpen Scope N_scope.";
    let mut run = Run::new(&args.out, header, "c10_case", "c10_failing", 800);
    let mut u = U::new();
    let mut rng = Rng::new(args.seed);
    let mut nops = [0u64; 12];

    // the witnesses of the known findings (and of the repaired stale-cache defect, now a
    // regression case in no class), replayed on the implementation
    {
        let wit: Vec<(&str, Vec<AI>, bool)> = vec![
            ("clone", vec![AI::Calib { sig: 0, payload: 0 }, AI::Body { k: 0, qs: vec![1] }], true),
            ("stale", vec![AI::Calib { sig: 0, payload: 1 }, AI::Calib { sig: 0, payload: 0 }], false),
            ("framedef", vec![AI::FrameDef { key: 4, payload: 0 }], false),
            ("circuitdef", vec![AI::CircuitDef { name: 0, payload: 1 }], false),
        ];
        for (name, seq, clone) in wit {
            let mut h = Hist { ops: Vec::new(), prog: Program::new(), hits: Vec::new() };
            for a in &seq {
                let mut q = h.prog.clone();
                q.add_instruction(u.conc(a));
                h = apply_one(&mut u, &h, Op::Add(a.clone()), q);
            }
            if clone {
                let q = h.prog.clone_without_body_instructions();
                h = apply_one(&mut u, &h, Op::CloneWithoutBody, q);
            }
            let q = Program::from_instructions(h.prog.to_instructions());
            let h2 = apply_one(&mut u, &h, Op::RoundTrip, q);
            emit_pair(&mut run, &mut u, &h, &h2, &format!("witness-{name}"), mutant);
        }
    }

    let nhist = if args.thorough() { 6000 } else { 700 };
    let mut prev: Option<Hist> = None;
    for i in 0..nhist {
        let mode = match i % 20 {
            0..=6 => 0,   // only definitions that report all their qubits, no calibrations: every operation
            7..=9 => 1,   // everything, but no cache-resetting operation
            10..=15 => 3, // calibrations but no DEFFRAME / DEFCIRCUIT / sequence DEFGATE: every operation
            _ => 2,       // everything
        };
        let g = Gen { nkeys: 3, npayloads: 4, placeholders: true, variables: i % 3 == 0 };
        let len = rng.range(1, 12);
        let h = gen_history(&mut u, &mut rng, &g, mode, len, &mut nops);
        run.count(&format!("mode-{mode}"));
        // A: against its own round trip
        let q = Program::from_instructions(h.prog.to_instructions());
        let h2 = apply_one(&mut u, &h, Op::RoundTrip, q);
        emit_pair(&mut run, &mut u, &h, &h2, "roundtrip", mutant);
        // B: against a program built from the listing with the definitions in reverse order
        // (IndexMap equality ignores order; calibration sets and the body do not)
        if i % 3 == 1 {
            let listing = u.abs_all(&h.prog.to_instructions());
            let has_ph = listing.iter().any(|a| matches!(a, AI::Body { qs, .. } if qs.iter().any(|q| *q >= 2000)));
            let _ = has_ph;
            let mut defs: Vec<AI> = listing.iter().filter(|a| !a.is_body()).cloned().collect();
            defs.reverse();
            let body: Vec<AI> = listing.iter().filter(|a| a.is_body()).cloned().collect();
            let l2: Vec<AI> = defs.into_iter().chain(body).collect();
            let q = Program::from_instructions(u.conc_all(&l2));
            let empty = Hist { ops: Vec::new(), prog: Program::new(), hits: Vec::new() };
            let h3 = apply_one(&mut u, &empty, Op::AddMany(l2), q);
            emit_pair(&mut run, &mut u, &h, &h3, "reordered-definitions", mutant);
        }
        // C: against the previous history
        if i % 4 == 2 {
            if let Some(pv) = &prev {
                emit_pair(&mut run, &mut u, &h, pv, "independent", mutant);
            }
        }
        prev = Some(h);
    }
    let names = ["Add", "AddMany", "Concat", "ConcatSelf", "CloneWithoutBody", "ResolvePlaceholders", "ExpandCalibrations",
                 "ExpandSequences", "Simplify", "WrapInLoop", "RoundTrip", "RoundTripInto"];
    for (n, c) in names.iter().zip(nops.iter()) {
        run.count_n(&format!("op-{n}"), *c);
    }
    run.finish(
        "pairs of operation histories (length <= 12, plus one closing operation) over Add, AddMany, \
         Concat, ConcatSelf, CloneWithoutBody, ResolvePlaceholders, ExpandCalibrations, \
         ExpandSequences, Simplify, WrapInLoop(0..3), FromInstructions(ToInstructions / \
         IntoInstructions); instructions of every kind incl. placeholder and variable qubits. Pair \
         kinds: a history and its rebuild from the listing; a history and the program built from its \
         listing with definitions reversed; two independent histories. Each pair yields a \
         correspondence case and a property case. Non-trivial = the final cache is non-empty and the \
         history has >= 3 operations. The four known-finding witnesses are replayed first.",
        false,
        serde_json::json!({"histories": nhist, "mutant": mutant}),
    );
}
