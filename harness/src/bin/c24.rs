//! C24 — frame conflicts are ordered and every frame edge is justified.
//! Same model and case format as C22 (Model/Graph.v), RF-heavy generators, checker `chk_frames`.
#[path = "../graphgen.rs"]
mod graphgen;
use graphgen::*;
use qv::{Args, Rng, Run};

/// RF-only exhaustive alphabet over 2 frames: every (scheduled?, used, blocked) with disjoint sets.
fn rf_alphabet() -> Vec<Info> {
    let mut v = vec![];
    for sched in [true, false] {
        for (u, b) in [
            (vec![0u64], vec![]),
            (vec![1], vec![]),
            (vec![0], vec![1]),
            (vec![1], vec![0]),
            (vec![0, 1], vec![]),
            (vec![], vec![0]),
            (vec![], vec![0, 1]),
        ] {
            if !sched && u.len() + b.len() == 2 && !u.is_empty() && !b.is_empty() {
                continue; // keep the alphabet small: unscheduled shapes without mixed use/block of both
            }
            v.push(Info::rf(sched, &u, &b));
        }
    }
    v.push(Info::classical(&[0], &[0]));
    v
}

fn exhaustive_rf(run: &mut Run, maxlen: usize) {
    let alpha = rf_alphabet();
    fn rec(run: &mut Run, alpha: &[Info], cur: &mut Vec<Info>, max: usize) {
        if !cur.is_empty() {
            run_abstract(run, &[ABlock { infos: cur.clone(), term: None }], "exh");
        }
        if cur.len() == max {
            return;
        }
        for a in alpha.iter() {
            cur.push(a.clone());
            rec(run, alpha, cur, max);
            cur.pop();
        }
    }
    rec(run, &alpha, &mut vec![], maxlen);
}

fn main() {
    let args = Args::parse();
    if let Some(case) = &args.replay {
        replay(case);
        return;
    }
    let mut run = Run::new(&args.out, COQ_HEADER, CASE_TYPE, "gfailing 24", 300);
    let thorough = args.thorough();
    exhaustive_rf(&mut run, if thorough { 4 } else { 3 });
    let exhaustive_cases = run.evaluations;
    for t in FIXED_E2E {
        run_e2e_text(&mut run, &format!("{E2E_HEADER}{t}"), "fixed");
    }
    let mut rng = Rng::new(args.seed ^ 0x24);
    let (nr, ne) = if thorough { (10000, 10000) } else { (1000, 1200) };
    random_blocks(&mut run, &mut rng, nr, 80);
    random_e2e(&mut run, &mut rng, ne, 85);
    run.finish(
        "exhaustive: every block without terminator up to length 3 (thorough 4) over a 13-summary alphabet \
         (scheduled / unscheduled RF summaries using and blocking subsets of 2 frames, one classical); random abstract \
         single/multi-block programs (3 frames, 80% RF summaries, length <=12) through a table-driven InstructionHandler; \
         random and fixed Quil-T programs (5 DEFFRAMEs on overlapping qubits; blocking and NONBLOCKING PULSE / CAPTURE / \
         RAW-CAPTURE, DELAY, FENCE, SET-*/SHIFT-*, SWAP-PHASES, RESET, classical instructions, all four terminators) \
         through the DefaultHandler. One case per basic block. Distinct by block description; non-trivial = builds and \
         has >= 2 instructions.",
        true,
        serde_json::json!({"exhaustive_cases": exhaustive_cases, "random_abstract_programs": nr, "random_quilt_programs": ne}),
    );
}

fn replay(case: &str) {
    println!("replaying: {case}");
    let tmp = std::env::temp_dir().join("qv-c24-replay");
    let mut run = Run::new(&tmp, COQ_HEADER, CASE_TYPE, "gfailing 24", 10);
    if let Some(rest) = case.strip_prefix("A ") {
        let b = ABlock::parse(rest).expect("abstract block");
        let (text, _) = concretise(&[b.clone()]);
        println!("program:\n{text}");
        run_abstract(&mut run, &[b], "replay");
    } else if let Some(rest) = case.strip_prefix("Q ") {
        let body = rest.split_once(" of: ").map(|x| x.1).unwrap_or(rest).replace("; ", "\n");
        let text = format!("{E2E_HEADER}{body}");
        println!("program:\n{text}");
        run_e2e_text(&mut run, &text, "replay");
    }
    run.finish("replay", false, serde_json::json!({}));
    println!("{}", std::fs::read_to_string(tmp.join("shard_0.v")).unwrap_or_default());
}
