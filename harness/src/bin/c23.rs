//! C23 — memory accesses are sequentially consistent.
//! Two streams: (Q) the DependencyQueue driven through hook H1; (B) block level: the memory edges of
//! basic blocks built by ScheduledBasicBlock::build (table-driven handler and DefaultHandler on
//! classical Quil programs), compared with the model and checked by chk_mem_block (Model/GraphMem.v).
#[path = "../graphgen.rs"]
mod graphgen;
use graphgen::{ABlock, Info, Obs};
use qv::{gallina as g, Args, Rng, Run};
use quil_rs::program::scheduling::verif::memory_queue_trace;
use quil_rs::program::scheduling::{MemoryAccessType, ScheduledGraphNode};

fn acc(a: MemoryAccessType) -> &'static str {
    match a {
        MemoryAccessType::Read => "AR",
        MemoryAccessType::Write => "AW",
        MemoryAccessType::Capture => "AC",
    }
}
fn node(n: ScheduledGraphNode) -> u64 {
    match n {
        ScheduledGraphNode::InstructionIndex(i) => i as u64,
        // the memory queue has no implicit writer; anything else is reported as a distinct id
        ScheduledGraphNode::BlockStart => 1_000_000,
        ScheduledGraphNode::BlockEnd => 1_000_001,
    }
}
fn deps(d: &[(MemoryAccessType, ScheduledGraphNode)]) -> String {
    let mut v: Vec<(u64, &'static str)> = d.iter().map(|(a, n)| (node(*n), acc(*a))).collect();
    v.sort();
    g::list(&v.iter().map(|(n, a)| format!("({a}, {})", g::n(*n))).collect::<Vec<_>>())
}

fn run_case(run: &mut Run, seq: &[(usize, MemoryAccessType)]) {
    let (steps, pending) = memory_queue_trace(seq);
    let l = g::list(
        &seq.iter()
            .map(|(n, a)| format!("({}, {})", g::n(*n as u64), acc(*a)))
            .collect::<Vec<_>>(),
    );
    let st = g::list(&steps.iter().map(|d| deps(d)).collect::<Vec<_>>());
    let coq = format!("(CQueue ({l}, {st}, {}))", deps(&pending));
    let desc = seq
        .iter()
        .map(|(n, a)| format!("{n}{}", &acc(*a)[1..]))
        .collect::<Vec<_>>()
        .join(" ");
    let nontrivial = seq.iter().enumerate().any(|(i, (m, a))| {
        seq[i + 1..]
            .iter()
            .any(|(n, b)| n != m && (*a != MemoryAccessType::Read || *b != MemoryAccessType::Read))
    });
    run.count(&format!("len={}", seq.len()));
    run.case(coq, &desc, nontrivial, None);
}

const KINDS: [MemoryAccessType; 3] = [
    MemoryAccessType::Read,
    MemoryAccessType::Write,
    MemoryAccessType::Capture,
];

fn enumerate(run: &mut Run, seq: &mut Vec<(usize, MemoryAccessType)>, max: usize) {
    run_case(run, seq);
    if seq.len() == max {
        return;
    }
    let last = seq.last().map(|x| x.0);
    for k in KINDS {
        // same node as the previous access (an instruction touching the region twice) or the next
        let nodes: Vec<usize> = match last {
            None => vec![0],
            Some(n) => vec![n, n + 1],
        };
        for n in nodes {
            seq.push((n, k));
            enumerate(run, seq, max);
            seq.pop();
        }
    }
}

fn main() {
    let args = Args::parse();
    if let Some(case) = &args.replay {
        replay(case);
        return;
    }
    let mut run = Run::new(&args.out, HEADER, "c23case", "failing23", 400);
    let max = if args.thorough() { 7 } else { 5 };
    enumerate(&mut run, &mut Vec::new(), max);
    let exhaustive_cases = run.evaluations;
    // longer random sequences
    let mut rng = Rng::new(args.seed);
    let nrand = if args.thorough() { 20000 } else { 3000 };
    for _ in 0..nrand {
        let len = rng.range(6, 16);
        let mut seq = Vec::new();
        let mut n = 0usize;
        for _ in 0..len {
            if !seq.is_empty() && rng.chance(3, 4) {
                n += 1;
            }
            // mostly reads with occasional writes, or the reverse
            let k = if rng.chance(1, 2) { KINDS[rng.below(3)] } else { MemoryAccessType::Read };
            seq.push((n, k));
        }
        run_case(&mut run, &seq);
    }
    let queue_cases = run.evaluations;
    block_stream(&mut run, &mut rng, args.thorough());
    let block_cases = run.evaluations - queue_cases;
    run.finish(
        "exhaustive: every (node, access) sequence up to the stated length where each access is R/W/C \
         and is performed by the same node as the previous access or the next node; plus seeded random \
         sequences of length 6..16. Distinct by the sequence; non-trivial = contains a conflicting \
         pair (one side a write/capture) on two different nodes. Block level (one case per basic block that \
         builds): every block up to length 3 over a 9-summary memory alphabet on 2 regions (reads, writes, \
         read-modify-write, captures) x {no terminator, JUMP-WHEN reading r0}; random abstract blocks over 3 \
         regions through a table-driven InstructionHandler; random and fixed classical Quil programs (MOVE, ADD, \
         SUB, MUL, DIV, AND, IOR, XOR, NEG, NOT, EXCHANGE, LOAD, STORE, CONVERT, comparisons, read-modify-write \
         forms, CAPTURE / RAW-CAPTURE targets, parameter reads, JUMP-WHEN / JUMP-UNLESS terminators) through the \
         DefaultHandler; non-trivial = >= 2 instructions.",
        true,
        serde_json::json!({"exhaustive_max_len": max, "exhaustive_cases": exhaustive_cases, "random_cases": nrand,
                           "queue_cases": queue_cases, "block_cases": block_cases}),
    );
}

// ---------------------------------------------------------------------------------------------
// block level

const HEADER: &str = "From Coq Require Import List NArith.\nFrom QV Require Import Model.DepQueue Model.Graph Model.GraphMem.\nImport ListNotations.\nOpen Scope N_scope.";

/// (summaries, terminator, observed result) -> `CBlock ...` with the implementation's memory edges;
/// blocks that do not build are skipped (C22 compares the errors).
fn block_case(infos: &[Info], term: Option<&Info>, obs: &Obs) -> Option<String> {
    let edges = match obs {
        Obs::Ok(e) => e,
        Obs::Err(..) => return None,
    };
    let mem: Vec<String> = edges
        .iter()
        .filter_map(|(s, d, k)| k.strip_prefix("KMem ").map(|a| format!("({s}, {d}, {a})")))
        .collect();
    Some(format!(
        "(CBlock {} {} {})",
        g::list(&infos.iter().map(|i| i.coq()).collect::<Vec<_>>()),
        g::option(term.map(|i| i.coq())),
        g::list(&mem)
    ))
}

fn mem_alphabet() -> Vec<Info> {
    let mut v = vec![
        Info::classical(&[0], &[]),
        Info::classical(&[], &[0]),
        Info::classical(&[0], &[0]),     // ADD x 1
        Info::classical(&[1], &[0]),     // MOVE x y
        Info::classical(&[0, 1], &[0]),  // ADD x y
        Info::classical(&[0, 1], &[0, 1]), // EXCHANGE x y
        Info::classical(&[1], &[1]),
    ];
    let mut cap = Info::rf(true, &[0], &[]);
    cap.caps = vec![0];
    v.push(cap);
    let mut rfread = Info::rf(true, &[0], &[]);
    rfread.reads = vec![0];
    v.push(rfread);
    v
}

fn random_mem_info(rng: &mut Rng, nregions: u64) -> Info {
    let sub = |rng: &mut Rng, p: usize| -> Vec<u64> { (0..nregions).filter(|_| rng.chance(1, p)).collect() };
    if rng.chance(1, 5) {
        // RF instruction: reads parameters, captures
        let mut i = Info::rf(rng.chance(4, 5), &[rng.below(3) as u64], &[]);
        i.reads = sub(rng, 3);
        if rng.chance(1, 2) {
            i.caps = vec![rng.below(nregions as usize) as u64];
        }
        return i;
    }
    let mut i = Info::classical(&[], &[]);
    match rng.below(6) {
        0 => i.reads = sub(rng, 2),
        1 => i.writes = vec![rng.below(nregions as usize) as u64],
        2 => {
            // read-modify-write
            let r = rng.below(nregions as usize) as u64;
            i.reads = vec![r];
            i.writes = vec![r];
            if rng.chance(1, 2) {
                let o = rng.below(nregions as usize) as u64;
                if o != r {
                    i.reads.push(o);
                    i.reads.sort();
                }
            }
        }
        3 => {
            i.reads = sub(rng, 2);
            i.writes = sub(rng, 2);
        }
        4 => {
            let r = rng.below(nregions as usize) as u64;
            i.reads = vec![r];
            i.writes = vec![r];
            i.caps = if rng.chance(1, 4) { vec![r] } else { vec![] };
        }
        _ => {}
    }
    i
}

const CLASSICAL_HEADER: &str = "DECLARE a INTEGER[2]\nDECLARE b INTEGER[2]\nDECLARE x REAL[2]\nDECLARE y REAL[2]\nDECLARE bit BIT[4]\nDECLARE raw REAL[8]\n\
DEFFRAME 0 \"ro\":\n    SAMPLE-RATE: 1.0\nDEFFRAME 1 \"ro\":\n    SAMPLE-RATE: 1.0\nDEFFRAME 0 \"rf\":\n    SAMPLE-RATE: 1.0\n";

const CLASSICAL: &[&str] = &[
    "MOVE a[0] 1",
    "MOVE a[0] b[0]",
    "MOVE b[1] a[1]",
    "MOVE x[0] 1.5",
    "MOVE y[0] x[0]",
    "MOVE a[1] a[0]",
    "ADD a[0] 1",
    "ADD a[0] b[0]",
    "ADD a[0] a[1]",
    "SUB b[0] 2",
    "SUB x[0] y[0]",
    "MUL x[1] 2.0",
    "MUL a[0] a[0]",
    "DIV y[0] x[1]",
    "AND bit[0] bit[1]",
    "AND bit[0] 1",
    "IOR bit[2] bit[0]",
    "XOR bit[1] 1",
    "XOR bit[3] bit[3]",
    "NEG a[0]",
    "NEG x[0]",
    "NOT bit[0]",
    "EXCHANGE a[0] b[0]",
    "EXCHANGE x[0] y[1]",
    "EXCHANGE a[0] a[1]",
    "LOAD a[0] b a[1]",
    "LOAD x[0] y a[0]",
    "LOAD a[0] a a[1]",
    "STORE b a[0] a[1]",
    "STORE y a[0] 2.5",
    "STORE a a[0] 3",
    "CONVERT x[0] a[0]",
    "CONVERT a[1] bit[0]",
    "EQ bit[0] a[0] b[0]",
    "EQ bit[1] a[0] 3",
    "GT bit[2] x[0] y[0]",
    "LE bit[0] a[1] a[0]",
    "LT bit[3] x[1] 0.5",
    "NOP",
    "PRAGMA marker",
    "CAPTURE 0 \"ro\" flat(duration: 1.0, iq: 1.0) bit[0]",
    "NONBLOCKING CAPTURE 1 \"ro\" flat(duration: 1.0, iq: 1.0) bit[1]",
    "RAW-CAPTURE 0 \"ro\" 1.0 raw",
    "CAPTURE 0 \"ro\" flat(duration: x[0], iq: 1.0) bit[2]",
    "SHIFT-PHASE 0 \"rf\" x[0]",
    "SET-FREQUENCY 0 \"rf\" 2*y[1]",
    "PULSE 0 \"rf\" flat(duration: 1.0, iq: x[1])",
    "SET-SCALE 0 \"rf\" 0.5",
    "MOVE raw[0] x[0]",
    "ADD x[0] raw[1]",
];

const FIXED_CLASSICAL: &[&str] = &[
    "ADD a[0] 1\nMOVE b[0] a[0]\n",
    "ADD a[0] 1\nMUL a[0] 2\n",
    "MOVE b[0] a[0]\nADD a[0] 1\nMOVE b[1] a[0]\n",
    "NOT bit[0]\nJUMP-WHEN @l bit[0]\n",
    "XOR bit[1] 1\nAND bit[0] bit[1]\nJUMP-UNLESS @l bit[0]\n",
    "CAPTURE 0 \"ro\" flat(duration: 1.0, iq: 1.0) bit[0]\nMOVE bit[1] bit[0]\nNOT bit[0]\n",
    "RAW-CAPTURE 0 \"ro\" 1.0 raw\nMOVE x[0] raw[0]\nMOVE raw[1] 0.0\n",
    "NEG x[0]\nSHIFT-PHASE 0 \"rf\" x[0]\nNEG x[0]\n",
    "EXCHANGE a[0] b[0]\nEXCHANGE a[0] b[0]\nADD b[0] 1\n",
    "LOAD a[0] a a[1]\nSTORE a a[0] 3\nLOAD b[0] a a[0]\n",
    "MOVE a[0] 1\nMOVE b[0] 2\nLABEL @m\nADD a[0] b[0]\nJUMP-WHEN @m bit[0]\nMOVE b[1] a[0]\nHALT\n",
];

fn block_stream(run: &mut Run, rng: &mut Rng, thorough: bool) {
    let fmt: graphgen::CaseFmt = &block_case;
    // exhaustive small scope
    let alpha = mem_alphabet();
    let terms: Vec<Option<(u8, Info)>> = vec![None, Some((2, Info::control(&[0])))];
    fn rec(run: &mut Run, fmt: graphgen::CaseFmt, alpha: &[Info], terms: &[Option<(u8, Info)>], cur: &mut Vec<Info>, max: usize) {
        if !cur.is_empty() {
            for t in terms.iter() {
                graphgen::run_abstract_with(run, &[ABlock { infos: cur.clone(), term: t.clone() }], "blk-exh", fmt);
            }
        }
        if cur.len() == max {
            return;
        }
        for a in alpha.iter() {
            cur.push(a.clone());
            rec(run, fmt, alpha, terms, cur, max);
            cur.pop();
        }
    }
    rec(run, fmt, &alpha, &terms, &mut vec![], if thorough { 4 } else { 3 });
    // fixed classical programs
    for t in FIXED_CLASSICAL {
        graphgen::run_e2e_text_with(run, &format!("{CLASSICAL_HEADER}{t}"), "blk-fixed", fmt);
    }
    // random abstract blocks
    let (na, nq) = if thorough { (6000, 8000) } else { (350, 500) };
    for _ in 0..na {
        let nregions = rng.range(1, 3) as u64;
        let len = rng.range(2, 10);
        let infos: Vec<Info> = (0..len).map(|_| random_mem_info(rng, nregions)).collect();
        let term = match rng.below(3) {
            0 => None,
            1 => Some((2u8, Info::control(&[rng.below(nregions as usize) as u64]))),
            _ => Some((1u8, Info::control(&[]))),
        };
        graphgen::run_abstract_with(run, &[ABlock { infos, term }], "blk-rnd", fmt);
    }
    // random classical Quil programs, DefaultHandler
    for _ in 0..nq {
        let mut text = String::from(CLASSICAL_HEADER);
        let nblocks = if rng.chance(1, 4) { 2 } else { 1 };
        for bi in 0..nblocks {
            if bi > 0 {
                text.push_str(&format!("LABEL @b{bi}\n"));
            }
            for _ in 0..rng.range(2, 9) {
                text.push_str(*rng.pick(CLASSICAL));
                text.push('\n');
            }
            match rng.below(5) {
                0 => text.push_str(&format!("JUMP-WHEN @b{} bit[{}]\n", rng.below(nblocks), rng.below(4))),
                1 => text.push_str(&format!("JUMP-UNLESS @b{} bit[{}]\n", rng.below(nblocks), rng.below(4))),
                2 => text.push_str("HALT\n"),
                _ => {}
            }
        }
        graphgen::run_e2e_text_with(run, &text, "blk-quil", fmt);
    }
}

fn replay(case: &str) {
    println!("replaying: {case}");
    let tmp = std::env::temp_dir().join("qv-c23-replay");
    let mut run = Run::new(&tmp, HEADER, "c23case", "failing23", 10);
    let fmt: graphgen::CaseFmt = &block_case;
    if let Some(rest) = case.strip_prefix("A ") {
        let b = ABlock::parse(rest).expect("abstract block");
        let (text, _) = graphgen::concretise(&[b.clone()]);
        println!("program:\n{text}");
        graphgen::run_abstract_with(&mut run, &[b], "replay", fmt);
    } else if let Some(rest) = case.strip_prefix("Q ") {
        let body = rest.split_once(" of: ").map(|x| x.1).unwrap_or(rest).replace("; ", "\n");
        println!("program body:\n{body}");
        let text = if body.starts_with("DECLARE") { body } else { format!("{CLASSICAL_HEADER}{body}") };
        graphgen::run_e2e_text_with(&mut run, &text, "replay", fmt);
    } else {
        println!("queue case (replay by hand through memory_queue_trace): {case}");
    }
    run.finish("replay", false, serde_json::json!({}));
    println!("{}", std::fs::read_to_string(tmp.join("shard_0.v")).unwrap_or_default());
}
