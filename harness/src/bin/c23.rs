//! C23 — memory accesses are sequentially consistent (dependency queue, hook H1).
use qv::{gallina as g, Args, Rng, Run};
use quil_rs::program::scheduling::verif::memory_queue_trace;
use quil_rs::program::scheduling::{MemoryAccessType, ScheduledGraphNode};

fn acc(a: MemoryAccessType) -> &'static str {
    match a {
        MemoryAccessType::Read => "AR",
        MemoryAccessType::Write => "AW",
        MemoryAccessType::Capture => "AC",
    }
}
fn node(n: ScheduledGraphNode) -> u64 {
    match n {
        ScheduledGraphNode::InstructionIndex(i) => i as u64,
        // the memory queue has no implicit writer; anything else is reported as a distinct id
        ScheduledGraphNode::BlockStart => 1_000_000,
        ScheduledGraphNode::BlockEnd => 1_000_001,
    }
}
fn deps(d: &[(MemoryAccessType, ScheduledGraphNode)]) -> String {
    let mut v: Vec<(u64, &'static str)> = d.iter().map(|(a, n)| (node(*n), acc(*a))).collect();
    v.sort();
    g::list(&v.iter().map(|(n, a)| format!("({a}, {})", g::n(*n))).collect::<Vec<_>>())
}

fn run_case(run: &mut Run, seq: &[(usize, MemoryAccessType)]) {
    let (steps, pending) = memory_queue_trace(seq);
    let l = g::list(
        &seq.iter()
            .map(|(n, a)| format!("({}, {})", g::n(*n as u64), acc(*a)))
            .collect::<Vec<_>>(),
    );
    let st = g::list(&steps.iter().map(|d| deps(d)).collect::<Vec<_>>());
    let coq = format!("({l}, {st}, {})", deps(&pending));
    let desc = seq
        .iter()
        .map(|(n, a)| format!("{n}{}", &acc(*a)[1..]))
        .collect::<Vec<_>>()
        .join(" ");
    let nontrivial = seq.iter().enumerate().any(|(i, (m, a))| {
        seq[i + 1..]
            .iter()
            .any(|(n, b)| n != m && (*a != MemoryAccessType::Read || *b != MemoryAccessType::Read))
    });
    run.count(&format!("len={}", seq.len()));
    run.case(coq, &desc, nontrivial, None);
}

const KINDS: [MemoryAccessType; 3] = [
    MemoryAccessType::Read,
    MemoryAccessType::Write,
    MemoryAccessType::Capture,
];

fn enumerate(run: &mut Run, seq: &mut Vec<(usize, MemoryAccessType)>, max: usize) {
    run_case(run, seq);
    if seq.len() == max {
        return;
    }
    let last = seq.last().map(|x| x.0);
    for k in KINDS {
        // same node as the previous access (an instruction touching the region twice) or the next
        let nodes: Vec<usize> = match last {
            None => vec![0],
            Some(n) => vec![n, n + 1],
        };
        for n in nodes {
            seq.push((n, k));
            enumerate(run, seq, max);
            seq.pop();
        }
    }
}

fn main() {
    let args = Args::parse();
    let header = "From Coq Require Import List NArith.\nFrom QV Require Import Model.DepQueue.\nImport ListNotations.\nOpen Scope N_scope.";
    let mut run = Run::new(
        &args.out,
        header,
        "list (N * acc) * list (list dep) * list dep",
        "failing None",
        1500,
    );
    let max = if args.thorough() { 7 } else { 5 };
    enumerate(&mut run, &mut Vec::new(), max);
    let exhaustive_cases = run.evaluations;
    // longer random sequences
    let mut rng = Rng::new(args.seed);
    let nrand = if args.thorough() { 20000 } else { 3000 };
    for _ in 0..nrand {
        let len = rng.range(6, 16);
        let mut seq = Vec::new();
        let mut n = 0usize;
        for _ in 0..len {
            if !seq.is_empty() && rng.chance(3, 4) {
                n += 1;
            }
            // mostly reads with occasional writes, or the reverse
            let k = if rng.chance(1, 2) { KINDS[rng.below(3)] } else { MemoryAccessType::Read };
            seq.push((n, k));
        }
        run_case(&mut run, &seq);
    }
    run.finish(
        "exhaustive: every (node, access) sequence up to the stated length where each access is R/W/C \
         and is performed by the same node as the previous access or the next node; plus seeded random \
         sequences of length 6..16. Distinct by the sequence; non-trivial = contains a conflicting \
         pair (one side a write/capture) on two different nodes.",
        true,
        serde_json::json!({"exhaustive_max_len": max, "exhaustive_cases": exhaustive_cases, "random_cases": nrand}),
    );
}
