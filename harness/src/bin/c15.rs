//! C15 — gate modifiers, daggers and program unitaries compose correctly.
//!
//! Gate cases: every modifier stack over {CONTROLLED, DAGGER, FORKED} up to depth 3 (thorough: 4)
//! over 1- and 2-qubit standard gates, built through the API (`Gate::dagger/controlled/forked`),
//! on several placements into n <= 5 qubits.  The real `Gate::to_unitary` is printed as sparse rows
//! of VALUE CLASSES (0, 1, and the distinct values of the specification's leaf matrices and their
//! conjugates) and its structure is decided exactly in Coq against the Quil semantics of the stack
//! (first modifier outermost) lifted with qubit 0 least significant, and against the literal model of
//! gate_matrix.  Numeric flags: U^dagger U = I (1e-10); `gate.dagger()` conjugate-transposes (1e-12).
//! Program cases: U(p) = product of the gates' unitaries in order, U(p.dagger()) = U(p)^dagger,
//! unitarity (1e-10).
#[path = "../unitary.rs"]
mod unitary;

use quil_rs::instruction::{Gate, GateError, GateModifier, Instruction};
use quil_rs::Program;
use qv::{Args, Rng, Run};
use std::str::FromStr;
use unitary::*;

#[derive(Clone, Copy, Debug, PartialEq)]
enum M {
    C,
    D,
    F,
}

fn stacks(depth: usize) -> Vec<Vec<M>> {
    let mut out: Vec<Vec<M>> = vec![vec![]];
    let mut frontier: Vec<Vec<M>> = vec![vec![]];
    for _ in 0..depth {
        let mut next = Vec::new();
        for s in &frontier {
            for m in [M::C, M::D, M::F] {
                let mut t = s.clone();
                t.push(m);
                next.push(t);
            }
        }
        out.extend(next.iter().cloned());
        frontier = next;
    }
    out
}

fn mods_coq(s: &[M]) -> String {
    format!(
        "[{}]",
        s.iter()
            .map(|m| match m {
                M::C => "MControlled",
                M::D => "MDagger",
                M::F => "MForked",
            })
            .collect::<Vec<_>>()
            .join("; ")
    )
}
fn mods_quil(s: &[M]) -> String {
    s.iter()
        .map(|m| match m {
            M::C => "CONTROLLED ",
            M::D => "DAGGER ",
            M::F => "FORKED ",
        })
        .collect()
}

/// Build the gate through the API: the stack is in Quil order (first = outermost), so the API calls
/// are made from the innermost modifier outwards.  `qubits` = modifier qubits (in stack order)
/// followed by the base gate's qubits; `params` = the final parameter list.
fn build_api(gi: &GateInfo, stack: &[M], qubits: &[u64], params: &[f64]) -> Gate {
    let nmod = stack.iter().filter(|m| **m != M::D).count();
    let base_q = &qubits[nmod..];
    let np = if gi.param { 1 } else { 0 };
    let mut g = make_gate(gi.name, &params[..np], base_q, vec![]);
    let mut used = np;
    let mut qi = nmod;
    for m in stack.iter().rev() {
        match m {
            M::D => g = g.dagger(),
            M::C => {
                qi -= 1;
                g = g.controlled(quil_rs::instruction::Qubit::Fixed(qubits[qi]));
            }
            M::F => {
                qi -= 1;
                let alt: Vec<_> = params[used..2 * used]
                    .iter()
                    .map(|t| quil_rs::expression::Expression::Number(C::new(*t, 0.0)))
                    .collect();
                used *= 2;
                g = g.forked(quil_rs::instruction::Qubit::Fixed(qubits[qi]), alt).expect("forked");
            }
        }
    }
    g
}

fn gate_text(gi_name: &str, stack: &[M], qubits: &[u64], params: &[f64]) -> String {
    let q = qubits.iter().map(|q| q.to_string()).collect::<Vec<_>>().join(" ");
    let p = if params.is_empty() {
        String::new()
    } else {
        format!("({})", params.iter().map(|t| format!("{t:?}")).collect::<Vec<_>>().join(", "))
    };
    format!("{}{}{} {}", mods_quil(stack), gi_name, p, q)
}

fn unitary_of(g: &Gate, n: u64) -> Result<Result<Mat, GateError>, String> {
    let mut g = g.clone(); // to_unitary consumes the modifiers of the gate it is called on
    qv::catch(std::panic::AssertUnwindSafe(move || g.to_unitary(n).map(|m| to_mat(&m))))
}

fn is_unitary(m: &Mat) -> bool {
    let p = matmul(&adjoint(m), m);
    max_diff(&p, &identity(m.len())) <= 1e-10
}

/// Value classes: 0 and 1 fixed, then the distinct values of the leaves and their conjugates.
struct Classes {
    vals: Vec<C>,
}
impl Classes {
    fn new() -> Self {
        Classes { vals: vec![C::new(0.0, 0.0), C::new(1.0, 0.0)] }
    }
    fn find(&self, v: C) -> Option<usize> {
        self.vals.iter().position(|x| (x - v).norm() < 1e-9)
    }
    fn intern(&mut self, v: C) -> usize {
        match self.find(v) {
            Some(i) => i,
            None => {
                self.vals.push(v);
                self.vals.len() - 1
            }
        }
    }
}

fn gerr_coq(e: &GateError) -> Option<String> {
    match e {
        GateError::ForkedGateOddNumParams { .. } => Some("ErrForkedOdd".into()),
        GateError::UndefinedGate { parameterized, .. } => Some(format!("(ErrUndefined {parameterized})")),
        GateError::MatrixArgumentLength { actual, .. } => Some(format!("(ErrArgLen {actual})")),
        _ => None,
    }
}

struct Ctx {
    run: Run,
    mutant: u32,
}

/// One gate case. `g` is the gate under test, described by (gi, stack, qubits, params).
fn gate_case(cx: &mut Ctx, gi: &GateInfo, stack: &[M], qubits: &[u64], params: &[f64], n: u64, g: &Gate) {
    let desc = format!("{} on {n} qubits", gate_text(gi.name, stack, qubits, params));
    let mixed = stack.contains(&M::C) && stack.contains(&M::F);
    let known = if mixed { Some("mixed-controlled-forked") } else { None };

    // distinct parameter values and the leaves' class matrices
    let mut distinct: Vec<f64> = Vec::new();
    let pidx: Vec<usize> = params
        .iter()
        .map(|t| match distinct.iter().position(|x| x == t) {
            Some(i) => i,
            None => {
                distinct.push(*t);
                distinct.len() - 1
            }
        })
        .collect();
    let sym = spec_table(gi.name);
    let mut classes = Classes::new();
    let mut leaves = Vec::new();
    let leaf_keys: Vec<Option<usize>> = if gi.param { (0..distinct.len()).map(Some).collect() } else { vec![None] };
    for key in &leaf_keys {
        let theta = key.map(|i| distinct[i]).unwrap_or(0.0);
        let m = eval_table(&sym, theta);
        let cm: Vec<String> = m
            .iter()
            .map(|row| format!("[{}]", row.iter().map(|v| classes.intern(*v).to_string()).collect::<Vec<_>>().join("; ")))
            .collect();
        for row in &m {
            for v in row {
                classes.intern(v.conj());
            }
        }
        let k = match key {
            Some(i) => format!("(Some {i})"),
            None => "None".into(),
        };
        leaves.push(format!("({k}, [{}])", cm.join("; ")));
    }
    let conjs: Vec<String> = (2..classes.vals.len())
        .map(|i| format!("({i}, {})", classes.find(classes.vals[i].conj()).unwrap_or(998)))
        .collect();

    // the implementation
    let obs = match unitary_of(g, n) {
        Err(p) => {
            cx.run.process_failure(&format!("Gate::to_unitary panicked: {p}"), &desc, None);
            return;
        }
        Ok(r) => r,
    };
    let mut unitary_flag = true;
    let mut dagger_flag = true;
    let obs_coq = match &obs {
        Err(e) => match gerr_coq(e) {
            Some(s) => format!("(ObsErr {s})"),
            None => {
                cx.run.process_failure(&format!("unexpected error: {e}"), &desc, None);
                return;
            }
        },
        Ok(m0) => {
            let mut m = m0.clone();
            let dim = 1usize << n;
            // emulated bugs (QV_MUTANT) acting on the observed matrix
            let nmod = stack.iter().filter(|x| **x != M::D).count();
            let first_of = |which: M| -> Option<u64> {
                let mut qi = 0;
                for x in stack {
                    if *x == which {
                        return Some(qubits[qi]);
                    }
                    if *x != M::D {
                        qi += 1;
                    }
                }
                None
            };
            let _ = nmod;
            let flip = |m: &Mat, q: u64| -> Mat {
                let b = 1usize << q;
                (0..dim).map(|r| (0..dim).map(|c| m[r ^ b][c ^ b]).collect()).collect()
            };
            if !mixed {
                if cx.mutant == 2 {
                    // CONTROLLED applies the gate when the control is 0
                    if let Some(q) = first_of(M::C) {
                        m = flip(&m, q);
                    }
                }
                if cx.mutant == 4 {
                    // FORKED halves swapped
                    if let Some(q) = first_of(M::F) {
                        m = flip(&m, q);
                    }
                }
            }
            unitary_flag = m.len() == dim && is_unitary(&m);
            // adding DAGGER through the API conjugate-transposes the unitary
            let gd = g.clone().dagger();
            dagger_flag = match unitary_of(&gd, n) {
                Ok(Ok(md)) => {
                    let md = if cx.mutant == 1 {
                        // emulated bug: transpose without conjugation
                        md.iter().map(|r| r.iter().map(|v| v.conj()).collect()).collect()
                    } else {
                        md
                    };
                    max_diff(&md, &adjoint(m0)) <= 1e-12
                }
                _ => false,
            };
            let mut rows = Vec::new();
            for r in 0..dim {
                let mut row = Vec::new();
                for c in 0..dim {
                    let v = m[r][c];
                    if v.norm() < 1e-12 {
                        continue;
                    }
                    row.push(format!("({c}, {})", classes.find(v).unwrap_or(998)));
                }
                rows.push(format!("[{}]", row.join("; ")));
            }
            format!("(ObsRows [{}])", rows.join("; "))
        }
    };
    let coq = format!(
        "(AGate (Case15 {} {} [{}] [{}] {n} [{}] [{}] {} {} {}))",
        gi.coq,
        mods_coq(stack),
        pidx.iter().map(|i| i.to_string()).collect::<Vec<_>>().join("; "),
        qubits.iter().map(|q| q.to_string()).collect::<Vec<_>>().join("; "),
        leaves.join("; "),
        conjs.join("; "),
        obs_coq,
        unitary_flag,
        dagger_flag
    );
    cx.run.count(&format!("depth={}", stack.len()));
    cx.run.count(if mixed { "stack=mixed" } else { "stack=homogeneous" });
    cx.run.count(&format!("gate={}", gi.name));
    cx.run.count(if obs.is_ok() { "result=unitary" } else { "result=error" });
    cx.run.case(coq, &desc, !stack.is_empty(), known);
}

fn random_placement(rng: &mut Rng, k: usize, n: u64) -> Vec<u64> {
    let mut pool: Vec<u64> = (0..n).collect();
    let mut out = Vec::new();
    for _ in 0..k {
        let i = rng.below(pool.len());
        out.push(pool.remove(i));
    }
    out
}

fn main() {
    let args = Args::parse();
    let header = "From Coq Require Import List NArith.\nFrom QV Require Import Model.Unitary Model.Modifiers.\nImport ListNotations.\nOpen Scope N_scope.";
    let run = Run::new(&args.out, header, "anycase15", "failing15", 100);
    let mutant: u32 = std::env::var("QV_MUTANT").ok().and_then(|s| s.parse().ok()).unwrap_or(0);
    let mut cx = Ctx { run, mutant };
    let mut rng = Rng::new(args.seed);
    let depth = if args.thorough() { 4 } else { 3 };
    let pool = [0.0, std::f64::consts::PI / 2.0, 1.0, -2.5, std::f64::consts::PI, 0.1, 7.5];
    let base_names = ["X", "H", "T", "RX", "RY", "RZ", "PHASE", "CNOT", "ISWAP", "CPHASE", "CPHASE01", "PSWAP"];
    let bases: Vec<GateInfo> = GATES.iter().filter(|g| base_names.contains(&g.name)).copied().collect();

    // (1) all stacks x base gates x placements
    let mut gate_cases = 0u64;
    for stack in stacks(depth) {
        let nmod = stack.iter().filter(|m| **m != M::D).count();
        let nfork = stack.iter().filter(|m| **m == M::F).count();
        for gi in &bases {
            let k = gi.arity + nmod;
            if k > 5 {
                continue;
            }
            let nparams = if gi.param { 1usize << nfork } else { 0 };
            let reps = if args.thorough() { 3 } else { 2 };
            for rep in 0..reps {
                let n = if rep == 0 { k as u64 } else { rng.range(k, 5) as u64 };
                let qubits: Vec<u64> = if rep == 0 { (0..k as u64).rev().collect() } else { random_placement(&mut rng, k, n) };
                // parameters: distinct values first, later repetitions allowed
                let params: Vec<f64> = (0..nparams)
                    .map(|i| if rep == 0 { pool[(i + 1) % pool.len()] } else { *rng.pick(&pool) })
                    .collect();
                let g = build_api(gi, &stack, &qubits, &params);
                // the API must have produced exactly the Quil-order gate
                let text = gate_text(gi.name, &stack, &qubits, &params);
                match Program::from_str(&text) {
                    Ok(p) => {
                        let same = match p.to_instructions().first() {
                            Some(Instruction::Gate(pg)) => {
                                pg.name == g.name
                                    && pg.modifiers == g.modifiers
                                    && pg.qubits == g.qubits
                                    && pg.parameters.len() == g.parameters.len()
                                    && match (unitary_of(pg, n), unitary_of(&g, n)) {
                                        (Ok(Ok(a)), Ok(Ok(b))) => max_diff(&a, &b) <= 1e-15,
                                        _ => false,
                                    }
                            }
                            _ => false,
                        };
                        if !same {
                            cx.run.process_failure("gate built through the API differs from the parsed Quil text", &text, None);
                        }
                    }
                    Err(e) => cx.run.process_failure(&format!("printed gate does not parse: {e}"), &text, None),
                }
                gate_case(&mut cx, gi, &stack, &qubits, &params, n, &g);
                gate_cases += 1;
            }
        }
    }

    // (2) error outcomes of gate_matrix (gates built directly)
    let rx = GATES.iter().find(|g| g.name == "RX").unwrap();
    let x = GATES.iter().find(|g| g.name == "X").unwrap();
    let err_cases: Vec<(&GateInfo, Vec<M>, Vec<u64>, Vec<f64>)> = vec![
        (rx, vec![M::F], vec![1, 0], vec![0.5]),                  // odd number of parameters
        (rx, vec![M::F, M::F], vec![2, 1, 0], vec![0.5, 1.0]),    // inner fork odd
        (rx, vec![M::D, M::F, M::C], vec![2, 1, 0], vec![0.5, 1.0, 0.1]),
        (rx, vec![], vec![0], vec![]),                            // parameterised gate without parameter
        (rx, vec![M::C], vec![1, 0], vec![]),
        (x, vec![], vec![0], vec![0.5]),                          // constant gate with a parameter
        (x, vec![M::D], vec![0], vec![0.5]),
        (rx, vec![], vec![0], vec![0.5, 1.0]),                    // two parameters, no fork
        (x, vec![M::C, M::D], vec![1, 0], vec![0.5, 1.0, 2.0]),
        (rx, vec![M::F], vec![1, 0], vec![0.5, 1.0, 0.1, 7.5]),   // fork leaves two parameters each
    ];
    for (gi, stack, qubits, params) in err_cases {
        let mods: Vec<GateModifier> = stack
            .iter()
            .map(|m| match m {
                M::C => GateModifier::Controlled,
                M::D => GateModifier::Dagger,
                M::F => GateModifier::Forked,
            })
            .collect();
        let g = make_gate(gi.name, &params, &qubits, mods);
        // these gates are deliberately ill-formed: bypass the wf check on the qubit count by
        // giving them the qubit count the model expects
        gate_case(&mut cx, gi, &stack, &qubits, &params, 3, &g);
    }

    // (3) programs
    let nprog = if args.thorough() { 1500 } else { 300 };
    let small_stacks = stacks(2);
    for _ in 0..nprog {
        let n = rng.range(1, 4) as u64;
        let len = rng.range(0, 6);
        let mut gates: Vec<Gate> = Vec::new();
        let mut text = Vec::new();
        for _ in 0..len {
            // pick a gate that fits
            for _attempt in 0..20 {
                let gi = *rng.pick(&bases);
                let stack = rng.pick(&small_stacks).clone();
                let nmod = stack.iter().filter(|m| **m != M::D).count();
                let nfork = stack.iter().filter(|m| **m == M::F).count();
                let k = gi.arity + nmod;
                if k as u64 > n {
                    continue;
                }
                let qubits = random_placement(&mut rng, k, n);
                let params: Vec<f64> = (0..if gi.param { 1usize << nfork } else { 0 }).map(|_| *rng.pick(&pool)).collect();
                gates.push(build_api(&gi, &stack, &qubits, &params));
                text.push(gate_text(gi.name, &stack, &qubits, &params));
                break;
            }
        }
        let desc = format!("program on {n} qubits: {}", text.join("; "));
        let mut p = Program::new();
        for g in &gates {
            p.add_instruction(Instruction::Gate(g.clone()));
        }
        let up = match qv::catch(std::panic::AssertUnwindSafe(|| p.to_unitary(n))) {
            Ok(Ok(m)) => to_mat(&m),
            other => {
                cx.run.process_failure(&format!("Program::to_unitary failed: {:?}", other.map(|r| r.map(|_| ()).map_err(|e| e.to_string()))), &desc, None);
                continue;
            }
        };
        // product of the gates' unitaries in order
        let dim = 1usize << n;
        let mut prod = identity(dim);
        let mut rev_prod = identity(dim);
        let mut ok = true;
        for g in &gates {
            match unitary_of(g, n) {
                Ok(Ok(u)) => {
                    prod = matmul(&u, &prod);
                    rev_prod = matmul(&rev_prod, &u);
                }
                _ => ok = false,
            }
        }
        if !ok {
            cx.run.process_failure("a gate of the program has no unitary", &desc, None);
            continue;
        }
        // emulated bug 3: the accumulator is multiplied on the wrong side
        let observed = if mutant == 3 { rev_prod.clone() } else { up.clone() };
        let product_flag = max_diff(&observed, &prod) <= 1e-10;
        let dagger_flag = match p.dagger() {
            Ok(pd) => match qv::catch(std::panic::AssertUnwindSafe(|| pd.to_unitary(n))) {
                Ok(Ok(m)) => max_diff(&to_mat(&m), &adjoint(&up)) <= 1e-10,
                _ => false,
            },
            Err(_) => false,
        };
        let unitary_flag = is_unitary(&up);
        cx.run.count(&format!("program-length={len}"));
        cx.run.case(
            format!("(AProg (PCase15 {len} {product_flag} {dagger_flag} {unitary_flag}))"),
            &desc,
            len >= 2,
            None,
        );
    }

    cx.run.finish(
        "exhaustive: every modifier stack over {CONTROLLED, DAGGER, FORKED} up to the stated depth x 12 base gates (X H T RX RY RZ PHASE CNOT ISWAP CPHASE CPHASE01 PSWAP) with arity + modifiers <= 5, \
         built through the API, on the canonical placement and seeded random placements/parameters; 10 ill-formed gates (error outcomes); seeded random gate-only programs of length <= 6 on <= 4 qubits. \
         Distinct by gate text and n; non-trivial = at least one modifier (gates) / at least two gates (programs).",
        false,
        serde_json::json!({"depth": depth, "gate_cases": gate_cases, "program_cases": nprog, "mutant": mutant}),
    );
}
