//! C17 — calibration expansion is a complete, faithful substitution.
//!
//! Real `Program::from_str` + `expand_calibrations()`, `expand_calibrations_with_source_map()` and
//! `Calibrations::expand` per body instruction; everything is abstracted into the AST of
//! `Model/CalExpandFull.v` and compared / checked inside Coq (`failing17`).
#[path = "../calgen.rs"]
mod calgen;

use calgen::{Interner, Map};
use qv::{gallina as g, Args, Rng, Run};
use quil_rs::instruction::{Instruction, MeasureCalibrationDefinition, Qubit};
use quil_rs::program::CalibrationSource;
use quil_rs::quil::Quil;
use quil_rs::Program;
use std::str::FromStr;

pub struct Obs {
    regions: Vec<String>,
    body: Vec<Instruction>,
}

fn mutant() -> u32 {
    std::env::var("QV_MUTANT").ok().and_then(|s| s.parse().ok()).unwrap_or(0)
}

fn observe(it: &mut Interner, p: &Program) -> Result<Obs, String> {
    let mut regions = Vec::new();
    for (name, r) in p.memory_regions.iter() {
        if r.sharing.is_some() {
            return Err("sharing".into());
        }
        let ty = match r.size.data_type {
            quil_rs::instruction::ScalarType::Bit => 0,
            quil_rs::instruction::ScalarType::Integer => 1,
            quil_rs::instruction::ScalarType::Octet => 2,
            quil_rs::instruction::ScalarType::Real => 3,
        };
        regions.push(format!("({}, ({}, {}))", it.id(&format!("region:{name}")), ty, r.size.length));
    }
    Ok(Obs { regions, body: p.body_instructions().cloned().collect() })
}

fn obs_lit(it: &mut Interner, o: &Obs) -> Result<String, String> {
    Ok(format!("{{| regions := {}; body := {} |}}", g::list(&o.regions), it.instrs(o.body.iter())?))
}

fn set_first_qubit_var(i: &mut Instruction) -> bool {
    let v = Qubit::Variable("q".to_string());
    match i {
        Instruction::SetPhase(s) if !s.frame.qubits.is_empty() => s.frame.qubits[0] = v,
        Instruction::ShiftPhase(s) if !s.frame.qubits.is_empty() => s.frame.qubits[0] = v,
        Instruction::Pulse(s) if !s.frame.qubits.is_empty() => s.frame.qubits[0] = v,
        Instruction::Delay(s) if !s.qubits.is_empty() => s.qubits[0] = v,
        _ => return false,
    }
    true
}

/// QV_MUTANT perturbs the *observed* output (emulating realistic bugs in the Rust code).
fn mutate(o1: &mut Obs, o2: &mut Obs, expanded: bool) {
    match mutant() {
        // 1: expansions appended in the wrong order (swap the first two differing output instructions)
        1 => {
            for o in [o1, o2] {
                if expanded && o.body.len() >= 2 && o.body[0] != o.body[1] {
                    o.body.swap(0, 1);
                }
            }
        }
        // 2: a dropped substitution arm: the qubit of the first SET-PHASE/SHIFT-PHASE/PULSE/DELAY of
        //    an expanded program is left as the calibration's variable
        2 => {
            if expanded {
                for o in [o1, o2] {
                    for i in o.body.iter_mut() {
                        if set_first_qubit_var(i) {
                            break;
                        }
                    }
                }
            }
        }
        // 3: the source-map code path forgets to hoist: a DECLARE emitted by an expansion stays in the body
        3 => {
            if o2.regions.len() > o1.regions.len().min(2) && expanded {
                o2.body.push(Instruction::Declaration(quil_rs::instruction::Declaration::new(
                    "mem".to_string(),
                    quil_rs::instruction::Vector::new(quil_rs::instruction::ScalarType::Bit, 1),
                    None,
                )));
            }
        }
        _ => {}
    }
}

/// measurement calibration that uses its formal target name outside a CAPTURE target or the whole
/// LOAD-MEMORY pragma text (Coq: Known_measure_target_uses)
fn measure_target_uses_class(c: &MeasureCalibrationDefinition) -> bool {
    let Some(f) = c.identifier.target.as_ref() else { return false };
    let in_expr = |e: &quil_rs::expression::Expression| e.to_quil_or_debug().contains(&format!("{f}["));
    c.instructions.iter().any(|i| {
        let mut hit = false;
        let mut ic = i.clone();
        ic.apply_to_expressions(|e| hit |= in_expr(e));
        hit || match i {
            Instruction::RawCapture(r) => &r.memory_reference.name == f,
            Instruction::Move(m) => {
                &m.destination.name == f
                    || matches!(&m.source, quil_rs::instruction::ArithmeticOperand::MemoryReference(r) if &r.name == f)
            }
            Instruction::Load(l) => &l.destination.name == f || &l.source == f || &l.offset.name == f,
            Instruction::Measurement(m) => m.target.as_ref().map(|t| &t.name == f).unwrap_or(false),
            Instruction::Pragma(p) => {
                p.name == "LOAD-MEMORY" && p.data.as_ref().map(|d| d.starts_with(&format!("{f}[")) && d.ends_with(']')).unwrap_or(false)
            }
            _ => false,
        }
    })
}

struct Classes {
    measure_target_uses: bool,
}

fn classes(p: &Program, map: Option<&Map>) -> Classes {
    let mut used = Vec::new();
    let all = map.is_none();
    if let Some(m) = map {
        calgen::used_sources(m, &mut used);
    }
    let mut c = Classes { measure_target_uses: false };
    for cal in p.calibrations.iter_measure_calibrations() {
        if all || used.contains(&CalibrationSource::MeasureCalibration(cal.identifier.clone())) {
            c.measure_target_uses |= measure_target_uses_class(cal);
        }
    }
    c
}

fn res_lit<T>(it: &mut Interner, r: &Result<T, quil_rs::program::ProgramError>, ok: impl FnOnce(&mut Interner, &T) -> Result<String, String>) -> Result<String, String> {
    match r {
        Ok(v) => Ok(format!("(OOk {})", ok(it, v)?)),
        Err(quil_rs::program::ProgramError::RecursiveCalibration(i)) => Ok(format!("(OErr ({}))", it.instr(i)?)),
        Err(e) => Err(format!("unexpected error {e}")),
    }
}

fn run_case(run: &mut Run, text: &str, verbose: bool) {
    let p = match Program::from_str(text) {
        Ok(p) => p,
        Err(e) => {
            eprintln!("generator produced unparseable text:\n{text}\n{e}");
            std::process::exit(3)
        }
    };
    let r1 = match qv::catch(|| p.expand_calibrations()) {
        Ok(r) => r,
        Err(m) => {
            run.process_failure(&format!("expand_calibrations panicked: {m}"), text, None);
            return;
        }
    };
    let r2 = match qv::catch(|| p.expand_calibrations_with_source_map()) {
        Ok(r) => r,
        Err(m) => {
            run.process_failure(&format!("expand_calibrations_with_source_map panicked: {m}"), text, None);
            return;
        }
    };
    let singles: Vec<_> = p.body_instructions().map(|i| p.calibrations.expand(i, &[])).collect();
    let mut it = Interner::new();
    let lit = (|| -> Result<(String, bool), String> {
        let cs = it.cals(&p)?;
        let pr = it.program(&p)?;
        let expanded = singles.iter().any(|s| matches!(s, Ok(Some(_))));
        let (l1, l2) = match (&r1, &r2) {
            (Ok(p1), Ok((p2, _))) => {
                let mut o1 = observe(&mut it, p1)?;
                let mut o2 = observe(&mut it, p2)?;
                mutate(&mut o1, &mut o2, expanded);
                (format!("(OOk {})", obs_lit(&mut it, &o1)?), format!("(OOk {})", obs_lit(&mut it, &o2)?))
            }
            _ => (
                res_lit(&mut it, &r1, |it, p1| it.program(p1))?,
                res_lit(&mut it, &r2, |it, (p2, _)| it.program(p2))?,
            ),
        };
        let mut sl = Vec::new();
        for s in &singles {
            sl.push(res_lit(&mut it, s, |it, o| {
                Ok(match o {
                    Some(v) => format!("(Some {})", it.instrs(v.iter())?),
                    None => "None".to_string(),
                })
            })?);
        }
        let l2 = if l1 == l2 { "None".to_string() } else { format!("(Some {l2})") };
        Ok((format!("{cs}, {pr}, ({l1}, {l2}, {})", g::list(&sl)), expanded))
    })();
    let (lit, expanded) = match lit {
        Ok(x) => x,
        Err(e) => {
            run.count(&format!("skipped-unsupported: {}", e.split(' ').next().unwrap_or("")));
            return;
        }
    };
    let cl = classes(&p, r2.as_ref().ok().map(|(_, m)| m));
    run.count(match (&r1, expanded) {
        (Err(_), _) => "outcome=recursive-error",
        (Ok(_), true) => "outcome=expanded",
        (Ok(_), false) => "outcome=nothing-matched",
    });
    let hoists = singles.iter().any(|s| matches!(s, Ok(Some(v)) if v.iter().any(|i| matches!(i, Instruction::Declaration(_)))));
    if hoists {
        run.count("expansion-emits-declare");
    }
    let nested = match &r2 {
        Ok((_, m)) => m.entries().iter().any(|e| match e.target_location() {
            quil_rs::program::ExpansionResult::Rewritten(x) => x.expansions().entries().iter().any(|n| matches!(n.target_location(), quil_rs::program::ExpansionResult::Rewritten(_))),
            _ => false,
        }),
        _ => false,
    };
    if nested {
        run.count("nested-expansion");
    }
    if verbose {
        println!("--- input\n{text}");
        match &r1 {
            Ok(p1) => println!("--- expand_calibrations\n{}", p1.to_quil_or_debug()),
            Err(e) => println!("--- expand_calibrations error: {e}"),
        }
        match &r2 {
            Ok((p2, m)) => println!("--- with source map\n{}\n{m:#?}", p2.to_quil_or_debug()),
            Err(e) => println!("--- with source map error: {e}"),
        }
        println!("--- Coq case (mode 0)\n(0, {lit})");
        println!("class measure-calibration-target-uses: {}", cl.measure_target_uses);
    }
    let desc = text.to_string();
    if cl.measure_target_uses {
        // the model follows the code here: correspondence is still demanded, the property check
        // alone is attributed to the known finding
        run.case(format!("(1, {lit})"), &desc, expanded, None);
        run.case(format!("(2, {lit})"), &format!("{desc}# property-only"), false, Some("measure-calibration-target-uses"));
    } else {
        run.case(format!("(0, {lit})"), &desc, expanded, None);
    }
}

fn main() {
    let args = Args::parse();
    let header = "From Coq Require Import List NArith ZArith.\nFrom QV Require Import Model.CalExpandFull.\nImport ListNotations.\nOpen Scope N_scope.";
    if let Some(desc) = &args.replay {
        let text = desc.replace("\\n", "\n").replace("# property-only", "");
        let dir = std::env::temp_dir().join("qv-c17-replay");
        let mut run = Run::new(&dir, header, "c17_case", "failing17", 400);
        run_case(&mut run, &text, true);
        return;
    }
    let mut run = Run::new(&args.out, header, "c17_case", "failing17", 400);
    for t in calgen::CORPUS {
        run_case(&mut run, t, false);
    }
    let corpus = run.evaluations;
    // quick tier: every body of length 1 and every 4th body of length 2; thorough: all of them
    let stride = if args.thorough() { 1 } else { 4 };
    let mut k = 0usize;
    calgen::exhaustive(2, |t, len| {
        k += 1;
        if len == 1 || k % stride == 0 {
            run_case(&mut run, t, false)
        }
    });
    calgen::exhaustive_params(|t| run_case(&mut run, t, false));
    let exhaustive_cases = run.evaluations - corpus;
    let mut rng = Rng::new(args.seed);
    let nrand = if args.thorough() { 30000 } else { 2000 };
    for _ in 0..nrand {
        let t = calgen::random_program(&mut rng);
        run_case(&mut run, &t, false);
    }
    let nchain = if args.thorough() { 6000 } else { 500 };
    let mut rng2 = Rng::new(args.seed ^ 0x17c);
    for _ in 0..nchain {
        let t = calgen::chain_program(&mut rng2);
        run_case(&mut run, &t, false);
    }
    run.finish(
        "corpus (pinned quil-rs source-map test, known-class witnesses); exhaustive: one calibration (4 gate heads x every body of 1..2 instructions over a 14-instruction pool, resp. 4 MEASURE heads x bodies over a 12-instruction pool) next to fixed helper calibrations, applied to 4 programs each; random: 1..5 calibrations over gate names A,B,C and MEASURE (fixed/variable qubits, 0..1 parameters incl. %t, constants, pi; nested calls, DECLAREs, captures into the formal target and other regions, unbound variables) and 1..5 body instructions. Termination discipline of the generator: an argument that grows (%t+1, 2*%t, -%t) is only passed to a strictly later gate name and a parameter-dependent argument never to an earlier one. Multi-parameter exhaustive scope: calibrations U and V of arity 2 and 3 with every literal/variable pattern (distinct variable names, literal i+1 at position i), bodies using every variable in a frame instruction, an unmatched gate and a nested call passing the parameters in reverse order, applied to pairwise distinct arguments in matching and rotated order; the random stream also uses 0..3 parameters with mixed patterns. Chains: seeded chains of nested calibrations A -> B -> C -> MEASURE of depth 2..4 with leaf instructions around the nested calls and an optional DECLARE at a random level. Distinct by program text; non-trivial = at least one body instruction has a matching calibration.",
        true,
        serde_json::json!({"corpus": corpus, "exhaustive_cases": exhaustive_cases, "random_cases": nrand, "chain_cases": nchain, "mutant": mutant()}),
    );
}
