//! C30 — type checking is per-instruction and follows the typing rules.
//!
//! Programs are generated abstractly, rendered to Quil text, parsed by `Program::from_str`, and the
//! REAL parsed AST (declarations + body instructions) is what gets translated to the Coq model's
//! input.  Observations on the real `type_check`: the whole program, every instruction alone, a
//! permutation, the doubled program, and a consistently renamed program (re-rendered and re-parsed).
use qv::{gallina as g, Args, Rng, Run};
use quil_rs::expression::{
    Expression, ExpressionFunction, FunctionCallExpression, InfixExpression, InfixOperator,
    PrefixExpression, PrefixOperator,
};
use quil_rs::instruction::{
    ArithmeticOperand, ArithmeticOperator, BinaryOperand, BinaryOperator, ComparisonOperand,
    ComparisonOperator, Declaration, Instruction, MemoryReference, ScalarType, UnaryOperator,
};
use quil_rs::program::type_check::{type_check, TypeError};
use quil_rs::Program;
use std::collections::HashMap;
use std::str::FromStr;

// ---------------------------------------------------------------------------------------------
// abstract programs (generator side)

const NNAMES: usize = 5;
const BASE_NAMES: [&str; NNAMES] = ["rr", "nn", "bb", "oo", "uu"];
const TYPES: [&str; 4] = ["REAL", "INTEGER", "BIT", "OCTET"];

#[derive(Clone, Debug)]
enum GE {
    Lit(&'static str), // number literal text, `pi`, `i`
    Var(&'static str),
    Addr(usize, Option<u64>),
    Call(&'static str, Box<GE>),
    Neg(Box<GE>),
    Infix(&'static str, Box<GE>, Box<GE>),
}

#[derive(Clone, Debug)]
enum GOp {
    Lit(&'static str),
    Ref(usize, Option<u64>),
}

#[derive(Clone, Debug)]
enum GI {
    Set(&'static str, GE),
    Arith(&'static str, (usize, Option<u64>), GOp),
    Cmp(&'static str, (usize, Option<u64>), (usize, Option<u64>), GOp),
    Bin(&'static str, (usize, Option<u64>), GOp),
    Un(&'static str, (usize, Option<u64>)),
    Move((usize, Option<u64>), GOp),
    Exchange((usize, Option<u64>), (usize, Option<u64>)),
    Load((usize, Option<u64>), usize, (usize, Option<u64>)),
    Store(usize, (usize, Option<u64>), GOp),
    /// ignored by the checker; `{0}`..`{4}` are replaced by region names
    Other(&'static str),
}

/// declarations: for each of the first four names, Some((type index, length)) or None
type GD = [Option<(usize, u64)>; 4];

fn r_ref(names: &[String], r: &(usize, Option<u64>)) -> String {
    match r.1 {
        None => names[r.0].clone(),
        Some(i) => format!("{}[{}]", names[r.0], i),
    }
}
fn r_op(names: &[String], o: &GOp) -> String {
    match o {
        GOp::Lit(s) => s.to_string(),
        GOp::Ref(n, i) => r_ref(names, &(*n, *i)),
    }
}
fn r_expr(names: &[String], e: &GE) -> String {
    match e {
        GE::Lit(s) => s.to_string(),
        GE::Var(v) => format!("%{v}"),
        GE::Addr(n, i) => r_ref(names, &(*n, *i)),
        GE::Call(f, a) => format!("{f}({})", r_expr(names, a)),
        GE::Neg(a) => format!("(-{})", r_expr(names, a)),
        GE::Infix(o, a, b) => format!("({} {o} {})", r_expr(names, a), r_expr(names, b)),
    }
}
fn r_instr(names: &[String], i: &GI) -> String {
    match i {
        GI::Set(k, e) => format!("{k} 0 \"xy\" {}", r_expr(names, e)),
        GI::Arith(o, d, s) => format!("{o} {} {}", r_ref(names, d), r_op(names, s)),
        GI::Cmp(o, d, l, r) => {
            format!("{o} {} {} {}", r_ref(names, d), r_ref(names, l), r_op(names, r))
        }
        GI::Bin(o, d, s) => format!("{o} {} {}", r_ref(names, d), r_op(names, s)),
        GI::Un(o, r) => format!("{o} {}", r_ref(names, r)),
        GI::Move(d, s) => format!("MOVE {} {}", r_ref(names, d), r_op(names, s)),
        GI::Exchange(l, r) => format!("EXCHANGE {} {}", r_ref(names, l), r_ref(names, r)),
        GI::Load(d, s, o) => format!("LOAD {} {} {}", r_ref(names, d), names[*s], r_ref(names, o)),
        GI::Store(d, o, s) => format!("STORE {} {} {}", names[*d], r_ref(names, o), r_op(names, s)),
        GI::Other(t) => {
            let mut s = t.to_string();
            for (k, n) in names.iter().enumerate() {
                s = s.replace(&format!("{{{k}}}"), n);
            }
            s
        }
    }
}
fn render(names: &[String], d: &GD, is: &[GI]) -> String {
    let mut s = String::new();
    for (k, decl) in d.iter().enumerate() {
        if let Some((t, len)) = decl {
            if *len == 1 {
                s.push_str(&format!("DECLARE {} {}\n", names[k], TYPES[*t]));
            } else {
                s.push_str(&format!("DECLARE {} {}[{}]\n", names[k], TYPES[*t], len));
            }
        }
    }
    for i in is {
        s.push_str(&r_instr(names, i));
        s.push('\n');
    }
    s
}

// ---------------------------------------------------------------------------------------------
// real AST -> Coq

struct Interner {
    map: HashMap<String, u64>,
    next_unknown: u64,
}
impl Interner {
    fn new(names: &[String], ids: &[u64]) -> Self {
        let mut map = HashMap::new();
        for (n, i) in names.iter().zip(ids) {
            map.insert(n.clone(), *i);
        }
        Interner { map, next_unknown: 900 }
    }
    fn get(&mut self, s: &str) -> u64 {
        if let Some(v) = self.map.get(s) {
            return *v;
        }
        let v = self.next_unknown;
        self.next_unknown += 1;
        self.map.insert(s.to_string(), v);
        v
    }
}

fn c_sty(t: ScalarType) -> &'static str {
    match t {
        ScalarType::Bit => "TBit",
        ScalarType::Octet => "TOctet",
        ScalarType::Integer => "TInteger",
        ScalarType::Real => "TReal",
    }
}
fn c_ref(it: &mut Interner, r: &MemoryReference) -> String {
    format!("({}, {})", it.get(&r.name), r.index)
}
fn c_imcls(im: f64) -> &'static str {
    if im.is_nan() {
        "ImNaN"
    } else if im == 0.0 {
        "ImZero"
    } else if im.abs() <= f64::EPSILON {
        "ImTiny"
    } else {
        "ImBig"
    }
}
fn c_expr(it: &mut Interner, e: &Expression) -> String {
    match e {
        Expression::Address(r) => format!("(EAddr {} {})", it.get(&r.name), r.index),
        Expression::FunctionCall(FunctionCallExpression { function, expression }) => {
            let f = match function {
                ExpressionFunction::Cis => "FCis",
                ExpressionFunction::Cosine => "FCos",
                ExpressionFunction::Exponent => "FExp",
                ExpressionFunction::Sine => "FSin",
                ExpressionFunction::SquareRoot => "FSqrt",
            };
            format!("(ECall {f} {})", c_expr(it, expression))
        }
        Expression::Infix(InfixExpression { left, operator, right }) => {
            let o = match operator {
                InfixOperator::Caret => "XCaret",
                InfixOperator::Plus => "XPlus",
                InfixOperator::Minus => "XMinus",
                InfixOperator::Slash => "XSlash",
                InfixOperator::Star => "XStar",
            };
            format!("(EInfix {o} {} {})", c_expr(it, left), c_expr(it, right))
        }
        Expression::Number(c) => format!("(ENum {})", c_imcls(c.im)),
        Expression::PiConstant() => "EPi".to_string(),
        Expression::Prefix(PrefixExpression { operator, expression }) => {
            let p = match operator {
                PrefixOperator::Plus => "PPlus",
                PrefixOperator::Minus => "PMinus",
            };
            format!("(EPrefix {p} {})", c_expr(it, expression))
        }
        Expression::Variable(v) => format!("(EVar {})", qv::fnv1a(v) % 1000),
    }
}
/// known-finding class `tiny-imaginary-accepted`: a number literal that is not real but passes the
/// tolerance test of should_be_real (0 < |im| <= f64::EPSILON, or NaN)
fn has_inexact(e: &Expression) -> bool {
    match e {
        Expression::Number(c) => c.im.is_nan() || (c.im != 0.0 && c.im.abs() <= f64::EPSILON),
        Expression::FunctionCall(f) => has_inexact(&f.expression),
        Expression::Prefix(p) => has_inexact(&p.expression),
        Expression::Infix(i) => has_inexact(&i.left) || has_inexact(&i.right),
        _ => false,
    }
}
fn expr_depth(e: &Expression) -> usize {
    match e {
        Expression::FunctionCall(f) => 1 + expr_depth(&f.expression),
        Expression::Prefix(p) => 1 + expr_depth(&p.expression),
        Expression::Infix(i) => 1 + expr_depth(&i.left).max(expr_depth(&i.right)),
        _ => 0,
    }
}
fn c_aop(it: &mut Interner, o: &ArithmeticOperand) -> String {
    match o {
        ArithmeticOperand::LiteralInteger(_) => "OInt".into(),
        ArithmeticOperand::LiteralReal(_) => "OReal".into(),
        ArithmeticOperand::MemoryReference(r) => format!("(ORef {})", c_ref(it, r)),
    }
}
fn c_cop(it: &mut Interner, o: &ComparisonOperand) -> String {
    match o {
        ComparisonOperand::LiteralInteger(_) => "OInt".into(),
        ComparisonOperand::LiteralReal(_) => "OReal".into(),
        ComparisonOperand::MemoryReference(r) => format!("(ORef {})", c_ref(it, r)),
    }
}
/// (Coq literal, kind label, is a kind the checker handles, expression depth if SET-like)
fn c_instr(it: &mut Interner, i: &Instruction) -> (String, &'static str, bool, usize) {
    match i {
        Instruction::SetFrequency(x) => {
            (format!("ISet KSetFrequency {}", c_expr(it, &x.frequency)), "set", true, expr_depth(&x.frequency))
        }
        Instruction::SetPhase(x) => {
            (format!("ISet KSetPhase {}", c_expr(it, &x.phase)), "set", true, expr_depth(&x.phase))
        }
        Instruction::SetScale(x) => {
            (format!("ISet KSetScale {}", c_expr(it, &x.scale)), "set", true, expr_depth(&x.scale))
        }
        Instruction::ShiftFrequency(x) => (
            format!("ISet KShiftFrequency {}", c_expr(it, &x.frequency)),
            "set",
            true,
            expr_depth(&x.frequency),
        ),
        Instruction::ShiftPhase(x) => {
            (format!("ISet KShiftPhase {}", c_expr(it, &x.phase)), "set", true, expr_depth(&x.phase))
        }
        Instruction::Arithmetic(a) => {
            let o = match a.operator {
                ArithmeticOperator::Add => "AAdd",
                ArithmeticOperator::Subtract => "ASub",
                ArithmeticOperator::Divide => "ADiv",
                ArithmeticOperator::Multiply => "AMul",
            };
            (format!("IArith {o} {} {}", c_ref(it, &a.destination), c_aop(it, &a.source)), "arith", true, 0)
        }
        Instruction::Comparison(c) => {
            let o = match c.operator {
                ComparisonOperator::Equal => "CEq",
                ComparisonOperator::GreaterThanOrEqual => "CGe",
                ComparisonOperator::GreaterThan => "CGt",
                ComparisonOperator::LessThanOrEqual => "CLe",
                ComparisonOperator::LessThan => "CLt",
            };
            (
                format!("ICmp {o} {} {} {}", c_ref(it, &c.destination), c_ref(it, &c.lhs), c_cop(it, &c.rhs)),
                "cmp",
                true,
                0,
            )
        }
        Instruction::BinaryLogic(b) => {
            let o = match b.operator {
                BinaryOperator::And => "BAnd",
                BinaryOperator::Ior => "BIor",
                BinaryOperator::Xor => "BXor",
                BinaryOperator::Shl => "BShl",
                BinaryOperator::Shr => "BShr",
                BinaryOperator::Ashr => "BAshr",
            };
            let s = match &b.source {
                BinaryOperand::LiteralInteger(_) => "BInt".to_string(),
                BinaryOperand::MemoryReference(r) => format!("(BRef {})", c_ref(it, r)),
            };
            (format!("IBin {o} {} {s}", c_ref(it, &b.destination)), "bin", true, 0)
        }
        Instruction::UnaryLogic(u) => {
            let o = match u.operator {
                UnaryOperator::Neg => "UNeg",
                UnaryOperator::Not => "UNot",
            };
            (format!("IUn {o} {}", c_ref(it, &u.operand)), "un", true, 0)
        }
        Instruction::Move(m) => {
            (format!("IMove {} {}", c_ref(it, &m.destination), c_aop(it, &m.source)), "move", true, 0)
        }
        Instruction::Exchange(x) => {
            (format!("IExchange {} {}", c_ref(it, &x.left), c_ref(it, &x.right)), "exchange", true, 0)
        }
        Instruction::Load(l) => (
            format!("ILoad {} {} {}", c_ref(it, &l.destination), it.get(&l.source), c_ref(it, &l.offset)),
            "load",
            true,
            0,
        ),
        Instruction::Store(s) => (
            format!("IStore {} {} {}", it.get(&s.destination), c_ref(it, &s.offset), c_aop(it, &s.source)),
            "store",
            true,
            0,
        ),
        _ => ("IOther 0 []".to_string(), "other", false, 0),
    }
}

fn undef_name(reference: &str) -> String {
    if let Some(p) = reference.find("name: \"") {
        let rest = &reference[p + 7..];
        rest[..rest.find('"').unwrap_or(rest.len())].to_string()
    } else {
        reference.trim_matches('"').to_string()
    }
}

/// observed verdict, abstracted: None = Ok
#[derive(Clone, Debug, PartialEq)]
enum V {
    Ok,
    Undef(String),
    Mismatch,
    RealReq,
    Operand,
}
fn observe(p: &Program) -> V {
    match type_check(p) {
        Ok(()) => V::Ok,
        Err(TypeError::UndefinedMemoryReference { reference, .. }) => V::Undef(undef_name(&reference)),
        Err(TypeError::DataTypeMismatch { .. }) => V::Mismatch,
        Err(TypeError::RealValueRequired { .. }) => V::RealReq,
        Err(TypeError::OperatorOperandMismatch { .. }) => V::Operand,
    }
}
fn c_verdict(it: &mut Interner, v: &V) -> String {
    match v {
        V::Ok => "Ok".into(),
        V::Undef(n) => format!("(Err (ErrUndef {}))", it.get(n)),
        V::Mismatch => "(Err ErrMismatch)".into(),
        V::RealReq => "(Err ErrRealReq)".into(),
        V::Operand => "(Err ErrOperand)".into(),
    }
}
fn vkind(v: &V) -> &'static str {
    match v {
        V::Ok => "ok",
        V::Undef(_) => "undef",
        V::Mismatch => "mismatch",
        V::RealReq => "realreq",
        V::Operand => "operand",
    }
}

/// A program with the declarations of `p` and the given body.
fn with_body(p: &Program, body: &[Instruction]) -> Program {
    let mut q = Program::new();
    for (name, region) in &p.memory_regions {
        q.add_instruction(Instruction::Declaration(Declaration::new(
            name.clone(),
            region.size.clone(),
            region.sharing.clone(),
        )));
    }
    for i in body {
        q.add_instruction(i.clone());
    }
    q
}

// --- exotic leaves that the parser cannot produce (built through the public AST constructors) ---
// marker numbers in the text are replaced after parsing:
//   770  -> a number with NaN imaginary part
//   771  -> a number with the smallest positive subnormal imaginary part
//   772  -> imaginary part exactly f64::EPSILON (accepted), 773 -> next float above EPSILON (rejected)
//   -(774) at a prefix -> unary PLUS applied to 774
/// numbers only constructible through the AST (the parser yields `-2i` as a prefix expression and
/// `1-2i` as an infix one, never a literal with a negative / NaN / infinite imaginary part):
/// every sign and size class of the imaginary part.  The rule of should_be_real is on |im|.
fn marker_number(re: f64) -> Option<(f64, f64)> {
    let eps = f64::EPSILON;
    let above = f64::from_bits(eps.to_bits() + 1);
    Some(match re as i64 {
        _ if re.fract() != 0.0 => return None,
        770 => (1.0, f64::NAN),
        771 => (1.0, f64::from_bits(1)),
        772 => (0.0, -eps),
        773 => (0.0, above),
        775 => (1.0, -1.0),
        776 => (0.0, -2.5),
        777 => (3.0, -1e300),
        778 => (0.0, -3e-16),
        779 => (1.0, -2.3e-16),
        780 => (0.0, -above),
        781 => (1.0, -2.2e-16),
        782 => (0.0, -1e-17),
        783 => (1.0, -0.0),
        784 => (1.0, f64::INFINITY),
        785 => (0.0, f64::NEG_INFINITY),
        786 => (2.0, 1e300),
        787 => (1.0, eps),
        788 => (-1.0, -f64::from_bits(1)),
        789 => (f64::NAN, 0.0),
        790 => (f64::INFINITY, -1.0),
        _ => return None,
    })
}
fn exotic_expr(e: &Expression) -> Expression {
    match e {
        Expression::Number(c) if c.im == 0.0 && marker_number(c.re).is_some() => {
            let (re, im) = marker_number(c.re).unwrap();
            Expression::Number(num_complex::Complex64::new(re, im))
        }
        Expression::FunctionCall(f) => Expression::FunctionCall(FunctionCallExpression::new(
            f.function,
            exotic_expr(&f.expression).into(),
        )),
        Expression::Prefix(p) => {
            let inner = exotic_expr(&p.expression);
            let op = match &inner {
                Expression::Number(c) if c.re == 774.0 => PrefixOperator::Plus,
                _ => p.operator,
            };
            Expression::Prefix(PrefixExpression::new(op, inner.into()))
        }
        Expression::Infix(i) => Expression::Infix(InfixExpression::new(
            exotic_expr(&i.left).into(),
            i.operator,
            exotic_expr(&i.right).into(),
        )),
        other => other.clone(),
    }
}
fn exotic_instr(i: &Instruction) -> Instruction {
    let mut i = i.clone();
    match &mut i {
        Instruction::SetFrequency(x) => x.frequency = exotic_expr(&x.frequency),
        Instruction::SetPhase(x) => x.phase = exotic_expr(&x.phase),
        Instruction::SetScale(x) => x.scale = exotic_expr(&x.scale),
        Instruction::ShiftFrequency(x) => x.frequency = exotic_expr(&x.frequency),
        Instruction::ShiftPhase(x) => x.phase = exotic_expr(&x.phase),
        _ => {}
    }
    i
}
fn load(text: &str) -> Program {
    let p = Program::from_str(text).unwrap_or_else(|e| panic!("generator produced unparsable Quil:\n{text}\n{e}"));
    let body: Vec<Instruction> = p.body_instructions().map(exotic_instr).collect();
    with_body(&p, &body)
}

fn first_err(vs: &[V]) -> V {
    vs.iter().find(|v| **v != V::Ok).cloned().unwrap_or(V::Ok)
}

struct Ctx {
    mutant: u32,
}

fn run_case(run: &mut Run, ctx: &Ctx, rng: &mut Rng, d: &GD, is: &[GI], tag: &str) {
    let names: Vec<String> = BASE_NAMES.iter().map(|s| s.to_string()).collect();
    let text = render(&names, d, is);
    run_text(run, ctx, rng, &text, Some((d, is)), tag, false);
}

/// `gen` = abstract program for the renamed re-rendering (None in replay mode: renaming skipped)
fn run_text(run: &mut Run, ctx: &Ctx, rng: &mut Rng, text: &str, gen: Option<(&GD, &[GI])>, tag: &str, verbose: bool) {
    let names: Vec<String> = BASE_NAMES.iter().map(|s| s.to_string()).collect();
    let ids: Vec<u64> = (0..NNAMES as u64).collect();
    let p = load(text);
    let body: Vec<Instruction> = p.body_instructions().cloned().collect();
    let n = body.len();

    // observations on the real checker
    let mut singles: Vec<V> = body.iter().map(|i| observe(&with_body(&p, std::slice::from_ref(i)))).collect();
    // a permutation of the positions
    let mut perm: Vec<usize> = (0..n).collect();
    match rng.below(3) {
        0 => perm.reverse(),
        1 => {
            if n > 0 {
                perm.rotate_left(rng.below(n));
            }
        }
        _ => {
            for k in (1..n).rev() {
                perm.swap(k, rng.below(k + 1));
            }
        }
    }
    let permuted: Vec<Instruction> = perm.iter().map(|k| body[*k].clone()).collect();
    let mut doubled = body.clone();
    doubled.extend(body.iter().cloned());
    let mut whole = observe(&p);
    let mut permv = observe(&with_body(&p, &permuted));
    let mut dupv = observe(&with_body(&p, &doubled));

    // renaming: a permutation of the five names, or fresh names
    let (rnames, rids): (Vec<String>, Vec<u64>) = if rng.chance(1, 2) {
        let mut idx: Vec<usize> = (0..NNAMES).collect();
        for k in (1..NNAMES).rev() {
            idx.swap(k, rng.below(k + 1));
        }
        (idx.iter().map(|k| names[*k].clone()).collect(), idx.iter().map(|k| *k as u64).collect())
    } else {
        let fresh = ["alpha", "beta_2", "gam-ma", "d", "eps"];
        (fresh.iter().map(|s| s.to_string()).collect(), (10..10 + NNAMES as u64).collect())
    };
    let mut renv = match gen {
        Some((d, is)) => observe(&load(&render(&rnames, d, is))),
        None => whole.clone(),
    };

    // ---- mutants: perturb the OBSERVED behaviour, emulating bugs in type_check.rs ----
    match ctx.mutant {
        1 => {
            // loop bound off by one: the last instruction is never checked
            whole = first_err(&singles[..n.saturating_sub(1)]);
        }
        2 => {
            // should_be_real forgets the right operand of an infix expression
            for (k, i) in body.iter().enumerate() {
                let e = match i {
                    Instruction::SetFrequency(x) => Some(&x.frequency),
                    Instruction::SetPhase(x) => Some(&x.phase),
                    Instruction::SetScale(x) => Some(&x.scale),
                    Instruction::ShiftFrequency(x) => Some(&x.frequency),
                    Instruction::ShiftPhase(x) => Some(&x.phase),
                    _ => None,
                };
                if let Some(Expression::Infix(ix)) = e {
                    let mut j = i.clone();
                    let left: Expression = (*ix.left).clone();
                    match &mut j {
                        Instruction::SetFrequency(x) => x.frequency = left,
                        Instruction::SetPhase(x) => x.phase = left,
                        Instruction::SetScale(x) => x.scale = left,
                        Instruction::ShiftFrequency(x) => x.frequency = left,
                        Instruction::ShiftPhase(x) => x.phase = left,
                        _ => {}
                    }
                    singles[k] = observe(&with_body(&p, &[j]));
                }
            }
            whole = first_err(&singles);
            permv = first_err(&perm.iter().map(|k| singles[*k].clone()).collect::<Vec<_>>());
            dupv = whole.clone();
            renv = whole.clone(); // (names of Undef errors are not renamed here: also detectable)
        }
        3 => {
            // dropped case: NEG on an OCTET region is accepted
            for (k, i) in body.iter().enumerate() {
                if let Instruction::UnaryLogic(u) = i {
                    let is_octet = p
                        .memory_regions
                        .get(&u.operand.name)
                        .map(|r| r.size.data_type == ScalarType::Octet)
                        .unwrap_or(false);
                    if u.operator == UnaryOperator::Neg && is_octet {
                        singles[k] = V::Ok;
                    }
                }
            }
            whole = first_err(&singles);
            permv = first_err(&perm.iter().map(|k| singles[*k].clone()).collect::<Vec<_>>());
            dupv = whole.clone();
        }
        4 => {
            // swapped order: COMPARISON reports the lhs lookup before the destination lookup
            for (k, i) in body.iter().enumerate() {
                if let Instruction::Comparison(c) = i {
                    let dd = p.memory_regions.contains_key(&c.destination.name);
                    let ld = p.memory_regions.contains_key(&c.lhs.name);
                    if !dd && !ld {
                        singles[k] = V::Undef(c.lhs.name.clone());
                    }
                }
            }
            whole = first_err(&singles);
            permv = first_err(&perm.iter().map(|k| singles[*k].clone()).collect::<Vec<_>>());
            dupv = whole.clone();
        }
        _ => {}
    }

    // ---- Coq literal ----
    let mut it = Interner::new(&names, &ids);
    let decls: Vec<String> = p
        .memory_regions
        .iter()
        .map(|(name, r)| format!("({}, ({}, {}))", it.get(name), c_sty(r.size.data_type), r.size.length))
        .collect();
    let mut checked = 0usize;
    let mut maxdepth = 0usize;
    let mut instrs = Vec::new();
    for i in &body {
        let (lit, kind, handled, depth) = c_instr(&mut it, i);
        run.count(&format!("instr:{kind}"));
        if handled {
            checked += 1;
        }
        maxdepth = maxdepth.max(depth);
        instrs.push(lit);
    }
    let c_singles: Vec<String> = singles.iter().map(|v| c_verdict(&mut it, v)).collect();
    let c_whole = c_verdict(&mut it, &whole);
    let c_permv = c_verdict(&mut it, &permv);
    let c_dupv = c_verdict(&mut it, &dupv);
    let mut rit = Interner::new(&rnames, &rids);
    if gen.is_none() {
        rit = Interner::new(&names, &ids);
    }
    let c_renv = c_verdict(&mut rit, &renv);
    let rn: Vec<String> = if gen.is_some() {
        (0..NNAMES).map(|k| format!("({}, {})", ids[k], rids[k])).collect()
    } else {
        (0..NNAMES).map(|k| format!("({}, {})", ids[k], ids[k])).collect()
    };
    let c_perm: Vec<String> = perm.iter().map(|k| k.to_string()).collect();
    let coq = format!(
        "({}, {}, ({}, {}, ({}, {}), {}, ({}, {})))",
        g::list(&decls),
        g::list(&instrs),
        c_whole,
        g::list(&c_singles),
        g::list(&c_perm),
        c_permv,
        c_dupv,
        g::list(&rn),
        c_renv
    );
    run.count(&format!("len={}", n.min(9)));
    run.count(&format!("verdict:{}", vkind(&whole)));
    run.count(&format!("gen:{tag}"));
    if let Some(pos) = singles.iter().position(|v| *v != V::Ok) {
        run.count(&format!("first-fail-at={}", pos.min(6)));
    }
    run.count(&format!("exprdepth={maxdepth}"));
    let nontrivial = checked >= 2 || maxdepth >= 2;
    let desc = text.trim_end().replace('\n', "; ");
    if verbose {
        println!("program:\n{text}");
        println!("whole = {whole:?}\nsingles = {singles:?}\nperm = {perm:?} -> {permv:?}\ndoubled = {dupv:?}\nrenamed = {renv:?}");
        println!("coq case: {coq}");
    }
    let in_known_class = body.iter().any(|i| match i {
        Instruction::SetFrequency(x) => has_inexact(&x.frequency),
        Instruction::SetPhase(x) => has_inexact(&x.phase),
        Instruction::SetScale(x) => has_inexact(&x.scale),
        Instruction::ShiftFrequency(x) => has_inexact(&x.frequency),
        Instruction::ShiftPhase(x) => has_inexact(&x.phase),
        _ => false,
    });
    run.case(coq, &desc, nontrivial, if in_known_class { Some("tiny-imaginary-accepted") } else { None });
}

// ---------------------------------------------------------------------------------------------
// generators

const CANON: GD = [Some((0, 3)), Some((1, 2)), Some((2, 1)), Some((3, 4))];
const ARITH: [&str; 4] = ["ADD", "SUB", "MUL", "DIV"];
const CMP: [&str; 5] = ["EQ", "GT", "GE", "LT", "LE"];
const BIN: [&str; 6] = ["AND", "IOR", "XOR", "SHL", "SHR", "ASHR"];
const UN: [&str; 2] = ["NEG", "NOT"];
const SETS: [&str; 5] = ["SET-FREQUENCY", "SET-PHASE", "SET-SCALE", "SHIFT-FREQUENCY", "SHIFT-PHASE"];
const FUNS: [&str; 5] = ["cis", "cos", "exp", "sin", "sqrt"];
const INFIX: [&str; 5] = ["^", "+", "-", "/", "*"];
const OTHERS: [&str; 14] = [
    "NOP",
    "HALT",
    "WAIT",
    "X 0",
    "RX({0}[1]) 0",
    "RX(%theta + {2}) 1",
    "MEASURE 0 {2}",
    "MEASURE 1 {4}[0]",
    "CONVERT {0} {1}",
    "CONVERT {4} {2}[0]",
    "DELAY 0 \"xy\" {1}",
    "PULSE 0 \"xy\" flat(duration: {1}, iq: {2}[0])",
    "CAPTURE 0 \"xy\" flat(duration: 1.0, iq: 1.0) {3}[1]",
    "JUMP-WHEN @l {0}[0]",
];
const LEAVES: [&str; 31] = [
    "1", "2.5", "0.0i", "2i", "1.5i", "i", "pi", "1e-17i", "2.220446049250313e-16i", "2.220446049250314e-16i",
    "3e-16i", "770", "771", "772", "773", "775", "776", "777", "778", "779", "780", "781", "782", "783", "784", "785",
    "786", "787", "788", "789", "790",
];

fn all_leaves() -> Vec<GE> {
    let mut v: Vec<GE> = LEAVES.iter().map(|s| GE::Lit(s)).collect();
    v.push(GE::Var("theta"));
    for n in 0..NNAMES {
        v.push(GE::Addr(n, None));
        v.push(GE::Addr(n, Some(1)));
    }
    v
}

fn rand_ref(rng: &mut Rng) -> (usize, Option<u64>) {
    let n = if rng.chance(1, 8) { 4 } else { rng.below(4) };
    let i = if rng.chance(1, 2) { None } else { Some(rng.below(5) as u64) };
    (n, i)
}
fn rand_lit(rng: &mut Rng, real_ok: bool) -> GOp {
    let ints = ["0", "1", "-2", "17"];
    let reals = ["0.5", "-1.25", "3.0", "1e3"];
    if real_ok && rng.chance(1, 2) {
        GOp::Lit(reals[rng.below(4)])
    } else {
        GOp::Lit(ints[rng.below(4)])
    }
}
fn rand_op(rng: &mut Rng, real_ok: bool) -> GOp {
    if rng.chance(1, 2) {
        let (n, i) = rand_ref(rng);
        GOp::Ref(n, i)
    } else {
        rand_lit(rng, real_ok)
    }
}
/// a random expression of depth <= d; `good` biases towards real-valued leaves over region `real`
fn rand_expr(rng: &mut Rng, d: usize, good: bool, real: usize) -> GE {
    if d == 0 || rng.chance(1, 5) {
        if good && rng.chance(9, 10) {
            return match rng.below(5) {
                0 => GE::Lit("2.5"),
                1 => GE::Lit("pi"),
                2 => GE::Lit("1"),
                3 => GE::Addr(real, Some(rng.below(3) as u64)),
                _ => GE::Addr(real, None),
            };
        }
        let l = all_leaves();
        return l[rng.below(l.len())].clone();
    }
    match rng.below(4) {
        0 => GE::Call(FUNS[rng.below(5)], Box::new(rand_expr(rng, d - 1, good, real))),
        1 => GE::Neg(Box::new(rand_expr(rng, d - 1, good, real))),
        _ => GE::Infix(
            INFIX[rng.below(5)],
            Box::new(rand_expr(rng, d - 1, good, real)),
            Box::new(rand_expr(rng, d - 1, good, real)),
        ),
    }
}
/// a random instruction; with `good` it is built to type-check under declarations `d`
fn rand_instr(rng: &mut Rng, d: &GD, good: bool) -> GI {
    // region of a given type, if any
    let of = |t: usize, rng: &mut Rng| -> Option<usize> {
        let c: Vec<usize> = (0..4).filter(|k| d[*k].map(|x| x.0) == Some(t)).collect();
        if c.is_empty() {
            None
        } else {
            Some(c[rng.below(c.len())])
        }
    };
    let idx = |rng: &mut Rng| if rng.chance(1, 2) { None } else { Some(rng.below(3) as u64) };
    if !good {
        return match rng.below(10) {
            0 => GI::Set(SETS[rng.below(5)], rand_expr(rng, 3, false, 0)),
            1 => GI::Arith(ARITH[rng.below(4)], rand_ref(rng), rand_op(rng, true)),
            2 => GI::Cmp(CMP[rng.below(5)], rand_ref(rng), rand_ref(rng), rand_op(rng, true)),
            3 => GI::Bin(BIN[rng.below(6)], rand_ref(rng), rand_op(rng, false)),
            4 => GI::Un(UN[rng.below(2)], rand_ref(rng)),
            5 => GI::Move(rand_ref(rng), rand_op(rng, true)),
            6 => GI::Exchange(rand_ref(rng), rand_ref(rng)),
            7 => GI::Load(rand_ref(rng), rand_ref(rng).0, rand_ref(rng)),
            8 => GI::Store(rand_ref(rng).0, rand_ref(rng), rand_op(rng, true)),
            _ => GI::Other(OTHERS[rng.below(OTHERS.len())]),
        };
    }
    // well-typed by construction (falls back to an ignored instruction when a needed type is absent)
    let real = of(0, rng);
    let int = of(1, rng);
    let bit = of(2, rng);
    let any = rng.below(4);
    let fallback = GI::Other(OTHERS[rng.below(OTHERS.len())]);
    match rng.below(10) {
        0 => match real {
            Some(r) => GI::Set(SETS[rng.below(5)], rand_expr(rng, 3, true, r)),
            None => fallback,
        },
        1 => match (real, int) {
            (Some(r), _) if rng.chance(1, 2) => {
                let s = if rng.chance(1, 2) { GOp::Lit("0.5") } else { GOp::Ref(r, idx(rng)) };
                GI::Arith(ARITH[rng.below(4)], (r, idx(rng)), s)
            }
            (_, Some(n)) => {
                let s = if rng.chance(1, 2) { GOp::Lit("-2") } else { GOp::Ref(n, idx(rng)) };
                GI::Arith(ARITH[rng.below(4)], (n, idx(rng)), s)
            }
            _ => fallback,
        },
        2 => match (bit, d[any]) {
            (Some(b), Some((t, _))) => {
                let s = match rng.below(2) {
                    0 => GOp::Ref(any, idx(rng)),
                    _ => GOp::Lit(if t == 0 { "1.5" } else { "3" }),
                };
                GI::Cmp(CMP[rng.below(5)], (b, idx(rng)), (any, idx(rng)), s)
            }
            _ => fallback,
        },
        3 => match (int, bit) {
            (Some(n), Some(b)) => {
                let s = if rng.chance(1, 2) { GOp::Lit("1") } else { GOp::Ref(b, idx(rng)) };
                GI::Bin(BIN[rng.below(6)], (n, idx(rng)), s)
            }
            _ => fallback,
        },
        4 => match int {
            Some(n) => GI::Un(UN[rng.below(2)], (n, idx(rng))),
            None => fallback,
        },
        5 => match d[any] {
            Some((t, _)) => {
                let s = match rng.below(2) {
                    0 => GOp::Ref(any, idx(rng)),
                    _ => GOp::Lit(if t == 0 { "1.5" } else { "3" }),
                };
                GI::Move((any, idx(rng)), s)
            }
            None => fallback,
        },
        6 => match d[any] {
            Some(_) => GI::Exchange((any, idx(rng)), (any, idx(rng))),
            None => fallback,
        },
        7 => match (d[any], int) {
            (Some(_), Some(n)) => GI::Load((any, idx(rng)), any, (n, idx(rng))),
            _ => fallback,
        },
        8 => match (d[any], int) {
            (Some((t, _)), Some(n)) => {
                let s = match rng.below(2) {
                    0 => GOp::Ref(any, idx(rng)),
                    _ => GOp::Lit(if t == 0 { "1.5" } else { "3" }),
                };
                GI::Store(any, (n, idx(rng)), s)
            }
            _ => fallback,
        },
        _ => fallback,
    }
}
fn rand_decls(rng: &mut Rng) -> GD {
    if rng.chance(1, 3) {
        return CANON;
    }
    let mut d: GD = [None; 4];
    for k in 0..4 {
        if !rng.chance(1, 10) {
            d[k] = Some((rng.below(4), rng.range(1, 4) as u64));
        }
    }
    d
}

fn exhaustive(run: &mut Run, ctx: &Ctx, rng: &mut Rng, thorough: bool) {
    let refs: Vec<(usize, Option<u64>)> = (0..NNAMES).map(|n| (n, if n % 2 == 0 { None } else { Some(1) })).collect();
    let ops: Vec<GOp> = {
        let mut v = vec![GOp::Lit("1"), GOp::Lit("1.5")];
        v.extend(refs.iter().map(|r| GOp::Ref(r.0, r.1)));
        v
    };
    let mut singles: Vec<GI> = Vec::new();
    // every operand combination for every kind; operators: all for unary, two per class otherwise
    // (all of them in the thorough tier) -- the Rust checker never inspects the operator except for
    // unary logic, and the random stream below uses all operators
    let pick = |all: &[&'static str]| -> Vec<&'static str> {
        if thorough {
            all.to_vec()
        } else {
            vec![all[0], all[all.len() - 1]]
        }
    };
    for o in pick(&ARITH) {
        for d in &refs {
            for s in &ops {
                singles.push(GI::Arith(o, *d, s.clone()));
            }
        }
    }
    for o in pick(&CMP) {
        for d in &refs {
            for l in &refs {
                for s in &ops {
                    singles.push(GI::Cmp(o, *d, *l, s.clone()));
                }
            }
        }
    }
    for o in pick(&BIN) {
        for d in &refs {
            for s in ops.iter().filter(|s| !matches!(s, GOp::Lit("1.5"))) {
                singles.push(GI::Bin(o, *d, s.clone()));
            }
        }
    }
    for o in UN {
        for d in &refs {
            singles.push(GI::Un(o, *d));
        }
    }
    for d in &refs {
        for s in &ops {
            singles.push(GI::Move(*d, s.clone()));
        }
    }
    for l in &refs {
        for r in &refs {
            singles.push(GI::Exchange(*l, *r));
        }
    }
    for d in &refs {
        for s in 0..NNAMES {
            for o in &refs {
                singles.push(GI::Load(*d, s, *o));
            }
        }
    }
    for d in 0..NNAMES {
        for o in &refs {
            for s in &ops {
                singles.push(GI::Store(d, *o, s.clone()));
            }
        }
    }
    for t in OTHERS {
        singles.push(GI::Other(t));
    }
    // SET-like: all leaves; depth 1 over all leaves for every operator class
    let leaves = all_leaves();
    for (k, l) in leaves.iter().enumerate() {
        singles.push(GI::Set(SETS[k % 5], l.clone()));
        singles.push(GI::Set(SETS[(k + 1) % 5], GE::Neg(Box::new(l.clone()))));
        singles.push(GI::Set(SETS[(k + 2) % 5], GE::Call(FUNS[k % 5], Box::new(l.clone()))));
    }
    // every number leaf as the ONLY questionable leaf, at depth 0..3, in both operand positions,
    // under prefix / function / infix nodes (all other leaves are REAL memory, pi or real numbers)
    for (k, lit) in LEAVES.iter().enumerate() {
        let l = || Box::new(GE::Lit(lit));
        let rr = || Box::new(GE::Addr(0, Some((k % 3) as u64)));
        let num = || Box::new(GE::Lit("2.5"));
        let pi = || Box::new(GE::Lit("pi"));
        let ctxs: Vec<GE> = vec![
            GE::Infix("+", rr(), l()),
            GE::Infix("*", l(), num()),
            GE::Call("sqrt", Box::new(GE::Infix("-", pi(), l()))),
            GE::Infix("^", Box::new(GE::Infix("/", l(), rr())), num()),
            GE::Neg(Box::new(GE::Call("cos", Box::new(GE::Infix("+", rr(), l()))))),
            GE::Infix("-", Box::new(GE::Infix("+", Box::new(GE::Lit("1")), Box::new(GE::Infix("*", num(), l())))), rr()),
            GE::Infix("-", rr(), Box::new(GE::Infix("+", pi(), Box::new(GE::Neg(l()))))),
            GE::Call("exp", Box::new(GE::Call("cis", Box::new(GE::Neg(l()))))),
        ];
        for (j, e) in ctxs.into_iter().enumerate() {
            singles.push(GI::Set(SETS[(k + j) % 5], e));
        }
    }
    // unary plus (only constructible through the AST): marker -(774)
    singles.push(GI::Set("SET-PHASE", GE::Neg(Box::new(GE::Lit("774")))));
    singles.push(GI::Set("SET-SCALE", GE::Infix("+", Box::new(GE::Neg(Box::new(GE::Lit("774")))), Box::new(GE::Addr(1, None)))));
    for (a, l) in leaves.iter().enumerate() {
        for (b, r) in leaves.iter().enumerate() {
            singles.push(GI::Set(
                SETS[(a + b) % 5],
                GE::Infix(INFIX[(a * 7 + b) % 5], Box::new(l.clone()), Box::new(r.clone())),
            ));
        }
    }
    // depth 2 over a reduced leaf set: one REAL region, an INTEGER region, real / imaginary number, variable
    let small = [GE::Addr(0, Some(2)), GE::Addr(1, None), GE::Lit("2.5"), GE::Lit("2i"), GE::Var("t"), GE::Addr(4, None), GE::Lit("775")];
    let mut d1: Vec<GE> = small.to_vec();
    for l in &small {
        d1.push(GE::Neg(Box::new(l.clone())));
        d1.push(GE::Call("sin", Box::new(l.clone())));
        for r in &small {
            d1.push(GE::Infix("+", Box::new(l.clone()), Box::new(r.clone())));
        }
    }
    for (a, l) in d1.iter().enumerate() {
        singles.push(GI::Set(SETS[a % 5], GE::Neg(Box::new(l.clone()))));
        singles.push(GI::Set(SETS[a % 5], GE::Call("sqrt", Box::new(l.clone()))));
        for (b, r) in d1.iter().enumerate() {
            if thorough || (a + b) % 3 == 0 {
                singles.push(GI::Set(SETS[(a + b) % 5], GE::Infix("*", Box::new(l.clone()), Box::new(r.clone()))));
            }
        }
    }
    run.count_n("exhaustive-single-instruction-programs", singles.len() as u64);
    // each single instruction is also embedded behind a well-typed prefix and before a failing suffix
    for (k, i) in singles.iter().enumerate() {
        match k % 3 {
            0 => run_case(run, ctx, rng, &CANON, std::slice::from_ref(i), "exh-1"),
            1 => {
                let pre = rand_instr(rng, &CANON, true);
                run_case(run, ctx, rng, &CANON, &[pre, i.clone()], "exh-2");
            }
            _ => {
                let pre = rand_instr(rng, &CANON, true);
                let post = rand_instr(rng, &CANON, false);
                run_case(run, ctx, rng, &CANON, &[pre, i.clone(), post], "exh-3");
            }
        }
    }
}

fn random_stream(run: &mut Run, ctx: &Ctx, rng: &mut Rng, count: usize) {
    for _ in 0..count {
        let d = rand_decls(rng);
        let len = rng.range(2, 8);
        // mostly valid: 0, 1 or 2 deliberately unconstrained instructions at random positions
        let nbad = rng.below(3);
        let mut is: Vec<GI> = (0..len).map(|_| rand_instr(rng, &d, true)).collect();
        for _ in 0..nbad {
            let k = rng.below(len);
            is[k] = rand_instr(rng, &d, false);
        }
        run_case(run, ctx, rng, &d, &is, "random");
    }
}

fn main() {
    let args = Args::parse();
    let mutant: u32 = std::env::var("QV_MUTANT").ok().and_then(|s| s.parse().ok()).unwrap_or(0);
    let ctx = Ctx { mutant };
    let header = "From Coq Require Import List NArith.\nFrom QV Require Import Model.TypeCheck.\nImport ListNotations.\nOpen Scope N_scope.";
    let mut rng = Rng::new(args.seed);
    if let Some(desc) = &args.replay {
        let mut run = Run::new(&args.out.join("replay-c30"), header, "case", "failing", 100);
        let text = desc.replace("; ", "\n").replace("\\n", "\n");
        run_text(&mut run, &ctx, &mut rng, &text, None, "replay", true);
        return;
    }
    let mut run = Run::new(&args.out, header, "case", "failing", 700);
    exhaustive(&mut run, &ctx, &mut rng, args.thorough());
    let exhaustive_cases = run.evaluations;
    let nrand = if args.thorough() { 30000 } else { 4000 };
    random_stream(&mut run, &ctx, &mut rng, nrand);
    if mutant != 0 {
        run.note(&format!("QV_MUTANT={mutant}: observed outputs were perturbed on purpose"));
    }
    run.finish(
        "exhaustive: every operand combination (5 region names: REAL[3], INTEGER[2], BIT, OCTET[4], one undeclared; \
         integer and real literals) for every instruction kind the checker handles, every leaf and every depth-1 \
         expression for SET-*/SHIFT-*, depth-2 expressions over a reduced leaf set, alone or embedded after a \
         well-typed prefix / before an arbitrary suffix; plus seeded random programs of 2..8 instructions over random \
         declarations (0-2 unconstrained instructions, expressions to depth 3). Distinct by program text; \
         non-trivial = at least two checked instructions or a SET-like expression of depth >= 2. Number literals \
         770..790 in a description are markers replaced after parsing by AST-built numbers (see marker_number: NaN, \
         +-inf, +-0, negative / positive imaginary parts large, just beyond, at and within the EPSILON tolerance).",
        true,
        serde_json::json!({"exhaustive_cases": exhaustive_cases, "random_cases": nrand, "mutant": mutant}),
    );
}
