//! C04 — programs built through the API serialize to text that parses back; placeholder error iff
//! placeholder; the debug serializer never fails.
//!
//! Instruction trees are built through the public constructors.  For each: `to_quil()` (Ok / which
//! error), `to_quil_or_debug()` under catch_unwind, and for placeholder-free trees the re-parse of
//! the text compared with the original (expressions and immediates by value at three generic
//! assignments).  The tree's qubit / target positions in serializer visiting order go to Coq where
//! the placeholder model and the verified checker are evaluated.  For a placeholder-free tree that the
//! model AST of coq/Model/PrintParse.v can represent (plain instructions incl. PULSE / CAPTURE /
//! RAW-CAPTURE / CALL, DEFCAL, DEFCAL MEASURE, DEFCIRCUIT, DEFFRAME, DEFWAVEFORM with literals in parsed
//! form) the tree, the real tokens of the printed text and the real re-parse also go to Coq: printer
//! model(tree) = tokens, parser model(tokens) = tree, real re-parse = tree.
#[path = "../quilgen.rs"]
mod quilgen;
#[path = "../ppmodel.rs"]
mod ppmodel;

use indexmap::IndexMap;
use num_complex::Complex64;
use quil_rs::expression::{
    Expression, ExpressionFunction, FunctionCallExpression, InfixExpression, InfixOperator, PrefixExpression,
    PrefixOperator,
};
use quil_rs::instruction::*;
use quil_rs::quil::{Quil, ToQuilError};
use quilgen::NAMES;
use qv::{Args, Rng, Run};
use std::collections::HashMap;
use std::str::FromStr;

// ---------------------------------------------------------------------------------------------
// builders

struct Gen<'a> {
    r: &'a mut Rng,
    /// probability (in 1/16) that a qubit / target position is a placeholder
    ph: usize,
}

const GNAMES: [&str; 6] = ["X", "RX", "CNOT", "my_gate", "U-1", "H"];
const FNAMES: [&str; 4] = ["xy", "ro_rx", "a b", "q\"uote"];

impl Gen<'_> {
    fn name(&mut self) -> String {
        NAMES[self.r.below(NAMES.len())].to_string()
    }
    fn qubit(&mut self) -> Qubit {
        if self.r.below(16) < self.ph {
            return Qubit::Placeholder(QubitPlaceholder::default());
        }
        match self.r.below(4) {
            0 => Qubit::Variable(self.name()),
            _ => Qubit::Fixed(self.r.below(8) as u64),
        }
    }
    fn qubits(&mut self, lo: usize, hi: usize) -> Vec<Qubit> {
        let n = self.r.range(lo, hi);
        (0..n).map(|_| self.qubit()).collect()
    }
    fn target(&mut self) -> Target {
        if self.r.below(16) < self.ph {
            Target::Placeholder(TargetPlaceholder::new("lbl".into()))
        } else {
            Target::Fixed(["start", "end-1", "L_2"][self.r.below(3)].to_string())
        }
    }
    fn memref(&mut self) -> MemoryReference {
        MemoryReference::new(self.name(), self.r.below(4) as u64)
    }
    fn real(&mut self) -> f64 {
        [0.0, 1.0, 2.0, 0.5, 1.5, 3.0, 0.25, 1e-7, 6.02e23, 17.0, 1e300, 1e15][self.r.below(12)]
    }
    fn number(&mut self) -> Complex64 {
        let s = |r: &mut Rng| if r.chance(1, 3) { -1.0 } else { 1.0 };
        match self.r.below(5) {
            0 | 1 => Complex64::new(self.real() * s(self.r), 0.0),
            2 => Complex64::new(0.0, self.real() * s(self.r)),
            _ => Complex64::new(self.real() * s(self.r), self.real() * s(self.r)),
        }
    }
    fn expr(&mut self, d: usize) -> Expression {
        if d == 0 || self.r.chance(1, 4) {
            return match self.r.below(5) {
                0 => Expression::PiConstant(),
                1 => Expression::Variable(self.name()),
                2 => Expression::Address(self.memref()),
                _ => Expression::Number(self.number()),
            };
        }
        match self.r.below(8) {
            0 => {
                let f = [
                    ExpressionFunction::Cis,
                    ExpressionFunction::Cosine,
                    ExpressionFunction::Exponent,
                    ExpressionFunction::Sine,
                    ExpressionFunction::SquareRoot,
                ][self.r.below(5)];
                Expression::FunctionCall(FunctionCallExpression::new(f, self.expr(d - 1).into()))
            }
            1 | 2 => {
                let op = if self.r.chance(1, 4) { PrefixOperator::Plus } else { PrefixOperator::Minus };
                Expression::Prefix(PrefixExpression::new(op, self.expr(d - 1).into()))
            }
            _ => {
                let op = [
                    InfixOperator::Plus,
                    InfixOperator::Minus,
                    InfixOperator::Star,
                    InfixOperator::Slash,
                    InfixOperator::Caret,
                ][self.r.below(5)];
                let l = self.expr(d - 1);
                let rr = self.expr(d - 1);
                Expression::Infix(InfixExpression::new(l.into(), op, rr.into()))
            }
        }
    }
    fn e(&mut self) -> Expression {
        let d = self.r.below(4);
        self.expr(d)
    }
    fn frame(&mut self) -> FrameIdentifier {
        FrameIdentifier::new(FNAMES[self.r.below(FNAMES.len())].to_string(), self.qubits(1, 2))
    }
    fn waveform(&mut self) -> WaveformInvocation {
        let mut p: IndexMap<String, Expression> = IndexMap::new();
        for _ in 0..self.r.below(3) {
            p.insert(["duration", "iq", "scale", "t1"][self.r.below(4)].to_string(), self.expr(2));
        }
        WaveformInvocation::new(["flat", "gaussian", "q0_q1/sqrtiSWAP"][self.r.below(3)].to_string(), p)
    }
    fn arith_operand(&mut self) -> ArithmeticOperand {
        match self.r.below(4) {
            0 => ArithmeticOperand::LiteralInteger([0, 1, -1, 42, i64::MIN, i64::MAX][self.r.below(6)]),
            1 => ArithmeticOperand::LiteralReal(self.real() * if self.r.chance(1, 3) { -1.0 } else { 1.0 }),
            _ => ArithmeticOperand::MemoryReference(self.memref()),
        }
    }
    fn body(&mut self) -> Vec<Instruction> {
        let n = self.r.range(1, 3);
        (0..n)
            .map(|_| {
                let k = [0usize, 0, 4, 11, 12, 20, 21, 22, 24, 25, 26, 13, 14, 15][self.r.below(14)];
                self.instr(k)
            })
            .collect()
    }

    fn instr(&mut self, kind: usize) -> Instruction {
        match kind {
            0 => {
                let mods: Vec<GateModifier> = (0..self.r.below(3))
                    .map(|_| [GateModifier::Controlled, GateModifier::Dagger, GateModifier::Forked][self.r.below(3)])
                    .collect();
                let ps: Vec<Expression> = (0..self.r.below(3)).map(|_| self.e()).collect();
                let qs = self.qubits(1, 3);
                Instruction::Gate(Gate::new(GNAMES[self.r.below(GNAMES.len())], ps, qs, mods).expect("Gate::new"))
            }
            1 => Instruction::Arithmetic(Arithmetic::new(
                [ArithmeticOperator::Add, ArithmeticOperator::Subtract, ArithmeticOperator::Multiply, ArithmeticOperator::Divide][self.r.below(4)],
                self.memref(),
                self.arith_operand(),
            )),
            2 => Instruction::BinaryLogic(BinaryLogic::new(
                [BinaryOperator::And, BinaryOperator::Ior, BinaryOperator::Xor, BinaryOperator::Shl, BinaryOperator::Shr, BinaryOperator::Ashr][self.r.below(6)],
                self.memref(),
                if self.r.chance(1, 2) {
                    BinaryOperand::LiteralInteger([0, 5, -3, i64::MIN][self.r.below(4)])
                } else {
                    BinaryOperand::MemoryReference(self.memref())
                },
            )),
            3 => Instruction::UnaryLogic(UnaryLogic::new([UnaryOperator::Neg, UnaryOperator::Not][self.r.below(2)], self.memref())),
            4 => Instruction::Move(Move::new(self.memref(), self.arith_operand())),
            5 => Instruction::Exchange(Exchange::new(self.memref(), self.memref())),
            6 => Instruction::Convert(Convert::new(self.memref(), self.memref())),
            7 => Instruction::Load(Load::new(self.memref(), self.name(), self.memref())),
            8 => Instruction::Store(Store::new(self.name(), self.memref(), self.arith_operand())),
            9 => Instruction::Comparison(Comparison::new(
                [ComparisonOperator::Equal, ComparisonOperator::GreaterThanOrEqual, ComparisonOperator::GreaterThan, ComparisonOperator::LessThanOrEqual, ComparisonOperator::LessThan][self.r.below(5)],
                self.memref(),
                self.memref(),
                match self.r.below(3) {
                    0 => ComparisonOperand::LiteralInteger([0, -7, i64::MAX][self.r.below(3)]),
                    1 => ComparisonOperand::LiteralReal(self.real()),
                    _ => ComparisonOperand::MemoryReference(self.memref()),
                },
            )),
            10 => {
                let ty = [ScalarType::Bit, ScalarType::Integer, ScalarType::Octet, ScalarType::Real];
                let sharing = if self.r.chance(1, 2) {
                    let offs = (0..self.r.below(3)).map(|_| Offset::new(self.r.below(9) as u64, ty[self.r.below(4)])).collect();
                    Some(Sharing::new(self.name(), offs))
                } else {
                    None
                };
                Instruction::Declaration(Declaration::new(self.name(), Vector::new(ty[self.r.below(4)], self.r.range(1, 9) as u64), sharing))
            }
            11 => Instruction::Measurement(Measurement::new(
                if self.r.chance(1, 3) { Some("mid".into()) } else { None },
                self.qubit(),
                if self.r.chance(2, 3) { Some(self.memref()) } else { None },
            )),
            12 => Instruction::Reset(Reset::new(if self.r.chance(1, 3) { None } else { Some(self.qubit()) })),
            13 => [Instruction::Halt(), Instruction::Nop(), Instruction::Wait()][self.r.below(3)].clone(),
            14 => Instruction::Label(Label::new(self.target())),
            15 => Instruction::Jump(Jump { target: self.target() }),
            16 => Instruction::JumpWhen(JumpWhen::new(self.target(), self.memref())),
            17 => Instruction::JumpUnless(JumpUnless::new(self.target(), self.memref())),
            18 => {
                let args = (0..self.r.below(3))
                    .map(|_| if self.r.chance(1, 2) { PragmaArgument::Identifier(self.name()) } else { PragmaArgument::Integer(self.r.below(50) as u64) })
                    .collect();
                let data = if self.r.chance(1, 2) { Some(["NAIVE", "a \"q\" b", "", "x\\y"][self.r.below(4)].to_string()) } else { None };
                Instruction::Pragma(Pragma::new(["INITIAL_REWIRING", "foo", "LOAD-MEMORY"][self.r.below(3)].to_string(), args, data))
            }
            19 => Instruction::Include(Include::new(["lib.quil", "a b.quil", "q\"uote"][self.r.below(3)].to_string())),
            20 => {
                // DELAY, including the symbolic duration without frame names
                let nf = self.r.below(3);
                let names = (0..nf).map(|_| FNAMES[self.r.below(FNAMES.len())].to_string()).collect();
                let dur = if self.r.chance(1, 2) { Expression::Number(Complex64::new(self.real(), 0.0)) } else { self.e() };
                Instruction::Delay(Delay::new(dur, names, self.qubits(0, 2)))
            }
            21 => Instruction::Fence(Fence::new(self.qubits(0, 3))),
            22 => Instruction::Pulse(Pulse::new(self.r.chance(2, 3), self.frame(), self.waveform())),
            23 => Instruction::Capture(Capture::new(self.r.chance(2, 3), self.frame(), self.memref(), self.waveform())),
            24 => Instruction::RawCapture(RawCapture::new(self.r.chance(2, 3), self.frame(), self.e(), self.memref())),
            25 => {
                let f = self.frame();
                let e = self.e();
                match self.r.below(5) {
                    0 => Instruction::SetFrequency(SetFrequency::new(f, e)),
                    1 => Instruction::SetPhase(SetPhase::new(f, e)),
                    2 => Instruction::SetScale(SetScale::new(f, e)),
                    3 => Instruction::ShiftFrequency(ShiftFrequency::new(f, e)),
                    _ => Instruction::ShiftPhase(ShiftPhase::new(f, e)),
                }
            }
            26 => Instruction::SwapPhases(SwapPhases::new(self.frame(), self.frame())),
            27 => {
                // CALL, including negative / complex immediates
                let args = (0..self.r.below(4))
                    .map(|_| match self.r.below(3) {
                        0 => UnresolvedCallArgument::Identifier(self.name()),
                        1 => UnresolvedCallArgument::MemoryReference(self.memref()),
                        _ => UnresolvedCallArgument::Immediate(if self.r.chance(1, 2) { Complex64::new(self.real(), 0.0) } else { self.number() }),
                    })
                    .collect();
                Instruction::Call(Call::try_new(["foo", "ext_fn"][self.r.below(2)].to_string(), args).expect("Call::try_new"))
            }
            28 => {
                // DEFGATE: matrix / permutation / pauli sum / sequence
                let params: Vec<String> = if self.r.chance(1, 2) { vec!["theta".into()] } else { vec![] };
                let spec = match self.r.below(4) {
                    0 => {
                        let n = [2usize, 4][self.r.below(2)];
                        GateSpecification::Matrix((0..n).map(|_| (0..n).map(|_| self.expr(2)).collect()).collect())
                    }
                    1 => GateSpecification::Permutation(vec![0, 1, 3, 2]),
                    2 => GateSpecification::PauliSum(
                        PauliSum::new(
                            vec!["p".into(), "q".into()],
                            vec![
                                PauliTerm::new(vec![(PauliGate::Z, "p".into()), (PauliGate::Z, "q".into())], self.expr(2)),
                                PauliTerm::new(vec![(PauliGate::X, "q".into())], self.expr(1)),
                            ],
                        )
                        .expect("PauliSum::new"),
                    ),
                    _ => GateSpecification::Sequence(
                        DefGateSequence::try_new(
                            vec!["p".into(), "q".into()],
                            vec![
                                Gate::new("H", vec![], vec![Qubit::Variable("p".into())], vec![]).unwrap(),
                                Gate::new(
                                    "RX",
                                    // the sequence's gates cannot be reached from outside the crate for a by-value
                                    // comparison: use parameters that re-parse structurally
                                    vec![[Expression::Variable("theta".into()), Expression::PiConstant(), Expression::Number(Complex64::new(0.5, 0.0))][self.r.below(3)].clone()],
                                    vec![Qubit::Variable("q".into())],
                                    vec![GateModifier::Dagger],
                                )
                                .unwrap(),
                            ],
                        )
                        .expect("DefGateSequence::try_new"),
                    ),
                };
                Instruction::GateDefinition(GateDefinition::new(["my_gate", "U-1", "FOO"][self.r.below(3)].to_string(), params, spec).expect("GateDefinition::new"))
            }
            29 => {
                let mods = if self.r.chance(1, 5) { vec![GateModifier::Dagger] } else { vec![] };
                let ps = (0..self.r.below(2)).map(|_| if self.r.chance(1, 2) { Expression::Variable("theta".into()) } else { self.expr(1) }).collect();
                let id = CalibrationIdentifier::new(GNAMES[self.r.below(GNAMES.len())].to_string(), mods, ps, self.qubits(1, 2)).expect("CalibrationIdentifier::new");
                Instruction::CalibrationDefinition(CalibrationDefinition::new(id, self.body()))
            }
            30 => {
                let id = MeasureCalibrationIdentifier::new(
                    if self.r.chance(1, 3) { Some("mid".into()) } else { None },
                    self.qubit(),
                    if self.r.chance(2, 3) { Some(self.name()) } else { None },
                );
                Instruction::MeasureCalibrationDefinition(MeasureCalibrationDefinition::new(id, self.body()))
            }
            31 => Instruction::CircuitDefinition(CircuitDefinition::new(
                "BELL".into(),
                if self.r.chance(1, 2) { vec!["a".into(), "b".into()] } else { vec![] },
                if self.r.chance(1, 2) { vec!["q".into(), "r".into()] } else { vec![] },
                self.body(),
            )),
            32 => {
                let mut attrs: IndexMap<String, AttributeValue> = IndexMap::new();
                for _ in 0..self.r.range(1, 3) {
                    let k = ["DIRECTION", "CENTER-FREQUENCY", "HARDWARE-OBJECT", "SAMPLE-RATE", "INITIAL-FREQUENCY"][self.r.below(5)];
                    let v = if self.r.chance(1, 2) { AttributeValue::String(["rx", "some \"obj\""][self.r.below(2)].to_string()) } else { AttributeValue::Expression(self.expr(1)) };
                    attrs.insert(k.to_string(), v);
                }
                Instruction::FrameDefinition(FrameDefinition::new(self.frame(), attrs))
            }
            _ => Instruction::WaveformDefinition(WaveformDefinition::new(
                ["my_wf", "q0_q1/cz"][self.r.below(2)].to_string(),
                Waveform::new((0..self.r.range(1, 4)).map(|_| self.expr(2)).collect(), if self.r.chance(1, 2) { vec!["a".into()] } else { vec![] }),
            )),
        }
    }
}

const N_KINDS: usize = 34;

// ---------------------------------------------------------------------------------------------
// abstraction: positions in serializer visiting order

fn q(qb: &Qubit) -> String {
    format!("NQ {}", matches!(qb, Qubit::Placeholder(_)))
}
fn t(tg: &Target) -> String {
    format!("NL {}", matches!(tg, Target::Placeholder(_)))
}
fn node(i: &Instruction) -> String {
    let qs = |v: &[Qubit]| v.iter().map(q).collect::<Vec<_>>();
    let children: Vec<String> = match i {
        Instruction::Gate(g) => qs(&g.qubits),
        Instruction::Measurement(m) => vec![q(&m.qubit)],
        Instruction::Reset(r) => r.qubit.iter().map(q).collect(),
        Instruction::Delay(d) => qs(&d.qubits),
        Instruction::Fence(f) => qs(&f.qubits),
        Instruction::Pulse(p) => qs(&p.frame.qubits),
        Instruction::Capture(c) => qs(&c.frame.qubits),
        Instruction::RawCapture(c) => qs(&c.frame.qubits),
        Instruction::SetFrequency(x) => qs(&x.frame.qubits),
        Instruction::SetPhase(x) => qs(&x.frame.qubits),
        Instruction::SetScale(x) => qs(&x.frame.qubits),
        Instruction::ShiftFrequency(x) => qs(&x.frame.qubits),
        Instruction::ShiftPhase(x) => qs(&x.frame.qubits),
        Instruction::SwapPhases(x) => {
            let mut v = qs(&x.frame_1.qubits);
            v.extend(qs(&x.frame_2.qubits));
            v
        }
        Instruction::FrameDefinition(d) => qs(&d.identifier.qubits),
        Instruction::Label(l) => vec![t(&l.target)],
        Instruction::Jump(j) => vec![t(&j.target)],
        Instruction::JumpWhen(j) => vec![t(&j.target)],
        Instruction::JumpUnless(j) => vec![t(&j.target)],
        Instruction::CalibrationDefinition(d) => {
            let mut v = qs(&d.identifier.qubits);
            v.extend(d.instructions.iter().map(node));
            v
        }
        Instruction::MeasureCalibrationDefinition(d) => {
            let mut v = vec![q(&d.identifier.qubit)];
            v.extend(d.instructions.iter().map(node));
            v
        }
        Instruction::CircuitDefinition(d) => d.instructions.iter().map(node).collect(),
        _ => vec![],
    };
    format!("NB [{}]", children.join("; "))
}

fn kind_name(i: &Instruction) -> &'static str {
    match i {
        Instruction::CalibrationDefinition(_) => "CalibrationDefinition",
        Instruction::MeasureCalibrationDefinition(_) => "MeasureCalibrationDefinition",
        Instruction::CircuitDefinition(_) => "CircuitDefinition",
        Instruction::FrameDefinition(_) => "FrameDefinition",
        Instruction::WaveformDefinition(_) => "WaveformDefinition",
        Instruction::GateDefinition(_) => "GateDefinition",
        Instruction::Pulse(_) => "Pulse",
        Instruction::Capture(_) => "Capture",
        Instruction::RawCapture(_) => "RawCapture",
        Instruction::Call(_) => "Call",
        _ => "fragment-of-C01",
    }
}

fn has_placeholder(i: &Instruction) -> bool {
    node(i).contains("true")
}

// ---------------------------------------------------------------------------------------------
// equivalence with expressions compared by value

fn env(k: usize) -> (HashMap<String, Complex64>, HashMap<String, Vec<f64>>) {
    let mut vars = HashMap::new();
    let mut mem = HashMap::new();
    for (j, n) in NAMES.iter().chain(["theta", "a", "b", "p", "q"].iter()).enumerate() {
        let x = 0.37 + 0.61 * (j as f64) + 0.23 * (k as f64);
        vars.insert(n.to_string(), Complex64::new(x, 0.11 * (k as f64 + 1.0)));
        mem.insert(n.to_string(), (0..4).map(|m| 0.53 + 0.29 * (m as f64) + 0.17 * (j as f64) + 0.41 * (k as f64)).collect());
    }
    (vars, mem)
}

fn close(a: Complex64, b: Complex64) -> bool {
    let same = |x: f64, y: f64| (x.is_nan() && y.is_nan()) || x == y || (x - y).abs() <= 1e-9 * (1.0 + x.abs().max(y.abs()));
    same(a.re, b.re) && same(a.im, b.im)
}

fn expr_equiv(a: &Expression, b: &Expression) -> bool {
    (0..3).all(|k| {
        let (v, m) = env(k);
        match (a.evaluate(&v, &m), b.evaluate(&v, &m)) {
            (Ok(x), Ok(y)) => close(x, y),
            (Err(_), Err(_)) => true,
            _ => false,
        }
    })
}

/// replace every expression / immediate by a constant, collecting the originals in order
fn strip(i: &mut Instruction, out: &mut Vec<Expression>) {
    let mut take = |e: &mut Expression| out.push(std::mem::replace(e, Expression::PiConstant()));
    match i {
        Instruction::Gate(g) => g.parameters.iter_mut().for_each(&mut take),
        Instruction::Delay(d) => take(&mut d.duration),
        Instruction::RawCapture(c) => take(&mut c.duration),
        Instruction::SetFrequency(x) => take(&mut x.frequency),
        Instruction::SetPhase(x) => take(&mut x.phase),
        Instruction::SetScale(x) => take(&mut x.scale),
        Instruction::ShiftFrequency(x) => take(&mut x.frequency),
        Instruction::ShiftPhase(x) => take(&mut x.phase),
        // waveform parameters are a map (printed sorted by key): compare in key order
        Instruction::Pulse(p) => {
            p.waveform.parameters.sort_keys();
            p.waveform.parameters.values_mut().for_each(&mut take)
        }
        Instruction::Capture(c) => {
            c.waveform.parameters.sort_keys();
            c.waveform.parameters.values_mut().for_each(&mut take)
        }
        Instruction::Call(c) => {
            for a in c.arguments.iter_mut() {
                if let UnresolvedCallArgument::Immediate(v) = a {
                    out.push(Expression::Number(*v));
                    *v = Complex64::new(0.0, 0.0);
                }
            }
        }
        Instruction::FrameDefinition(d) => {
            for v in d.attributes.values_mut() {
                if let AttributeValue::Expression(e) = v {
                    take(e);
                }
            }
        }
        Instruction::WaveformDefinition(d) => d.definition.matrix.iter_mut().for_each(&mut take),
        Instruction::GateDefinition(d) => match &mut d.specification {
            GateSpecification::Matrix(m) => m.iter_mut().flatten().for_each(&mut take),
            GateSpecification::PauliSum(s) => s.terms.iter_mut().for_each(|t| take(&mut t.expression)),
            // sequence gates are not mutable from outside the crate: compared structurally
            _ => {}
        },
        Instruction::CalibrationDefinition(d) => {
            d.identifier.parameters.iter_mut().for_each(&mut take);
            for b in d.instructions.iter_mut() {
                strip(b, out);
            }
        }
        Instruction::MeasureCalibrationDefinition(d) => {
            for b in d.instructions.iter_mut() {
                strip(b, out);
            }
        }
        Instruction::CircuitDefinition(d) => {
            for b in d.instructions.iter_mut() {
                strip(b, out);
            }
        }
        _ => {}
    }
}

fn equivalent(a: &Instruction, b: &Instruction) -> bool {
    if a == b {
        return true;
    }
    let (mut a2, mut b2) = (a.clone(), b.clone());
    let (mut ea, mut eb) = (Vec::new(), Vec::new());
    strip(&mut a2, &mut ea);
    strip(&mut b2, &mut eb);
    a2 == b2 && ea.len() == eb.len() && ea.iter().zip(&eb).all(|(x, y)| expr_equiv(x, y))
}

// ---------------------------------------------------------------------------------------------
// known-finding classes (see known_findings.json)

/// (has `--`: a prefix minus applied directly to a literal with a negative leading component,
///  has a purely negative real/imaginary literal, has a branch-cut operation)
fn expr_traits(e: &Expression, t: &mut (bool, bool, bool)) {
    let neg_lead = |c: &Complex64| if c.re != 0.0 { c.re < 0.0 } else { c.im < 0.0 };
    match e {
        Expression::Number(c) => {
            if (c.re < 0.0 && c.im == 0.0) || (c.im < 0.0 && c.re == 0.0) {
                t.1 = true;
            }
        }
        Expression::Prefix(p) => {
            if let (PrefixOperator::Minus, Expression::Number(c)) = (p.operator, p.expression.as_ref()) {
                if neg_lead(c) && !(c.re != 0.0 && c.im != 0.0) {
                    t.0 = true;
                }
            }
            expr_traits(&p.expression, t);
        }
        Expression::Infix(x) => {
            if x.operator == InfixOperator::Caret {
                t.2 = true;
            }
            expr_traits(&x.left, t);
            expr_traits(&x.right, t);
        }
        Expression::FunctionCall(f) => {
            if f.function == ExpressionFunction::SquareRoot {
                t.2 = true;
            }
            expr_traits(&f.expression, t);
        }
        _ => {}
    }
}

fn expr_class(i: &Instruction) -> Option<&'static str> {
    let mut c = i.clone();
    let mut es = Vec::new();
    strip(&mut c, &mut es);
    let mut dd = false;
    let mut cut = false;
    for e in &es {
        let mut t = (false, false, false);
        expr_traits(e, &mut t);
        dd |= t.0;
        cut |= t.1 && t.2;
    }
    let _ = dd; // `--1` is repaired (/repo 1e769e0): no longer a class
    if cut {
        Some("negative-literal-signed-zero")
    } else {
        None
    }
}

/// a literal with a negative-zero component: equal to (and printed as) the positive zero, and the
/// parser's expression interning may even hand it back; the model AST has one zero only
fn expr_has_neg_zero(e: &Expression) -> bool {
    match e {
        Expression::Number(c) => (c.re == 0.0 && c.re.is_sign_negative()) || (c.im == 0.0 && c.im.is_sign_negative()),
        Expression::Prefix(p) => expr_has_neg_zero(&p.expression),
        Expression::Infix(x) => expr_has_neg_zero(&x.left) || expr_has_neg_zero(&x.right),
        Expression::FunctionCall(f) => expr_has_neg_zero(&f.expression),
        _ => false,
    }
}

fn has_neg_zero(i: &Instruction) -> bool {
    let mut c = i.clone();
    let mut es = Vec::new();
    strip(&mut c, &mut es);
    es.iter().any(expr_has_neg_zero)
}

fn known_class(i: &Instruction) -> Option<&'static str> {
    known_class0(i).or_else(|| expr_class(i))
}

fn empty_definition(i: &Instruction) -> bool {
    match i {
        Instruction::CalibrationDefinition(d) => d.instructions.is_empty(),
        Instruction::MeasureCalibrationDefinition(d) => d.instructions.is_empty(),
        Instruction::CircuitDefinition(d) => d.instructions.is_empty(),
        Instruction::FrameDefinition(d) => d.attributes.is_empty(),
        Instruction::WaveformDefinition(d) => d.definition.matrix.is_empty(),
        Instruction::GateDefinition(d) => match &d.specification {
            GateSpecification::Matrix(m) => m.is_empty(),
            GateSpecification::Permutation(p) => p.is_empty(),
            _ => false,
        },
        _ => false,
    }
}

fn known_class0(i: &Instruction) -> Option<&'static str> {
    if empty_definition(i) {
        return Some("empty-definition-body");
    }
    fn awkward_real(v: f64) -> bool {
        // printed by {:?} / lexical in a form the lexer accepts only partly: none known
        let _ = v;
        false
    }
    match i {
        Instruction::Call(c) => {
            let bad = c.arguments.iter().any(|a| match a {
                UnresolvedCallArgument::Immediate(v) => v.re < 0.0 || v.im < 0.0 || (v.re != 0.0 && v.im != 0.0) || v.re.is_sign_negative() || v.im.is_sign_negative(),
                _ => false,
            });
            // a real immediate directly followed by an argument spelled `i` / `i[n]`
            let then_i = c.arguments.windows(2).any(|w| {
                matches!(&w[0], UnresolvedCallArgument::Immediate(v) if v.im == 0.0)
                    && match &w[1] {
                        UnresolvedCallArgument::Identifier(x) => x == "i",
                        UnresolvedCallArgument::MemoryReference(m) => m.name == "i",
                        _ => false,
                    }
            });
            if bad {
                Some("call-immediate-sign")
            } else if then_i {
                Some("call-immediate-then-i")
            } else {
                None
            }
        }
        Instruction::RawCapture(r) => {
            let dur = r.duration.to_quil_or_debug();
            if r.memory_reference.name == "i" && dur.chars().last().is_some_and(|c| c.is_ascii_digit() || c == '.') {
                Some("rawcapture-region-i")
            } else {
                None
            }
        }
        Instruction::CalibrationDefinition(d) => {
            d.instructions.iter().find_map(known_class0)
        }
        Instruction::MeasureCalibrationDefinition(d) => d.instructions.iter().find_map(known_class0),
        Instruction::CircuitDefinition(d) => d.instructions.iter().find_map(known_class0).or_else(|| {
            // DEFCIRCUIT indents its body by splitting each instruction's text on '\n': a quoted string
            // containing a newline gets the indentation inserted INSIDE the string
            if d.instructions.iter().any(|i| {
                !matches!(
                    i,
                    Instruction::CalibrationDefinition(_)
                        | Instruction::MeasureCalibrationDefinition(_)
                        | Instruction::CircuitDefinition(_)
                        | Instruction::GateDefinition(_)
                        | Instruction::FrameDefinition(_)
                        | Instruction::WaveformDefinition(_)
                ) && i.to_quil_or_debug().contains('\n')
            }) {
                Some("defcircuit-multiline-string")
            } else {
                None
            }
        }),
        Instruction::Move(m) => match m.source {
            ArithmeticOperand::LiteralReal(v) if awkward_real(v) => Some("real-literal"),
            _ => None,
        },
        _ => None,
    }
}

// ---------------------------------------------------------------------------------------------

thread_local! {
    static IN_CATCH: std::cell::Cell<bool> = const { std::cell::Cell::new(false) };
}

fn run_case(run: &mut Run, i: &Instruction, class: &str, mutant: u32) {
    let tree = node(i);
    let ph = has_placeholder(i);
    let mut res = match i.to_quil() {
        Ok(_) => "QOk",
        Err(ToQuilError::UnresolvedQubitPlaceholder) => "QErrQubit",
        Err(ToQuilError::UnresolvedLabelPlaceholder) => "QErrLabel",
        Err(_) => "QErrOther",
    };
    let i2 = i.clone();
    IN_CATCH.with(|c| c.set(true));
    let dbg = qv::catch(move || i2.to_quil_or_debug());
    IN_CATCH.with(|c| c.set(false));
    let mut dbg_ok = matches!(&dbg, Ok(s) if !s.is_empty());
    let mut reparse: Option<bool> = None;
    let mut text = String::new();
    let mut frag: Option<String> = None;
    if !ph {
        if let Ok(t) = i.to_quil() {
            text = t.clone();
            let parsed = Instruction::from_str(&t);
            reparse = Some(match &parsed {
                Ok(j) => equivalent(i, j),
                Err(_) => false,
            });
            // model comparison (waveform parameter keys are interned first: key order)
            let mut it = quilgen::Interner::default();
            ppmodel::preintern(std::slice::from_ref(i), &mut it);
            let a = if has_neg_zero(i) { None } else { ppmodel::item(i, &mut it) };
            if let (Some(a), Some(toks)) = (a, quilgen::tokens_to_coq(&t, &mut it)) {
                let j = match parsed.ok().and_then(|j| ppmodel::item(&j, &mut it)) {
                    Some(j) => format!("(Some ({j}))"),
                    None => "None".to_string(),
                };
                frag = Some(format!("(Some ({a}, {toks}, {j}))"));
            }
        } else {
            reparse = Some(false);
        }
    }
    // emulated implementation bugs
    match mutant {
        // 1: SWAP-PHASES does not look at the second frame's qubits: placeholder there goes unnoticed
        1 => {
            if let Instruction::SwapPhases(s) = i {
                if !s.frame_1.qubits.iter().any(|x| matches!(x, Qubit::Placeholder(_))) && s.frame_2.qubits.iter().any(|x| matches!(x, Qubit::Placeholder(_))) {
                    res = "QOk";
                }
            }
        }
        // 2: label placeholders reported with the qubit error
        2 => {
            if res == "QErrLabel" {
                res = "QErrQubit";
            }
        }
        // 3: the debug serializer fails on a placeholder inside a DEFCIRCUIT body
        3 => {
            if matches!(i, Instruction::CircuitDefinition(_)) && ph {
                dbg_ok = false;
            }
        }
        // 4: EXCHANGE re-parses with swapped operands
        4 => {
            if let Instruction::Exchange(x) = i {
                if x.left != x.right {
                    reparse = Some(false);
                }
            }
        }
        _ => {}
    }
    let known = if reparse == Some(false) { known_class(i) } else { None };
    let rp = match reparse {
        None => "None".to_string(),
        Some(b) => format!("(Some {b})"),
    };
    // 5 (emulated): the serializer prints waveform parameters in insertion order instead of sorted
    if mutant == 5 {
        if let (Some(f), Instruction::Pulse(p)) = (&mut frag, i) {
            let keys: Vec<&String> = p.waveform.parameters.keys().collect();
            if keys.len() == 2 && keys[0] > keys[1] {
                let mut q = p.clone();
                q.waveform.parameters.sort_keys();
                // the text a sorting serializer would not have printed: swap the two `k: e` groups
                let e0 = p.waveform.parameters[0].to_quil_or_debug();
                let e1 = p.waveform.parameters[1].to_quil_or_debug();
                let swapped = text.replacen(&format!("{}: {e1}, {}: {e0}", keys[1], keys[0]), &format!("{}: {e0}, {}: {e1}", keys[0], keys[1]), 1);
                let mut it = quilgen::Interner::default();
                ppmodel::preintern(std::slice::from_ref(i), &mut it);
                if let (Some(a), Some(toks)) = (ppmodel::item(i, &mut it), quilgen::tokens_to_coq(&swapped, &mut it)) {
                    *f = format!("(Some ({a}, {toks}, (Some ({a}))))");
                }
            }
        }
    }
    // 6 (emulated): DEFCAL MEASURE drops the target name when printing
    if mutant == 6 {
        if let (Some(f), Instruction::MeasureCalibrationDefinition(d)) = (&mut frag, i) {
            if let Some(tn) = &d.identifier.target {
                let dropped = text.replacen(&format!(" {tn}:"), ":", 1);
                let mut it = quilgen::Interner::default();
                ppmodel::preintern(std::slice::from_ref(i), &mut it);
                if let (Some(a), Some(toks)) = (ppmodel::item(i, &mut it), quilgen::tokens_to_coq(&dropped, &mut it)) {
                    let j = Instruction::from_str(&dropped).ok().and_then(|j| ppmodel::item(&j, &mut it));
                    *f = format!("(Some ({a}, {toks}, {}))", j.map(|j| format!("(Some ({j}))")).unwrap_or("None".into()));
                }
            }
        }
    }
    run.count(if frag.is_some() { "model-compared" } else if ph { "model-skipped:placeholder" } else { "model-skipped:not-representable" });
    if frag.is_some() {
        run.count(&format!("modelled:{}", kind_name(i)));
    }
    let coq = format!("(({tree}, {res}, {dbg_ok}, {rp}), {})", frag.as_deref().unwrap_or("None"));
    let desc = if ph { format!("{class} {}", i.to_quil_or_debug().replace('\n', "\\n")) } else { format!("{class} {}", text.replace('\n', "\\n")) };
    run.count(&format!("{class}:{}:{}", if ph { "placeholder" } else { "concrete" }, res));
    if let Some(false) = reparse {
        run.count(&format!("reparse-failed:{}", known.unwrap_or("UNEXPLAINED")));
        if known.is_none() && std::env::var("QV_DEBUG").is_ok() {
            eprintln!("UNEXPLAINED {desc}\n   {:?}\n   {:?}", i, Instruction::from_str(&text));
        }
    }
    run.case(coq, &desc, true, known);
}

fn main() {
    let args = Args::parse();
    if let Some(case) = &args.replay {
        println!("replay: {case}");
        if let Some((_, text)) = case.split_once(' ') {
            let text = text.replace("\\n", "\n");
            println!("re-parse of the printed text: {:?}", Instruction::from_str(&text).map_err(|e| e.to_string()));
        }
        return;
    }
    // panics of the harness itself (not of the code under test) must be visible
    let _ = qv::catch(|| ());
    std::panic::set_hook(Box::new(|info| {
        if !IN_CATCH.with(|c| c.get()) {
            eprintln!("harness panic: {info}");
        }
    }));
    let mutant: u32 = std::env::var("QV_MUTANT").ok().and_then(|s| s.parse().ok()).unwrap_or(0);
    let header = "From Coq Require Import List NArith ZArith.\nFrom QV Require Import Model.ParsePanic Model.PrintParse.\nImport ListNotations.\nOpen Scope N_scope.";
    let mut run = Run::new(&args.out, header, "phx_case", "phx_failing", 1000);
    let thorough = args.thorough();
    let mut rng = Rng::new(args.seed);

    // (1) exhaustive small scope: every placeholder pattern on the qubit/target positions of small
    // instances of each position-bearing kind
    let pat = |bits: usize, k: usize| -> Qubit {
        if bits >> k & 1 == 1 {
            Qubit::Placeholder(QubitPlaceholder::default())
        } else if k % 2 == 0 {
            Qubit::Fixed(k as u64)
        } else {
            Qubit::Variable(format!("q{k}"))
        }
    };
    let tgt = |ph: bool| if ph { Target::Placeholder(TargetPlaceholder::new("l".into())) } else { Target::Fixed("l".into()) };
    let wf = || WaveformInvocation::new("flat".into(), IndexMap::new());
    let m0 = || MemoryReference::new("ro".into(), 0);
    for bits in 0..16usize {
        let f1 = FrameIdentifier::new("xy".into(), vec![pat(bits, 0), pat(bits, 1)]);
        let f2 = FrameIdentifier::new("cz".into(), vec![pat(bits, 2), pat(bits, 3)]);
        let one = Expression::Number(Complex64::new(1.0, 0.0));
        let all: Vec<Instruction> = vec![
            Instruction::Gate(Gate::new("CCNOT", vec![], vec![pat(bits, 0), pat(bits, 1), pat(bits, 2)], vec![]).unwrap()),
            Instruction::SwapPhases(SwapPhases::new(f1.clone(), f2.clone())),
            Instruction::Pulse(Pulse::new(true, f1.clone(), wf())),
            Instruction::Capture(Capture::new(false, f1.clone(), m0(), wf())),
            Instruction::RawCapture(RawCapture::new(true, f2.clone(), one.clone(), m0())),
            Instruction::SetFrequency(SetFrequency::new(f1.clone(), one.clone())),
            Instruction::ShiftPhase(ShiftPhase::new(f2.clone(), one.clone())),
            Instruction::Delay(Delay::new(one.clone(), vec!["xy".into()], vec![pat(bits, 0), pat(bits, 1)])),
            Instruction::Fence(Fence::new(vec![pat(bits, 0), pat(bits, 1), pat(bits, 2), pat(bits, 3)])),
            Instruction::Measurement(Measurement::new(None, pat(bits, 0), Some(m0()))),
            Instruction::Reset(Reset::new(Some(pat(bits, 0)))),
            Instruction::FrameDefinition(FrameDefinition::new(f1.clone(), IndexMap::from([("DIRECTION".to_string(), AttributeValue::String("rx".into()))]))),
            Instruction::Label(Label::new(tgt(bits & 1 == 1))),
            Instruction::Jump(Jump { target: tgt(bits & 1 == 1) }),
            Instruction::JumpWhen(JumpWhen::new(tgt(bits & 1 == 1), m0())),
            Instruction::JumpUnless(JumpUnless::new(tgt(bits & 2 == 2), m0())),
            Instruction::CalibrationDefinition(CalibrationDefinition::new(
                CalibrationIdentifier::new("X".into(), vec![], vec![], vec![pat(bits, 0)]).unwrap(),
                vec![
                    Instruction::Jump(Jump { target: tgt(bits & 2 == 2) }),
                    Instruction::Gate(Gate::new("Y", vec![], vec![pat(bits, 2)], vec![]).unwrap()),
                    Instruction::Label(Label::new(tgt(bits & 8 == 8))),
                ],
            )),
            Instruction::MeasureCalibrationDefinition(MeasureCalibrationDefinition::new(
                MeasureCalibrationIdentifier::new(None, pat(bits, 0), Some("dest".into())),
                vec![Instruction::Label(Label::new(tgt(bits & 2 == 2))), Instruction::Reset(Reset::new(Some(pat(bits, 2))))],
            )),
            Instruction::CircuitDefinition(CircuitDefinition::new(
                "C".into(),
                vec![],
                vec![],
                vec![
                    Instruction::Label(Label::new(tgt(bits & 1 == 1))),
                    Instruction::Measurement(Measurement::new(None, pat(bits, 1), None)),
                    Instruction::CalibrationDefinition(CalibrationDefinition::new(
                        CalibrationIdentifier::new("X".into(), vec![], vec![], vec![pat(bits, 2)]).unwrap(),
                        vec![Instruction::Jump(Jump { target: tgt(bits & 8 == 8) })],
                    )),
                ],
            )),
        ];
        for i in &all {
            // nested definitions do not re-parse (C02 finding nested-block-definition): only the
            // placeholder behaviour of that tree is of interest here
            if matches!(i, Instruction::CircuitDefinition(_)) && !has_placeholder(i) {
                continue;
            }
            run_case(&mut run, i, "exhaustive", mutant);
        }
    }
    let exhaustive = run.evaluations;

    // (2) random trees of every kind: concrete (round trip) and with placeholders
    let per_kind = if thorough { 600 } else { 120 };
    for kind in 0..N_KINDS {
        for k in 0..per_kind {
            let ph = if k % 3 == 0 { 6 } else { 0 };
            let mut g = Gen { r: &mut rng, ph };
            let i = g.instr(kind);
            run_case(&mut run, &i, "random", mutant);
        }
    }
    // (3) the defect families named in the property
    let mut g = Gen { r: &mut rng, ph: 0 };
    for _ in 0..(if thorough { 400 } else { 80 }) {
        let q0 = vec![Qubit::Fixed(0)];
        let sym = [Expression::Variable("x".into()), Expression::PiConstant(), Expression::Address(MemoryReference::new("d".into(), 0)), g.expr(2)][g.r.below(4)].clone();
        run_case(&mut run, &Instruction::Delay(Delay::new(sym, vec![], q0.clone())), "delay-symbolic", mutant);
        let im = g.number();
        run_case(&mut run, &Instruction::Call(Call::try_new("foo".into(), vec![UnresolvedCallArgument::Immediate(im)]).unwrap()), "call-immediate", mutant);
        // a real immediate followed by an argument spelled `i` (and the harmless neighbours: an
        // imaginary immediate before `i`, `i` before an immediate, another identifier)
        {
            let re = Complex64::new(g.real(), 0.0);
            let imm = UnresolvedCallArgument::Immediate(if g.r.chance(1, 4) { Complex64::new(0.0, 2.5) } else { re });
            let nm = ["i", "i", "I", "pi", "x"][g.r.below(5)].to_string();
            let second = if g.r.chance(1, 2) { UnresolvedCallArgument::Identifier(nm) } else { UnresolvedCallArgument::MemoryReference(MemoryReference::new(nm, g.r.below(3) as u64)) };
            let args = if g.r.chance(1, 4) { vec![second, imm] } else { vec![imm, second] };
            run_case(&mut run, &Instruction::Call(Call::try_new("foo".into(), args).unwrap()), "call-then-i", mutant);
        }
        let v = [1.0, 2.0, 1e300, -3.0, 1e15, 1e16, 0.0, -0.0, 1e-300, 5e-324][g.r.below(10)];
        run_case(&mut run, &Instruction::Move(Move::new(MemoryReference::new("ro".into(), 0), ArithmeticOperand::LiteralReal(v))), "integral-real", mutant);
        let f = FrameIdentifier::new("a".into(), q0.clone());
        run_case(
            &mut run,
            &Instruction::RawCapture(RawCapture::new(true, f, Expression::Number(Complex64::new(g.real(), 0.0)), MemoryReference::new("i".into(), 0))),
            "rawcapture-i",
            mutant,
        );
    }
    // definitions with an empty body / attribute map / matrix: accepted by the constructors
    {
        let q0 = vec![Qubit::Fixed(0)];
        let empties = vec![
            Instruction::CalibrationDefinition(CalibrationDefinition::new(CalibrationIdentifier::new("X".into(), vec![], vec![], q0.clone()).unwrap(), vec![])),
            Instruction::MeasureCalibrationDefinition(MeasureCalibrationDefinition::new(MeasureCalibrationIdentifier::new(None, Qubit::Fixed(0), None), vec![])),
            Instruction::CircuitDefinition(CircuitDefinition::new("C".into(), vec![], vec![], vec![])),
            Instruction::FrameDefinition(FrameDefinition::new(FrameIdentifier::new("xy".into(), q0.clone()), IndexMap::new())),
            Instruction::WaveformDefinition(WaveformDefinition::new("w".into(), Waveform::new(vec![], vec![]))),
            Instruction::GateDefinition(GateDefinition::new("G".into(), vec![], GateSpecification::Matrix(vec![])).unwrap()),
            Instruction::GateDefinition(GateDefinition::new("G".into(), vec![], GateSpecification::Permutation(vec![])).unwrap()),
        ];
        for i in &empties {
            run_case(&mut run, i, "empty-definition", mutant);
        }
        // open finding defcircuit-multiline-string: a quoted string containing a newline inside a
        // DEFCIRCUIT body (the same body in a DEFCAL round-trips and is a normal case)
        let pragma = Instruction::Pragma(Pragma::new("note".into(), vec![], Some("two\nlines".into())));
        let delay = Instruction::Delay(Delay::new(Expression::Number(Complex64::new(1.0, 0.0)), vec!["r\n_rx".into()], q0.clone()));
        for body in [vec![pragma.clone()], vec![delay.clone(), Instruction::Nop()]] {
            run_case(&mut run, &Instruction::CircuitDefinition(CircuitDefinition::new("C".into(), vec![], vec![], body.clone())), "defcircuit-multiline-string", mutant);
            run_case(
                &mut run,
                &Instruction::CalibrationDefinition(CalibrationDefinition::new(CalibrationIdentifier::new("X".into(), vec![], vec![], q0.clone()).unwrap(), body)),
                "defcal-multiline-string",
                mutant,
            );
        }
    }
    run.finish(
        "Instruction trees built through the public constructors (Gate::new, Delay::new, Call::try_new, \
         Pulse/Capture/RawCapture::new, FrameIdentifier::new, WaveformInvocation::new, Pragma::new, \
         Declaration::new, GateDefinition::new with all four specifications, CalibrationDefinition::new, \
         MeasureCalibrationDefinition::new, CircuitDefinition::new, FrameDefinition::new, \
         WaveformDefinition::new, Target/Qubit placeholders). Exhaustive: all 16 placeholder patterns over \
         the qubit/target positions of 19 position-bearing shapes (incl. nested bodies); random: 34 kinds, \
         expressions of depth <= 3 with negative/complex/prefix-plus nodes, one third with placeholders; \
         plus the named defect families. Distinct by printed text; every case is non-trivial.",
        true,
        serde_json::json!({"exhaustive_cases": exhaustive, "mutant": mutant}),
    );
}
