//! C13 — substitution, evaluation and memory-reference listing agree.
//!
//! For every generated (expression, variable environment, memory, numeric substitution) the real
//! `Expression::{evaluate, substitute_variables, memory_references}` are run and their results are
//! printed next to the input; inside Coq the model (Model/Expr.v, executed over exact dyadic
//! arithmetic) is run on the same input and compared, and the verified checker `chk_c13` is run
//! on the implementation's outputs.
#[path = "../exprgen.rs"]
mod exprgen;
use exprgen::*;
use num_complex::Complex64;
use qv::{gallina as g, Args, Rng, Run};
use quil_rs::expression::{EvaluationError, Expression};
use std::collections::HashMap;

type Res = Result<Complex64, EvaluationError>;

/// One assignment: variables -> Complex64, regions -> Vec<f64>, numeric substitution.
#[derive(Clone, Debug, Default)]
struct Env {
    rv: Vec<(usize, (f64, f64))>,
    rm: Vec<(usize, Vec<f64>)>,
    sg: Vec<(usize, (f64, f64))>,
}

const RV_VAL: [(f64, f64); 4] = [(0.5, 0.0), (3.0, -1.0), (-2.0, 0.0), (0.25, 0.5)];
const SG_VAL: [(f64, f64); 4] = [(0.75, 0.0), (-2.0, 0.25), (1.5, 0.0), (4.0, 0.0)];
const CELLS: [[f64; 3]; 3] = [[1.5, -2.0, 0.5], [4.0, 0.25, -1.0], [-0.75, 8.0, 2.0]];

fn obs(r: &Res) -> String {
    match r {
        Err(_) => "None".to_string(),
        Ok(v) => format!("(Some {})", xc(*v)),
    }
}
fn same_bits(a: &Res, b: &Res) -> bool {
    match (a, b) {
        (Err(x), Err(y)) => x == y,
        (Ok(x), Ok(y)) => {
            let eq = |p: f64, q: f64| p.to_bits() == q.to_bits() || (p.is_nan() && q.is_nan());
            eq(x.re, y.re) && eq(x.im, y.im)
        }
        _ => false,
    }
}

fn env_coq(env: &Env) -> (String, String, String) {
    let rv = g::list(
        &env.rv.iter().map(|(x, (re, im))| format!("({x}, {})", gq(*re, *im))).collect::<Vec<_>>(),
    );
    let rm = g::list(
        &env.rm
            .iter()
            .map(|(n, cells)| {
                format!("({n}, {})", g::list(&cells.iter().map(|c| q(*c)).collect::<Vec<_>>()))
            })
            .collect::<Vec<_>>(),
    );
    let sg = g::list(
        &env.sg.iter().map(|(x, (re, im))| format!("({x}, {})", gq(*re, *im))).collect::<Vec<_>>(),
    );
    (rv, rm, sg)
}

fn env_show(env: &Env) -> String {
    let rv: Vec<String> =
        env.rv.iter().map(|(x, v)| format!("{}={:?}", VAR_NAMES[*x], v)).collect();
    let rm: Vec<String> =
        env.rm.iter().map(|(n, c)| format!("{}={:?}", REGION_NAMES[*n], c)).collect();
    let sg: Vec<String> =
        env.sg.iter().map(|(x, v)| format!("{}:={:?}", VAR_NAMES[*x], v)).collect();
    format!("vars{{{}}} mem{{{}}} subst{{{}}}", rv.join(","), rm.join(","), sg.join(","))
}

/// Does the model-level definition say everything is supplied?  (only for the `nontrivial` rule)
fn run_case(run: &mut Run, e: &E, env: &Env, mutant: u32) {
    let ex: Expression = to_impl(e);
    let rv: HashMap<String, Complex64> = env
        .rv
        .iter()
        .map(|(x, (re, im))| (VAR_NAMES[*x].to_string(), Complex64::new(*re, *im)))
        .collect();
    let rm: HashMap<String, Vec<f64>> =
        env.rm.iter().map(|(n, c)| (REGION_NAMES[*n].to_string(), c.clone())).collect();
    let sg: HashMap<String, Expression> = env
        .sg
        .iter()
        .map(|(x, (re, im))| (VAR_NAMES[*x].to_string(), Expression::Number(Complex64::new(*re, *im))))
        .collect();
    let mut union = rv.clone();
    for (x, (re, im)) in &env.sg {
        union.insert(VAR_NAMES[*x].to_string(), Complex64::new(*re, *im));
    }

    let mut ev = ex.evaluate(&rv, &rm);
    let sub = ex.substitute_variables(&sg);
    let mut sub_e = from_impl(&sub);
    let ev_sub = sub.evaluate(&rv, &rm);
    let ev_union = ex.evaluate(&union, &rm);
    let mut mrefs: Vec<(usize, u64)> = ex
        .memory_references()
        .map(|m| (REGION_NAMES.iter().position(|n| *n == m.name).unwrap_or(99), m.index))
        .collect();

    // QV_MUTANT: perturb the *observed* outputs the way a subtle bug in the code would.
    match mutant {
        // 1: the iterator pushes the left child and descends right (swapped order)
        1 => {
            fn rev(e: &E, out: &mut Vec<(usize, u64)>) {
                match e {
                    E::Addr(n, i) => out.push((*n, *i)),
                    E::Fn(_, a) | E::Prefix(_, a) => rev(a, out),
                    E::Infix(l, _, r) => {
                        rev(r, out);
                        rev(l, out)
                    }
                    _ => {}
                }
            }
            mrefs.clear();
            rev(e, &mut mrefs);
        }
        // 2: a dropped case: prefix nodes are treated as leaves by the iterator
        2 => {
            fn drop_prefix(e: &E, out: &mut Vec<(usize, u64)>) {
                match e {
                    E::Addr(n, i) => out.push((*n, *i)),
                    E::Fn(_, a) => drop_prefix(a, out),
                    E::Infix(l, _, r) => {
                        drop_prefix(l, out);
                        drop_prefix(r, out)
                    }
                    _ => {}
                }
            }
            mrefs.clear();
            drop_prefix(e, &mut mrefs);
        }
        // 3: off-by-one in the bounds check of `evaluate` (index == len accepted, reads 0.0)
        3 => {
            if ev.is_err() {
                let mut a = Vec::new();
                e.addrs(&mut a);
                let mut vs = Vec::new();
                e.vars(&mut vs);
                let vars_ok = vs.iter().all(|x| env.rv.iter().any(|(y, _)| y == x));
                let cells_ok = a.iter().all(|(n, i)| {
                    env.rm.iter().any(|(m, c)| m == n && (*i as usize) <= c.len())
                });
                if vars_ok && cells_ok {
                    ev = Ok(Complex64::new(0.0, 0.0));
                }
            }
        }
        // 4: substitute_variables does not descend into function-call arguments
        4 => {
            fn shallow(e: &E, sg: &[(usize, (f64, f64))]) -> E {
                match e {
                    E::Var(x) => match sg.iter().find(|(y, _)| y == x) {
                        Some((_, (re, im))) => E::Num(*re, *im),
                        None => e.clone(),
                    },
                    E::Prefix(m, a) => E::Prefix(*m, Box::new(shallow(a, sg))),
                    E::Infix(l, o, r) => E::infix(shallow(l, sg), *o, shallow(r, sg)),
                    _ => e.clone(),
                }
            }
            sub_e = shallow(e, &env.sg);
        }
        _ => {}
    }

    let (rvs, rms, sgs) = env_coq(env);
    let o = format!(
        "{{| o_eval := {}; o_sub := {}; o_eval_sub := {}; o_eval_union := {}; o_same_bits := {}; o_mrefs := {} |}}",
        obs(&ev),
        coq(&sub_e),
        obs(&ev_sub),
        obs(&ev_union),
        g::boolean(same_bits(&ev_sub, &ev_union)),
        g::list(&mrefs.iter().map(|(n, i)| format!("({n}, {i})")).collect::<Vec<_>>()),
    );
    let lit = format!("({}, {rvs}, {rms}, {sgs}, {o})", coq(e));
    let desc = format!("{} | {}", show(e), env_show(env));
    let mut a = Vec::new();
    e.addrs(&mut a);
    let mut vs = Vec::new();
    e.vars(&mut vs);
    let nontrivial = !a.is_empty() || !vs.is_empty();
    run.count(&format!("size={}", e.size().min(12)));
    run.count(if ev.is_ok() { "eval=Ok" } else { "eval=Err" });
    if let Ok(v) = &ev {
        run.count(if dyadic(v.re).is_some() && dyadic(v.im).is_some() {
            "value=small-dyadic"
        } else {
            "value=other-double"
        });
    }
    run.count(&format!("memrefs={}", mrefs.len().min(6)));
    run.case(lit, &desc, nontrivial, None);
}

/// All partial assignments over the names occurring in `e`: each variable is unbound / bound in
/// the environment / substituted / both; each region is absent or has 0..=3 cells.
fn all_envs(e: &E) -> Vec<Env> {
    let mut vs = Vec::new();
    e.vars(&mut vs);
    let mut ad = Vec::new();
    e.addrs(&mut ad);
    let mut regions: Vec<usize> = Vec::new();
    for (n, _) in &ad {
        if !regions.contains(n) {
            regions.push(*n);
        }
    }
    let mut envs = vec![Env::default()];
    for x in vs {
        let mut next = Vec::new();
        for env in &envs {
            for choice in 0..4 {
                let mut e2 = env.clone();
                if choice & 1 != 0 {
                    e2.rv.push((x, RV_VAL[x]));
                }
                if choice & 2 != 0 {
                    e2.sg.push((x, SG_VAL[x]));
                }
                next.push(e2);
            }
        }
        envs = next;
    }
    for n in regions {
        let mut next = Vec::new();
        for env in &envs {
            next.push(env.clone()); // region absent
            for len in 0..=3usize {
                let mut e2 = env.clone();
                e2.rm.push((n, CELLS[n][..len].to_vec()));
                next.push(e2);
            }
        }
        envs = next;
    }
    envs
}

fn random_env(rng: &mut Rng) -> Env {
    let mut env = Env::default();
    for x in 0..VAR_NAMES.len() {
        // mostly supplied, so that deep trees evaluate
        let c = rng.below(8);
        if c != 0 && c != 1 {
            env.rv.push((x, RV_VAL[x]));
        }
        if c == 1 || c == 2 || c == 3 {
            env.sg.push((x, SG_VAL[x]));
        }
    }
    for n in 0..REGION_NAMES.len() {
        let c = rng.below(8);
        if c != 0 {
            let len = if c == 1 { rng.below(3) } else { 3 };
            env.rm.push((n, CELLS[n][..len].to_vec()));
        }
    }
    env
}

// ---------------------------------------------------------------------------------------------
// Deep stream: chains of depth 100 .. 3000.  The three clauses of the property are decided in the
// harness (a 3000-deep literal is not something to feed to Coq's parser); the whole stream runs
// in a thread with a 1 GiB stack so that recursion in the real code cannot kill the harness.

fn deep_chain(shape: usize, depth: usize) -> E {
    // leaves cycle through supplied variables / cells
    let leaf = |k: usize| match k % 5 {
        0 => E::Var(0),
        1 => E::Addr(0, (k % 3) as u64),
        2 => E::Var(1),
        3 => E::Addr(1, ((k / 5) % 3) as u64),
        _ => E::Num(0.5, 0.0),
    };
    let ops = [Op::Plus, Op::Star, Op::Minus, Op::Plus];
    let mut e = leaf(0);
    for k in 1..=depth {
        e = match shape {
            // left-nested infix
            0 => E::infix(e, ops[k % 4], leaf(k)),
            // right-nested infix
            1 => E::infix(leaf(k), ops[k % 4], e),
            // prefix / function chain
            2 => match k % 3 {
                0 => E::neg(e),
                1 => E::fnc(F::Sin, e),
                _ => E::pos(e),
            },
            // alternating infix left / function / infix right / prefix
            _ => match k % 4 {
                0 => E::infix(e, ops[(k / 4) % 4], leaf(k)),
                1 => E::fnc(F::Cos, e),
                2 => E::infix(leaf(k), ops[(k / 4) % 4], e),
                _ => E::neg(e),
            },
        };
    }
    e
}

fn deep_stream(run: &mut Run, mutant: u32) -> u64 {
    let mut n = 0u64;
    let full = Env {
        rv: vec![(0, RV_VAL[0]), (1, RV_VAL[1])],
        rm: vec![(0, CELLS[0].to_vec()), (1, CELLS[1].to_vec())],
        sg: vec![(1, SG_VAL[1])],
    };
    let only_subst = Env { rv: vec![(0, RV_VAL[0])], rm: full.rm.clone(), sg: vec![(1, SG_VAL[1])] };
    let missing_var = Env { rv: vec![(0, RV_VAL[0])], rm: full.rm.clone(), sg: vec![] };
    let short_region = Env { rv: full.rv.clone(), rm: vec![(0, CELLS[0].to_vec()), (1, CELLS[1][..2].to_vec())], sg: vec![] };
    let envs = [("full", &full), ("only-subst", &only_subst), ("missing-var", &missing_var), ("short-region", &short_region)];
    for depth in [100usize, 255, 256, 257, 300, 1000, 3000] {
        for shape in 0..4 {
            let e = deep_chain(shape, depth);
            let ex = to_impl(&e);
            let mut addrs = Vec::new();
            e.addrs(&mut addrs);
            let mut vars = Vec::new();
            e.vars(&mut vars);
            let desc = format!("deep chain shape {shape} depth {depth} ({} nodes, {} address leaves)", e.size(), addrs.len());
            // memory references: exactly the address leaves, in order
            let mut mrefs: Vec<(usize, u64)> = ex
                .memory_references()
                .map(|m| (REGION_NAMES.iter().position(|x| *x == m.name).unwrap_or(99), m.index))
                .collect();
            if mutant == 1 {
                mrefs.reverse();
            }
            n += 1;
            if mrefs != addrs {
                run.process_failure("memory_references() is not the list of address leaves in order", &desc, None);
            }
            for (ename, env) in envs {
                let rv: HashMap<String, Complex64> = env
                    .rv
                    .iter()
                    .map(|(x, (re, im))| (VAR_NAMES[*x].to_string(), Complex64::new(*re, *im)))
                    .collect();
                let rm: HashMap<String, Vec<f64>> =
                    env.rm.iter().map(|(r, c)| (REGION_NAMES[*r].to_string(), c.clone())).collect();
                let sg: HashMap<String, Expression> = env
                    .sg
                    .iter()
                    .map(|(x, (re, im))| (VAR_NAMES[*x].to_string(), Expression::Number(Complex64::new(*re, *im))))
                    .collect();
                let mut union = rv.clone();
                for (x, (re, im)) in &env.sg {
                    union.insert(VAR_NAMES[*x].to_string(), Complex64::new(*re, *im));
                }
                let supplied = |vs: &HashMap<String, Complex64>| {
                    vars.iter().all(|x| vs.contains_key(VAR_NAMES[*x]))
                        && addrs.iter().all(|(r, i)| rm.get(REGION_NAMES[*r]).map_or(false, |c| (*i as usize) < c.len()))
                };
                let ev = ex.evaluate(&rv, &rm);
                let sub = ex.substitute_variables(&sg);
                let ev_sub = sub.evaluate(&rv, &rm);
                let ev_union = ex.evaluate(&union, &rm);
                n += 1;
                run.count(&format!("deep={}", if ev.is_ok() { "Ok" } else { "Err" }));
                if ev.is_ok() != supplied(&rv) {
                    run.process_failure(
                        &format!("evaluate returned {} although everything needed is {}supplied", if ev.is_ok() { "Ok" } else { "Err" }, if supplied(&rv) { "" } else { "NOT " }),
                        &format!("{desc}, env {ename}"),
                        None,
                    );
                }
                if ev_union.is_ok() != supplied(&union) {
                    run.process_failure("evaluate (union environment) Ok/Err does not match 'everything supplied'", &format!("{desc}, env {ename}"), None);
                }
                if !same_bits(&ev_sub, &ev_union) {
                    run.process_failure("substitute-then-evaluate differs from evaluate-with-binding", &format!("{desc}, env {ename}"), None);
                }
            }
            // depth 100 is also shipped to Coq (model vs implementation)
            if depth == 100 {
                run_case(run, &e, &full, mutant);
            }
        }
    }
    n
}

fn main() {
    let args = Args::parse();
    let mutant = exprgen::mutant();
    let header = "From Coq Require Import List NArith ZArith QArith.\nFrom QV Require Import Model.Expr Model.ExactNum Model.ExprCheck.\nImport ListNotations.\nOpen Scope N_scope.";
    let mut run = Run::new(&args.out, header, "c13case", "failing", 700);

    let al = Alphabet {
        leaves: vec![
            E::Num(2.0, 0.0),
            E::Num(-1.25, 0.5),
            E::Pi,
            E::Var(0),
            E::Var(1),
            E::Addr(0, 0),
            E::Addr(0, 2),
            E::Addr(1, 1),
        ],
        unary: vec![U::Fn(F::Sin), U::Fn(F::Sqrt), U::Neg, U::Pos],
        binary: ALL_OP.to_vec(),
    };
    // (1) exhaustive: every tree of depth <= 3 within the node budget x every partial assignment
    let full_nodes = if args.thorough() { 4 } else { 3 };
    let trees = enumerate(&al, 3, full_nodes);
    let ntrees = trees.len();
    for e in &trees {
        for env in all_envs(e) {
            run_case(&mut run, e, &env, mutant);
        }
    }
    let exhaustive_cases = run.evaluations;
    // (2) the next node count: every tree, a few assignments each
    let mut rng = Rng::new(args.seed);
    let more = enumerate(&al, 3, full_nodes + 1);
    let mut sampled_trees = 0u64;
    for e in more.iter().filter(|e| e.size() == full_nodes + 1) {
        // thorough: all of them; quick: every other tree
        if !args.thorough() && rng.chance(1, 2) {
            continue;
        }
        sampled_trees += 1;
        let envs = all_envs(e);
        for _ in 0..2 {
            let env = rng.pick(&envs).clone();
            run_case(&mut run, e, &env, mutant);
        }
    }
    // (3) random deeper trees (depth <= 5) under random assignments
    let big = Alphabet {
        leaves: vec![
            E::Num(0.5, 0.0),
            E::Num(3.0, 0.0),
            E::Num(-1.25, 0.5),
            E::Num(0.0, 0.0),
            E::Pi,
            E::Var(0),
            E::Var(1),
            E::Var(2),
            E::Var(3),
            E::Addr(0, 0),
            E::Addr(0, 1),
            E::Addr(0, 2),
            E::Addr(1, 0),
            E::Addr(1, 3),
            E::Addr(2, 1),
        ],
        unary: vec![U::Fn(F::Sin), U::Fn(F::Cos), U::Fn(F::Exp), U::Fn(F::Cis), U::Fn(F::Sqrt), U::Neg, U::Pos],
        binary: vec![Op::Plus, Op::Minus, Op::Star, Op::Plus, Op::Star, Op::Slash, Op::Caret],
    };
    let nrand = if args.thorough() { 20000 } else { 2500 };
    for _ in 0..nrand {
        let d = rng.range(3, 5);
        let e = random(&big, &mut rng, d);
        let env = random_env(&mut rng);
        run_case(&mut run, &e, &env, mutant);
    }
    // (4) deep chains, in a thread with a large stack
    let ndeep = std::thread::scope(|sc| {
        std::thread::Builder::new()
            .stack_size(1 << 30)
            .spawn_scoped(sc, || deep_stream(&mut run, mutant))
            .expect("spawn")
            .join()
    });
    let ndeep = match ndeep {
        Ok(n) => n,
        Err(_) => {
            run.process_failure("the deep stream panicked", "deep chains", None);
            0
        }
    };
    run.finish(
        "exhaustive: every expression tree of depth <= 3 with at most N nodes (N = extra.full_nodes) over \
         {2, -1.25+0.5i, pi, %x, %y, a[0], a[2], b[1]; sin, sqrt, prefix -, prefix +; ^ + - / *} paired with \
         every partial assignment over the names it mentions (variable unbound / bound / substituted / both; \
         region absent or of length 0..3); trees with N+1 nodes with two sampled assignments; seeded random \
         trees of depth <= 5 with random assignments; deep chains (left-nested, right-nested, prefix/function and \
         alternating, depth 100..3000) under a full, a substitution-only, a missing-variable and a short-region \
         environment, judged in the harness (depth 100 also in Coq). Distinct by (tree, assignment); non-trivial = the tree \
         mentions at least one variable or address.",
        true,
        serde_json::json!({"full_nodes": full_nodes, "exhaustive_trees": ntrees, "exhaustive_cases": exhaustive_cases,
                           "next_size_trees": sampled_trees, "random_cases": nrand, "deep_checks": ndeep, "mutant": mutant}),
    );
}
