//! C03 — serialized expressions denote the same value when parsed back.
//!
//! For every generated expression `e` (built through the API) the real `to_quil()` text, the real
//! lexer's tokens for that text and the real `Expression::from_str` of that text are printed next
//! to `e`; inside Coq the printer model (text byte-for-byte, token sequence) and the Pratt-parser
//! model are run and compared, and the verified checker `chk_reparse` decides that the
//! implementation's re-parse is the normal form of `e` (which has the same value).  In addition
//! the harness evaluates `e` and its re-parse with the implementation at 3 generic assignments.
#[path = "../exprgen.rs"]
mod exprgen;
use exprgen::*;
use num_complex::Complex64;
use qv::{gallina as g, Args, Rng, Run};
use quil_rs::expression::Expression;
use quil_rs::quil::Quil;
use std::collections::HashMap;
use std::str::FromStr;

// ---------------------------------------------------------------------------------------------
// Gallina printers for the text model (literals = sign and finite decimal)

/// `(integer part, fractional digits)` of |v| if its shortest decimal text is plain.
fn dec(v: f64) -> Option<String> {
    let a = v.abs();
    if !a.is_finite() || (a != 0.0 && !(1e-5..1e15).contains(&a)) {
        return None;
    }
    let s = format!("{a}");
    if s.contains('e') || s.contains('E') {
        return None;
    }
    let (ip, fp) = match s.split_once('.') {
        Some((i, f)) => (i.to_string(), f.to_string()),
        None => (s.clone(), String::new()),
    };
    let digits: Vec<String> = fp.chars().map(|c| c.to_string()).collect();
    Some(format!("({ip}, {})", g::list(&digits)))
}
fn slit(v: f64) -> String {
    format!("({}, {})", g::boolean(v < 0.0), dec(v).expect("plain decimal literal"))
}
fn tlit(re: f64, im: f64) -> String {
    format!("({}, {})", slit(re), slit(im))
}
fn coq_t(e: &E) -> String {
    coq_with(e, &|re, im| tlit(re, im))
}
fn printable(e: &E) -> bool {
    !e.any(&|s| matches!(s, E::Num(re, im) if dec(*re).is_none() || dec(*im).is_none()))
}

/// Map one `lex_debug` token to the model's token type.
fn tok(t: &str) -> String {
    let inner = |t: &str| t[t.find('(').unwrap() + 1..t.len() - 1].to_string();
    if t == "LPAREN" {
        "TLParen".into()
    } else if t == "RPAREN" {
        "TRParen".into()
    } else if t == "LBRACKET" {
        "TLBracket".into()
    } else if t == "RBRACKET" {
        "TRBracket".into()
    } else if t.starts_with("INTEGER(") {
        format!("TNum ({}, [])", inner(t))
    } else if t.starts_with("FLOAT(") {
        match inner(t).parse::<f64>().ok().and_then(dec) {
            Some(d) => format!("TNum {d}"),
            None => "TNum (999999, [9])".into(),
        }
    } else if t.starts_with("VARIABLE(") {
        let name = inner(t);
        format!("TVar {}", VAR_NAMES.iter().position(|n| *n == name).unwrap_or(99))
    } else if t.starts_with("OPERATOR(") {
        let o = match inner(t).as_str() {
            "^" => "Caret",
            "+" => "Plus",
            "-" => "Minus",
            "/" => "Slash",
            "*" => "Star",
            _ => "Plus",
        };
        format!("TOp {o}")
    } else if t.starts_with("IDENTIFIER(") {
        let name = inner(t);
        let id = if name == "i" {
            "IdI".to_string()
        } else {
            match name.to_lowercase().as_str() {
                "pi" => "IdPi".to_string(),
                "cis" => "(IdFn Cis)".to_string(),
                "cos" => "(IdFn Cos)".to_string(),
                "exp" => "(IdFn Exp)".to_string(),
                "sin" => "(IdFn Sin)".to_string(),
                "sqrt" => "(IdFn Sqrt)".to_string(),
                _ => format!(
                    "(IdName {})",
                    REGION_NAMES.iter().position(|n| *n == name).unwrap_or(99)
                ),
            }
        };
        format!("TIdent {id}")
    } else {
        // any other token kind cannot come from an expression: make the comparison fail visibly
        "TVar 98".into()
    }
}

// ---------------------------------------------------------------------------------------------
// A harness-side copy of the printer, used ONLY to emulate printer bugs under QV_MUTANT.

fn fmt_real(v: f64) -> String {
    let s = format!("{}", v);
    s
}
fn fmt_imag(v: f64, mutant: u32) -> String {
    let s = format!("{}", v);
    if s.contains('.') || mutant == 4 {
        s
    } else {
        format!("{s}.0")
    }
}
fn fmt_complex(re: f64, im: f64, mutant: u32) -> String {
    if re == 0.0 && im == 0.0 {
        "0".into()
    } else if im == 0.0 {
        fmt_real(re)
    } else if re == 0.0 {
        format!("{}i", fmt_imag(im, mutant))
    } else {
        format!("{}{}{}i", fmt_real(re), if im > 0.0 { "+" } else { "" }, fmt_imag(im, mutant))
    }
}
fn op_text(o: Op, mutant: u32) -> &'static str {
    match o {
        Op::Caret => "^",
        Op::Plus => "+",
        // 3: minus written without the separating spaces
        Op::Minus => {
            if mutant == 3 {
                "-"
            } else {
                " - "
            }
        }
        Op::Slash => "/",
        Op::Star => "*",
    }
}
fn write_inner(e: &E, mutant: u32) -> String {
    match e {
        E::Infix(l, o, r) => {
            format!("({}{}{})", write_inner(l, mutant), op_text(*o, mutant), write_inner(r, mutant))
        }
        // 1: composite literals not parenthesised (the pre-9bfdd6e printer)
        E::Num(re, im) if *re != 0.0 && *im != 0.0 && mutant != 1 => {
            format!("({})", fmt_complex(*re, *im, mutant))
        }
        _ => write(e, mutant),
    }
}
fn write(e: &E, mutant: u32) -> String {
    match e {
        E::Num(re, im) => fmt_complex(*re, *im, mutant),
        E::Pi => "pi".into(),
        E::Var(x) => format!("%{}", VAR_NAMES[*x]),
        E::Addr(n, i) => format!("{}[{}]", REGION_NAMES[*n], i),
        E::Fn(f, a) => format!("{}({})", f_coq(*f).to_lowercase(), write(a, mutant)),
        E::Prefix(m, a) => {
            let op = if *m { "-" } else { "" };
            // 2: nested prefix operators not parenthesised (the pre-9bfdd6e printer)
            let neg_lit = matches!(**a, E::Num(re, im) if fmt_complex(re, im, mutant).starts_with('-'));
            if (matches!(**a, E::Prefix(..)) || neg_lit) && mutant != 2 {
                format!("{op}({})", write(a, mutant))
            } else {
                format!("{op}{}", write_inner(a, mutant))
            }
        }
        E::Infix(l, o, r) => {
            format!("{}{}{}", write_inner(l, mutant), op_text(*o, mutant), write_inner(r, mutant))
        }
    }
}

// ---------------------------------------------------------------------------------------------

struct Assign {
    vars: HashMap<String, Complex64>,
    mem: HashMap<String, Vec<f64>>,
}
fn assignments() -> Vec<Assign> {
    let v: [[(f64, f64); 4]; 3] = [
        [(0.7312, 0.2153), (1.3871, -0.4419), (-0.6127, 0.9173), (2.1417, 0.3331)],
        [(1.9173, 0.0), (0.4519, 0.0), (1.2793, 0.0), (0.8861, 0.0)],
        [(-1.1331, 0.6197), (0.3719, 1.2117), (1.7717, -0.2713), (-0.5519, -0.7331)],
    ];
    let m: [[[f64; 4]; 3]; 3] = [
        [[0.8173, -1.2931, 2.4471, 0.3], [1.5519, 0.3371, -0.7719, 1.1], [-0.4417, 1.1931, 0.6173, 0.9]],
        [[1.3717, 0.7193, 0.2931, 0.6], [0.9413, 2.1171, 1.4419, 0.2], [0.5171, 0.3793, 1.8137, 1.3]],
        [[-0.9371, 1.6173, -0.3919, 0.7], [2.2713, -0.5931, 0.8117, 1.9], [1.0931, -1.7713, 0.4471, 0.4]],
    ];
    (0..3)
        .map(|k| Assign {
            vars: (0..4)
                .map(|i| (VAR_NAMES[i].to_string(), Complex64::new(v[k][i].0, v[k][i].1)))
                .collect(),
            mem: (0..3).map(|i| (REGION_NAMES[i].to_string(), m[k][i].to_vec())).collect(),
        })
        .collect()
}
fn finite(c: Complex64) -> bool {
    c.re.is_finite() && c.im.is_finite()
}
fn on_branch_cut(e: &Expression, a: &Assign) -> bool {
    let ee = from_impl(e);
    // names outside the tables (possible only under a mutant) cannot be rebuilt
    if ee.any(&|s| matches!(s, E::Var(x) if *x >= VAR_NAMES.len()) || matches!(s, E::Addr(n, _) if *n >= REGION_NAMES.len())) {
        return false;
    }
    let mut subs = Vec::new();
    ee.subterms(&mut subs);
    subs.iter().any(|s| {
        let t = match s {
            E::Fn(F::Sqrt, t) => t,
            E::Infix(t, Op::Caret, _) => t,
            _ => return false,
        };
        matches!(to_impl(t).evaluate(&a.vars, &a.mem), Ok(v) if v.im == 0.0 && v.re < 0.0)
    })
}

fn run_case(run: &mut Run, asg: &[Assign], e: &E, stream: &str, mutant: u32) {
    if !printable(e) {
        run.count("skipped=literal-outside-text-model");
        return;
    }
    let ex = to_impl(e);
    let text = if mutant == 0 {
        match ex.to_quil() {
            Ok(t) => t,
            Err(err) => {
                run.process_failure(&format!("to_quil failed: {err}"), &show(e), None);
                return;
            }
        }
    } else {
        write(e, mutant)
    };
    let toks = quil_rs::verif::lex_debug(&text).ok();
    let reparsed = qv::catch(|| Expression::from_str(&text).ok()).unwrap_or(None);
    let known: Option<&str> = None;

    // numeric oracle (harness side)
    if let Some(p) = &reparsed {
        for (k, a) in asg.iter().enumerate() {
            let v0 = match ex.evaluate(&a.vars, &a.mem) {
                Ok(v) if finite(v) => v,
                _ => continue,
            };
            let ok = match p.evaluate(&a.vars, &a.mem) {
                Ok(v1) => finite(v1) && (v1 - v0).norm() <= 1e-9 * v0.norm().max(1.0),
                Err(_) => false,
            };
            if !ok {
                let cut = on_branch_cut(&ex, a) || on_branch_cut(p, a);
                run.process_failure(
                    &format!(
                        "the text {text:?} of {} parses back to an expression of a different value: at assignment #{k} {} vs {:?}",
                        show(e),
                        v0,
                        p.evaluate(&a.vars, &a.mem)
                    ),
                    &show(e),
                    if cut { Some("signed-zero-literal") } else { known },
                );
                run.count("numeric-mismatch");
                break;
            }
        }
    }

    let toks_coq = match &toks {
        Some(ts) => format!("(Some {})", g::list(&ts.iter().map(|t| tok(t)).collect::<Vec<_>>())),
        None => "None".to_string(),
    };
    let reparsed_e = reparsed.as_ref().map(from_impl);
    let rep_coq = match &reparsed_e {
        Some(p) if printable(p) => format!("(Some ({}))", coq_t(p)),
        Some(_) => "(Some (Var 97))".to_string(),
        None => "None".to_string(),
    };
    let lit = format!(
        "({}, {{| o_text := {}; o_toks := {}; o_reparsed := {} |}})",
        coq_t(e),
        g::bytes(text.as_bytes()),
        toks_coq,
        rep_coq
    );
    run.count(&format!("stream={stream}"));
    run.count(&format!("size={}", e.size().min(16)));
    run.count(if reparsed.is_some() { "reparse=ok" } else { "reparse=error" });
    let identical = reparsed_e.as_ref() == Some(e);
    run.count(if identical { "reparse=identical-tree" } else { "reparse=different-tree" });
    // non-trivial: the text has a parenthesis, a sign or a complex literal to get right
    let nontrivial = e.size() > 1;
    run.case(lit, &format!("{} => {}", show(e), text), nontrivial, known);
}

// ---------------------------------------------------------------------------------------------
// Literal-boundary stream.  For these magnitudes the decimal text is produced by the `lexical`
// crate and is an oracle outside the Coq model, so each case is judged directly by the clause of
// the property: the implementation's text must parse back (`Expression::from_str`) and the parsed
// expression must evaluate to the same value (component-wise equal doubles for a bare literal,
// relative tolerance 1e-9 inside a context).  A failure is a process-level failure (code 9).

fn boundary_magnitudes(rng: &mut Rng, nrandom: usize) -> Vec<f64> {
    let mut v: Vec<f64> = vec![
        1e-7, 1e-6, 1e-5, 9.999e-6, 1.0001e-5, 1e-4, 1e-3, 0.1, 0.30000000000000004, 1.0, 123456.789,
        1e14, 999999999999999.0, 999999999999999.9, 1e15, 1.5e15, 1e16, 9007199254740992.0, 9007199254740994.0,
        9223372036854775808.0, 18446744073709549568.0, 18446744073709551616.0, 1.8446744073709556e19,
        2e19, 5e19, 9.9e19, 99999999999999983616.0, 1e20, 1.5e20, 1e21, 1e22, 1e23, 1e100, 1e300,
        f64::MAX, f64::MIN_POSITIVE, 5e-324, 2.5e-320, 1e-300, 4.9406564584124654e-324,
    ];
    for _ in 0..nrandom {
        // seeded random 17-digit mantissa x 10^k, k in -320..=308
        let mut m = String::new();
        m.push(char::from(b'1' + rng.below(9) as u8));
        m.push('.');
        let nd = rng.range(0, 16);
        for _ in 0..nd {
            m.push(char::from(b'0' + rng.below(10) as u8));
        }
        let k = rng.range(0, 628) as i64 - 320;
        if let Ok(x) = format!("{m}e{k}").parse::<f64>() {
            if x.is_finite() && x > 0.0 {
                v.push(x);
            }
        }
        // and integral values around the integer-token range
        if rng.chance(1, 4) {
            let e = rng.range(50, 70) as i32;
            let x = (2f64).powi(e) * (1.0 + rng.below(1 << 20) as f64 / (1u64 << 20) as f64);
            v.push(x.trunc());
        }
    }
    v
}

fn boundary_contexts(m: f64, m2: f64) -> Vec<(E, bool)> {
    let x = || E::Var(0);
    // (expression, is a bare literal)
    let lits = vec![E::Num(m, 0.0), E::Num(-m, 0.0), E::Num(0.0, m), E::Num(0.0, -m), E::Num(m, m2), E::Num(-m2, -m)];
    let mut out: Vec<(E, bool)> = Vec::new();
    for l in &lits {
        out.push((l.clone(), true));
    }
    for l in &lits[..4] {
        out.push((E::infix(x(), Op::Star, l.clone()), false));
        out.push((E::infix(l.clone(), Op::Plus, x()), false));
        out.push((E::infix(x(), Op::Minus, l.clone()), false));
        out.push((E::infix(E::Addr(0, 1), Op::Slash, l.clone()), false));
        out.push((E::infix(l.clone(), Op::Caret, E::Num(2.0, 0.0)), false));
        out.push((E::neg(l.clone()), false));
        out.push((E::pos(l.clone()), false));
        out.push((E::fnc(F::Cos, l.clone()), false));
        out.push((E::fnc(F::Sqrt, E::infix(l.clone(), Op::Star, l.clone())), false));
    }
    out
}

fn same_double(a: f64, b: f64) -> bool {
    a == b || (a.is_nan() && b.is_nan())
}

fn run_boundary(run: &mut Run, asg: &[Assign], e: &E, bare: bool) {
    let ex = to_impl(e);
    run.count("boundary=cases");
    let text = match ex.to_quil() {
        Ok(t) => t,
        Err(err) => {
            run.process_failure(&format!("to_quil failed: {err}"), &show(e), None);
            return;
        }
    };
    let parsed = match qv::catch(|| Expression::from_str(&text)) {
        Ok(Ok(p)) => p,
        Ok(Err(err)) => {
            run.process_failure(
                &format!(
                    "the text {text:?} of {} does not parse back: {}",
                    show(e),
                    err.to_string().replace('\n', " ")
                ),
                &show(e),
                None,
            );
            run.count("boundary=parse-error");
            return;
        }
        Err(msg) => {
            run.process_failure(&format!("parsing {text:?} panicked: {msg}"), &show(e), None);
            return;
        }
    };
    for (k, a) in asg.iter().enumerate() {
        let v0 = match ex.evaluate(&a.vars, &a.mem) {
            Ok(v) => v,
            Err(_) => continue,
        };
        let v1 = parsed.evaluate(&a.vars, &a.mem);
        let ok = match &v1 {
            Ok(v1) => {
                if bare {
                    same_double(v1.re, v0.re) && same_double(v1.im, v0.im)
                } else if finite(v0) {
                    finite(*v1) && (*v1 - v0).norm() <= 1e-9 * v0.norm().max(f64::MIN_POSITIVE)
                } else {
                    true
                }
            }
            Err(_) => false,
        };
        if !ok {
            let cut = !bare && (on_branch_cut(&ex, a) || on_branch_cut(&parsed, a));
            run.process_failure(
                &format!(
                    "the text {text:?} of {} parses back to a different value: at assignment #{k} {v0} vs {v1:?}",
                    show(e)
                ),
                &show(e),
                if cut { Some("signed-zero-literal") } else { None },
            );
            run.count("boundary=value-mismatch");
            return;
        }
    }
    run.count("boundary=ok");
}

fn main() {
    let args = Args::parse();
    let mutant = exprgen::mutant();
    let asg = assignments();
    if let Some(r) = &args.replay {
        println!("case: {r}");
        let text = r.rsplit(" => ").next().unwrap_or(r);
        println!("text: {text}");
        println!("tokens: {:?}", quil_rs::verif::lex_debug(text));
        match Expression::from_str(text) {
            Ok(p) => println!("re-parse: {}  (prints as {})", show(&from_impl(&p)), p.to_quil_or_debug()),
            Err(e) => println!("re-parse error: {}", e.to_string().replace('\n', " ")),
        }
        return;
    }
    let header = "From Coq Require Import List NArith.\nFrom QV Require Import Model.Expr Model.ExprText Model.ExprTextExec.\nImport ListNotations.\nOpen Scope N_scope.";
    let mut run = Run::new(&args.out, header, "c03case", "failing", 400);

    let x = || E::Var(0);
    let n = |v: f64| E::Num(v, 0.0);
    // regression corpus: the witnesses of the (past and present) findings and the probes
    let corpus = vec![
        E::neg(E::neg(E::Pi)),                               // nested-prefix (fixed by 9bfdd6e)
        E::infix(x(), Op::Star, E::Num(1.0, 2.0)),           // composite-complex-literal (fixed)
        E::neg(E::Num(1.0, 2.0)),
        E::neg(n(-3.0)),                                     // nested-prefix-negative-literal (fixed by 1e769e0)
        E::neg(E::Num(0.0, -2.0)),
        E::infix(x(), Op::Minus, E::neg(n(-3.0))),
        E::fnc(F::Sqrt, n(-4.0)),                            // signed-zero-literal
        E::infix(n(-2.0), Op::Caret, E::Num(0.5, 0.0)),
        E::neg(E::pos(x())),
        E::pos(E::neg(x())),
        E::pos(E::pos(E::infix(x(), Op::Plus, n(1.0)))),
        E::infix(n(-3.0), Op::Caret, n(2.0)),
        E::infix(E::infix(n(2.0), Op::Caret, n(3.0)), Op::Caret, n(2.0)),
        E::infix(n(2.0), Op::Caret, E::infix(n(3.0), Op::Caret, n(2.0))),
        E::infix(x(), Op::Minus, n(-3.0)),
        E::Num(-1.0, -2.0),
        E::Num(0.0, -2.0),
        E::infix(E::Addr(0, 1), Op::Slash, E::Num(0.0, 2.0)),
    ];
    for e in &corpus {
        run_case(&mut run, &asg, e, "corpus", mutant);
    }

    // (1) exhaustive: depth <= 3 within a node budget
    let al = Alphabet {
        leaves: vec![n(2.0), n(-1.25), E::Num(0.5, -1.5), E::Pi, x(), E::Addr(0, 1)],
        unary: vec![U::Fn(F::Cis), U::Fn(F::Cos), U::Fn(F::Exp), U::Fn(F::Sin), U::Fn(F::Sqrt), U::Neg, U::Pos],
        binary: ALL_OP.to_vec(),
    };
    let full_nodes = if args.thorough() { 5 } else { 4 };
    let trees = enumerate(&al, 3, full_nodes);
    let ntrees = trees.len();
    for e in &trees {
        run_case(&mut run, &asg, e, "exhaustive", mutant);
    }
    // (2) a seeded sample of the remaining depth-3 trees and random depth <= 6
    let mut rng = Rng::new(args.seed);
    let big = Alphabet {
        leaves: vec![
            n(2.0), n(-1.25), n(0.5), n(3.0), n(0.0), E::Num(0.5, -1.5), E::Num(-2.0, 0.25), E::Num(0.0, 1.0),
            E::Num(0.0, -0.75), E::Pi, x(), E::Var(1), E::Addr(0, 1), E::Addr(1, 0), E::Addr(2, 3),
        ],
        unary: vec![U::Fn(F::Cis), U::Fn(F::Cos), U::Fn(F::Exp), U::Fn(F::Sin), U::Fn(F::Sqrt), U::Neg, U::Neg, U::Pos],
        binary: ALL_OP.to_vec(),
    };
    let nd3 = if args.thorough() { 30000 } else { 3000 };
    for _ in 0..nd3 {
        let e = random(&al, &mut rng, 3);
        run_case(&mut run, &asg, &e, "depth3-sample", mutant);
    }
    let nrand = if args.thorough() { 30000 } else { 3000 };
    for _ in 0..nrand {
        let d = rng.range(3, 6);
        let e = random(&big, &mut rng, d);
        run_case(&mut run, &asg, &e, "random", mutant);
    }
    // (3) literal-boundary stream (judged in the harness: text must parse back to the same value)
    let nbr = if args.thorough() { 4000 } else { 400 };
    let mags = boundary_magnitudes(&mut rng, nbr);
    let mut nboundary = 0u64;
    for (i, m) in mags.iter().enumerate() {
        let m2 = mags[(i * 7 + 3) % mags.len()];
        for (e, bare) in boundary_contexts(*m, m2) {
            run_boundary(&mut run, &asg, &e, bare);
            nboundary += 1;
        }
    }
    run.finish(
        "exhaustive: every expression tree of depth <= 3 with at most N nodes (N = extra.full_nodes) over \
         {2, -1.25, 0.5-1.5i, pi, %x, a[1]; cis cos exp sin sqrt, prefix -, prefix +; ^ + - / *}; a seeded sample of \
         depth-3 trees over the same alphabet; seeded random trees of depth <= 6 over a larger alphabet (more \
         literals incl. pure imaginary and negative-real-part complex ones, more names); the regression corpus; plus (not counted in evaluations, judged in the harness) a literal-boundary \
         stream: real / imaginary / two-part literals, positive and negative, alone and inside infix, prefix and function \
         contexts, over magnitudes crossing every formatting boundary (1e-7..0.1, 1e14..1e16, 2^53, 2^63, 2^64, 2e19, 1e20..1e23, \
         1e100, 1e300, MAX, MIN_POSITIVE, subnormals) and seeded random mantissa x 10^k, k in -320..308. \
         Distinct by the tree; non-trivial = more than one node.",
        true,
        serde_json::json!({"full_nodes": full_nodes, "exhaustive_cases": ntrees, "depth3_sample": nd3,
                           "random_cases": nrand, "boundary_magnitudes": mags.len(), "boundary_cases": nboundary, "corpus": corpus.len(), "mutant": mutant}),
    );
}
