//! Shared by c22 / c24 / c25: abstract blocks driven through `ScheduledBasicBlock::build` with a
//! table-driven `InstructionHandler`, end-to-end Quil-T programs with the `DefaultHandler`,
//! abstraction of the observed dependency graph, Gallina printers.
#![allow(dead_code)]
use qv::{gallina as g, Rng, Run};
use quil_rs::instruction::{
    DefaultHandler, ExternSignatureMap, FrameIdentifier, Instruction, InstructionHandler,
    InstructionRole, Pragma, PragmaArgument, Target,
};
use quil_rs::program::analysis::{BasicBlock, ControlFlowGraph};
use quil_rs::program::scheduling::{
    ExecutionDependency, MemoryAccessType, ScheduleErrorVariant, ScheduledBasicBlock,
    ScheduledGraphNode, ScheduledProgram,
};
use quil_rs::program::{MatchedFrames, MemoryAccesses, MemoryAccessesError};
use quil_rs::quil::Quil;
use quil_rs::Program;
use std::collections::{BTreeMap, BTreeSet, HashSet};
use std::str::FromStr;

pub const COQ_HEADER: &str = "From Coq Require Import List NArith.\nFrom QV Require Import Model.DepQueue Model.Graph.\nImport ListNotations.\nOpen Scope N_scope.";
pub const CASE_TYPE: &str = "case";

#[derive(Clone, Debug, PartialEq, Eq, Hash)]
pub struct Info {
    pub role: u8, // 0 classical, 1 rf, 2 control, 3 compose
    pub memerr: bool,
    pub reads: Vec<u64>,
    pub writes: Vec<u64>,
    pub caps: Vec<u64>,
    pub used: Vec<u64>,
    pub blocked: Vec<u64>,
    pub sched: bool,
}

fn nlist(v: &[u64]) -> String {
    g::list(&v.iter().map(|x| x.to_string()).collect::<Vec<_>>())
}

impl Info {
    pub fn classical(reads: &[u64], writes: &[u64]) -> Info {
        Info { role: 0, memerr: false, reads: reads.to_vec(), writes: writes.to_vec(), caps: vec![], used: vec![], blocked: vec![], sched: false }
    }
    pub fn rf(sched: bool, used: &[u64], blocked: &[u64]) -> Info {
        Info { role: 1, memerr: false, reads: vec![], writes: vec![], caps: vec![], used: used.to_vec(), blocked: blocked.to_vec(), sched }
    }
    pub fn control(reads: &[u64]) -> Info {
        Info { role: 2, memerr: false, reads: reads.to_vec(), writes: vec![], caps: vec![], used: vec![], blocked: vec![], sched: false }
    }
    pub fn coq(&self) -> String {
        let role = ["RClassical", "RRF", "RControl", "RCompose"][self.role as usize];
        format!(
            "(MkInfo {role} {} {} {} {} {} {} {})",
            g::boolean(self.memerr),
            nlist(&self.reads),
            nlist(&self.writes),
            nlist(&self.caps),
            nlist(&self.used),
            nlist(&self.blocked),
            g::boolean(self.sched)
        )
    }
    /// compact replayable form, e.g. `F+u0b1r0` (RF scheduled uses f0 blocks f1 reads r0)
    pub fn short(&self) -> String {
        let mut s = String::from(["C", "F", "J", "P"][self.role as usize]);
        if self.role == 1 {
            s.push(if self.sched { '+' } else { '-' });
        }
        if self.memerr {
            s.push('!');
        }
        for (tag, v) in [("u", &self.used), ("b", &self.blocked), ("r", &self.reads), ("w", &self.writes), ("c", &self.caps)] {
            for x in v.iter() {
                s.push_str(tag);
                s.push_str(&x.to_string());
            }
        }
        s
    }
    pub fn wf(&self) -> bool {
        if self.role != 1 {
            return true;
        }
        let mut seen = HashSet::new();
        self.used.iter().chain(self.blocked.iter()).all(|f| seen.insert(*f))
    }
    pub fn touches_frames(&self) -> bool {
        !(self.used.is_empty() && self.blocked.is_empty())
    }
}

/// Parse the compact form back (for --replay).
pub fn parse_short(s: &str) -> Option<Info> {
    let b = s.as_bytes();
    if b.is_empty() {
        return None;
    }
    let role = match b[0] {
        b'C' => 0,
        b'F' => 1,
        b'J' => 2,
        b'P' => 3,
        _ => return None,
    };
    let mut info = Info { role, memerr: false, reads: vec![], writes: vec![], caps: vec![], used: vec![], blocked: vec![], sched: false };
    let mut i = 1;
    while i < b.len() {
        match b[i] {
            b'+' => info.sched = true,
            b'-' => info.sched = false,
            b'!' => info.memerr = true,
            t @ (b'u' | b'b' | b'r' | b'w' | b'c') => {
                let mut j = i + 1;
                let mut v = 0u64;
                while j < b.len() && b[j].is_ascii_digit() {
                    v = v * 10 + (b[j] - b'0') as u64;
                    j += 1;
                }
                match t {
                    b'u' => info.used.push(v),
                    b'b' => info.blocked.push(v),
                    b'r' => info.reads.push(v),
                    b'w' => info.writes.push(v),
                    _ => info.caps.push(v),
                }
                i = j - 1;
            }
            _ => return None,
        }
        i += 1;
    }
    Some(info)
}

/// One abstract block: instruction summaries and the terminator (kind 0 = none/continue,
/// 1 = JUMP, 2 = JUMP-WHEN, 3 = JUMP-UNLESS, 4 = HALT) with its summary.
#[derive(Clone, Debug)]
pub struct ABlock {
    pub infos: Vec<Info>,
    pub term: Option<(u8, Info)>,
}

impl ABlock {
    pub fn desc(&self) -> String {
        let mut s = self.infos.iter().map(|i| i.short()).collect::<Vec<_>>().join(" ");
        match &self.term {
            None => s.push_str(" ;"),
            Some((k, i)) => s.push_str(&format!(" ;{} {}", k, i.short())),
        }
        s
    }
    pub fn parse(s: &str) -> Option<ABlock> {
        let (body, term) = s.split_once(';')?;
        let infos = body.split_whitespace().map(parse_short).collect::<Option<Vec<_>>>()?;
        let term = term.trim();
        let term = if term.is_empty() {
            None
        } else {
            let (k, i) = term.split_once(' ')?;
            Some((k.parse().ok()?, parse_short(i.trim())?))
        };
        Some(ABlock { infos, term })
    }
    pub fn wf(&self) -> bool {
        self.infos.iter().all(|i| i.wf()) && self.term.as_ref().map_or(true, |(_, i)| i.role == 2)
    }
}

pub const NFRAMES: u64 = 3;

/// Handler that answers from a table: `PRAGMA QV <k>` -> infos[k]; a jump to `@t<k>` -> terms[k];
/// HALT -> halt.
pub struct TableHandler {
    pub infos: Vec<Info>,
    pub terms: BTreeMap<String, Info>,
    pub halt: Option<Info>,
}

impl TableHandler {
    fn lookup(&self, instruction: &Instruction) -> &Info {
        let target = |t: &Target| match t {
            Target::Fixed(s) => s.clone(),
            _ => panic!("placeholder target"),
        };
        match instruction {
            Instruction::Pragma(Pragma { name, arguments, .. }) if name == "QV" => match arguments.first() {
                Some(PragmaArgument::Integer(k)) => &self.infos[*k as usize],
                _ => panic!("bad QV pragma"),
            },
            Instruction::Jump(j) => &self.terms[&target(&j.target)],
            Instruction::JumpWhen(j) => &self.terms[&target(&j.target)],
            Instruction::JumpUnless(j) => &self.terms[&target(&j.target)],
            Instruction::Halt() => self.halt.as_ref().expect("halt info"),
            other => panic!("table handler: unexpected instruction {other:?}"),
        }
    }
}

fn frame_by_id<'p>(program: &'p Program, id: u64) -> &'p FrameIdentifier {
    let name = format!("f{id}");
    program
        .frames
        .get_keys()
        .into_iter()
        .find(|k| k.name == name)
        .expect("frame defined")
}

impl InstructionHandler for TableHandler {
    fn is_scheduled(&self, instruction: &Instruction) -> bool {
        self.lookup(instruction).sched
    }
    fn role(&self, instruction: &Instruction) -> InstructionRole {
        match self.lookup(instruction).role {
            0 => InstructionRole::ClassicalCompute,
            1 => InstructionRole::RFControl,
            2 => InstructionRole::ControlFlow,
            _ => InstructionRole::ProgramComposition,
        }
    }
    fn matching_frames<'p>(&self, program: &'p Program, instruction: &Instruction) -> Option<MatchedFrames<'p>> {
        let info = self.lookup(instruction);
        if info.used.is_empty() && info.blocked.is_empty() {
            return None;
        }
        Some(MatchedFrames {
            used: info.used.iter().map(|f| frame_by_id(program, *f)).collect(),
            blocked: info.blocked.iter().map(|f| frame_by_id(program, *f)).collect(),
        })
    }
    fn memory_accesses(&self, _m: &ExternSignatureMap, instruction: &Instruction) -> Result<MemoryAccesses, MemoryAccessesError> {
        let info = self.lookup(instruction);
        if info.memerr {
            return Err(MemoryAccessesError::InstructionHandlerError("qv".into()));
        }
        let set = |v: &Vec<u64>| v.iter().map(|r| format!("r{r}")).collect::<HashSet<String>>();
        Ok(MemoryAccesses { reads: set(&info.reads), writes: set(&info.writes), captures: set(&info.caps) })
    }
}

/// Observed result of building one block.
#[derive(Clone, Debug, PartialEq, Eq)]
pub enum Obs {
    Err(&'static str, u64),
    Ok(Vec<(u64, u64, String)>),
}

pub fn node_id(n: ScheduledGraphNode, len: usize) -> u64 {
    match n {
        ScheduledGraphNode::BlockStart => 0,
        ScheduledGraphNode::InstructionIndex(i) => i as u64 + 1,
        ScheduledGraphNode::BlockEnd => len as u64 + 1,
    }
}

pub fn observe_graph(block: &ScheduledBasicBlock) -> Vec<(u64, u64, String)> {
    let len = block.instructions().len();
    let mut edges = BTreeSet::new();
    for (s, d, deps) in block.get_dependency_graph().all_edges() {
        for dep in deps.iter() {
            let k = match dep {
                ExecutionDependency::AwaitMemoryAccess(MemoryAccessType::Read) => "KMem AR",
                ExecutionDependency::AwaitMemoryAccess(MemoryAccessType::Write) => "KMem AW",
                ExecutionDependency::AwaitMemoryAccess(MemoryAccessType::Capture) => "KMem AC",
                ExecutionDependency::Scheduled => "KSched",
                ExecutionDependency::StableOrdering => "KStable",
            };
            edges.insert((node_id(s, len), node_id(d, len), k.to_string()));
        }
    }
    edges.into_iter().collect()
}

pub fn observe<'a, H: InstructionHandler>(block: BasicBlock<'a>, program: &'a Program, handler: &H) -> (Obs, Option<ScheduledBasicBlock<'a>>) {
    let len = block.instructions().len();
    match ScheduledBasicBlock::build(block, program, handler) {
        Ok(b) => (Obs::Ok(observe_graph(&b)), Some(b)),
        Err(e) => {
            let v = match e.variant {
                ScheduleErrorVariant::UnresolvedCallInstruction => "EUnresolvedCall",
                ScheduleErrorVariant::ControlFlowNotBlockTerminator => "EControlFlow",
                ScheduleErrorVariant::UnschedulableInstruction => "EUnschedulable",
                ScheduleErrorVariant::DuplicateLabel => "EDuplicateLabel",
                ScheduleErrorVariant::Extern => "EExtern",
                ScheduleErrorVariant::UncalibratedInstruction => "EUncalibrated",
            };
            let node = e.instruction_node.map_or(999_999, |n| node_id(n, len));
            (Obs::Err(v, node), None)
        }
    }
}

/// Emulated implementation bugs (QV_MUTANT=k), applied to the observed edge list.
pub fn mutate(obs: &mut Obs, len: usize) {
    let k: u32 = std::env::var("QV_MUTANT").ok().and_then(|s| s.parse().ok()).unwrap_or(0);
    if k == 0 {
        return;
    }
    if let Obs::Ok(edges) = obs {
        match k {
            // 1: the final linking loop forgets the ordering queue: frame users are not tied to the block end
            1 => {
                let end = len as u64 + 1;
                let has_sched: HashSet<u64> = edges.iter().filter(|e| e.1 == end && e.2 == "KSched").map(|e| e.0).collect();
                edges.retain(|e| !(e.1 == end && e.2 == "KStable" && has_sched.contains(&e.0)));
            }
            // 2: a write does not wait for the outstanding reads (reads.drain() dropped): no KMem AR edges
            2 => edges.retain(|e| e.2 != "KMem AR"),
            // 3: blocked frames are recorded as Using in the timed queue -> blockers get ordered among
            //    themselves: emulate by adding a Scheduled edge between consecutive nodes that both have
            //    a Scheduled edge from the same source
            3 => {
                let mut extra = vec![];
                for a in edges.iter() {
                    for b in edges.iter() {
                        if a.2 == "KSched" && b.2 == "KSched" && a.0 == b.0 && a.1 < b.1 && b.1 <= len as u64 {
                            extra.push((a.1, b.1, "KSched".to_string()));
                        }
                    }
                }
                edges.extend(extra);
                edges.sort();
                edges.dedup();
            }
            // 4: leading-instruction rule off by one: classical instructions with incoming memory edges
            //    also get a start edge  (emulate: add start edge to every node that has a KMem in-edge)
            4 => {
                let tgt: BTreeSet<u64> = edges.iter().filter(|e| e.2.starts_with("KMem") && e.1 <= len as u64).map(|e| e.1).collect();
                for t in tgt {
                    edges.push((0, t, "KStable".to_string()));
                }
                edges.sort();
                edges.dedup();
            }
            // 5: self-dependency filter dropped: an instruction reading and writing one region depends on itself
            5 => {
                let srcs: BTreeSet<u64> = edges.iter().filter(|e| e.2 == "KMem AW").map(|e| e.0).collect();
                if let Some(s) = srcs.into_iter().next() {
                    edges.push((s, s, "KMem AR".to_string()));
                    edges.sort();
                }
            }
            // 6: timed queue fed by unscheduled instructions too: KSched copies of all KStable frame edges
            6 => {
                let extra: Vec<_> = edges.iter().filter(|e| e.2 == "KStable" && e.0 != 0 && e.1 <= len as u64).map(|e| (e.0, e.1, "KSched".to_string())).collect();
                edges.extend(extra);
                edges.sort();
                edges.dedup();
            }
            // 7: the final linking loops skip the last instruction: it no longer reaches the block end
            7 => {
                let end = len as u64 + 1;
                edges.retain(|e| !(e.1 == end && e.0 == len as u64 && len > 0));
            }
            _ => {}
        }
    }
}

pub fn obs_coq(o: &Obs) -> String {
    match o {
        Obs::Err(v, n) => format!("(inl ({v}, {n}))"),
        Obs::Ok(edges) => format!(
            "(inr {})",
            g::list(&edges.iter().map(|(s, d, k)| format!("({s}, {d}, {k})")).collect::<Vec<_>>())
        ),
    }
}

pub fn case_coq(infos: &[Info], term: Option<&Info>, obs: &Obs) -> String {
    format!(
        "({}, {}, {})",
        g::list(&infos.iter().map(|i| i.coq()).collect::<Vec<_>>()),
        g::option(term.map(|i| i.coq())),
        obs_coq(obs)
    )
}

/// Program text + handler for a sequence of abstract blocks (block k is labelled `@b<k>` when
/// k > 0 or when the previous block fell through).
pub fn concretise(blocks: &[ABlock]) -> (String, TableHandler) {
    let mut text = String::new();
    for f in 0..NFRAMES {
        text.push_str(&format!("DEFFRAME {f} \"f{f}\":\n    SAMPLE-RATE: 1.0\n"));
    }
    text.push_str("DECLARE c BIT[2]\n");
    let mut handler = TableHandler { infos: vec![], terms: BTreeMap::new(), halt: None };
    for (bi, b) in blocks.iter().enumerate() {
        if bi > 0 {
            text.push_str(&format!("LABEL @b{bi}\n"));
        }
        for i in b.infos.iter() {
            text.push_str(&format!("PRAGMA QV {}\n", handler.infos.len()));
            handler.infos.push(i.clone());
        }
        match &b.term {
            None => {}
            Some((k, i)) => {
                let t = format!("t{bi}");
                match k {
                    1 => text.push_str(&format!("JUMP @{t}\n")),
                    2 => text.push_str(&format!("JUMP-WHEN @{t} c[0]\n")),
                    3 => text.push_str(&format!("JUMP-UNLESS @{t} c[1]\n")),
                    _ => text.push_str("HALT\n"),
                }
                if *k == 4 {
                    handler.halt = Some(i.clone());
                } else {
                    handler.terms.insert(t, i.clone());
                }
            }
        }
    }
    (text, handler)
}

/// Run abstract blocks through the implementation; one case per block.  HALT infos must agree
/// across the blocks of one program (the caller guarantees it).
pub fn run_abstract(run: &mut Run, blocks: &[ABlock], tag: &str) {
    run_abstract_with(run, blocks, tag, &|i, t, o| Some(case_coq(i, t, o)));
}

/// Case formatter: (summaries, terminator summary, observed result) -> Gallina literal, or None to skip.
pub type CaseFmt<'a> = &'a dyn Fn(&[Info], Option<&Info>, &Obs) -> Option<String>;

pub fn run_abstract_with(run: &mut Run, blocks: &[ABlock], tag: &str, fmt: CaseFmt) {
    let (text, handler) = concretise(blocks);
    let program = match Program::from_str(&text) {
        Ok(p) => p,
        Err(e) => {
            run.process_failure("generated program does not parse", &format!("{text} :: {e}"), None);
            return;
        }
    };
    let cfg_blocks = ControlFlowGraph::from(&program).into_blocks();
    if cfg_blocks.len() != blocks.len() {
        run.process_failure("block count differs from the abstract program", &text, None);
        return;
    }
    let mut all_ok = true;
    let mut graphs = vec![];
    for (ab, bb) in blocks.iter().zip(cfg_blocks.into_iter()) {
        let len = ab.infos.len();
        let res = qv::catch(std::panic::AssertUnwindSafe(|| observe(bb, &program, &handler).0));
        let mut obs = match res {
            Ok(o) => o,
            Err(msg) => {
                run.process_failure(&format!("build panicked: {msg}"), &ab.desc(), None);
                continue;
            }
        };
        if let Obs::Ok(g) = &obs {
            graphs.push(g.clone());
        } else {
            all_ok = false;
        }
        mutate(&mut obs, len);
        let term = ab.term.as_ref().map(|t| &t.1);
        let coq = match fmt(&ab.infos, term, &obs) {
            Some(c) => c,
            None => continue,
        };
        let nontrivial = len >= 2 && matches!(obs, Obs::Ok(_));
        run.count(&format!("{tag}:len={}", len.min(9)));
        run.count(match &obs {
            Obs::Ok(_) => "result:ok",
            Obs::Err(v, _) => v,
        });
        if !ab.wf() {
            run.count("not-wf (model comparison only)");
        }
        run.case(coq, &format!("A {}", ab.desc()), nontrivial, None);
    }
    // ScheduledProgram::from_program must agree with the per-block builds
    let sp = ScheduledProgram::from_program(&program, &handler);
    match sp {
        Ok(sp) => {
            let gs: Vec<_> = sp.basic_blocks().iter().map(observe_graph).collect();
            if !all_ok || gs != graphs {
                run.process_failure("ScheduledProgram::from_program differs from per-block build", &text, None);
            }
        }
        Err(_) => {
            if all_ok {
                run.process_failure("ScheduledProgram::from_program fails but every block builds", &text, None);
            }
        }
    }
}

// ---------------------------------------------------------------------------------------------
// abstract generators

/// The exhaustive alphabet: 2 frames, 2 regions.
pub fn alphabet() -> Vec<Info> {
    let mut v = vec![
        Info::classical(&[], &[]),
        Info::classical(&[0], &[]),
        Info::classical(&[], &[0]),
        Info::classical(&[0], &[0]),
        Info::classical(&[0], &[1]),
        Info::rf(true, &[0], &[]),
        Info::rf(true, &[0], &[1]),
        Info::rf(true, &[], &[0, 1]),
        Info::rf(false, &[0], &[]),
        Info::rf(true, &[0, 1], &[]),
        Info::rf(false, &[], &[0]),
        Info::rf(true, &[1], &[]),
    ];
    let mut cap = Info::rf(true, &[1], &[]);
    cap.caps = vec![0];
    v.push(cap);
    let mut unmatched = Info::rf(true, &[], &[]);
    unmatched.reads = vec![0];
    v.push(unmatched);
    v
}

pub fn alphabet_errors() -> Vec<Info> {
    let mut memerr = Info::classical(&[], &[]);
    memerr.memerr = true;
    vec![
        Info::control(&[]),
        Info { role: 3, ..Info::classical(&[], &[]) },
        memerr,
    ]
}

/// `full_len`: every block over the full alphabet up to this length; `sub_len`: every block over
/// the 8-summary sub-alphabet up to this length; `err_len`: blocks containing error summaries.
pub fn exhaustive(run: &mut Run, full_len: usize, sub_len: usize, err_len: usize) {
    let base = alphabet();
    let errs = alphabet_errors();
    let terms: Vec<Option<(u8, Info)>> = vec![
        None,
        Some((1, Info::control(&[]))),
        Some((2, Info::control(&[0]))),
    ];
    fn rec(run: &mut Run, alpha: &[Info], terms: &[Option<(u8, Info)>], cur: &mut Vec<Info>, max: usize, min_report: usize) {
        if cur.len() >= min_report {
            for t in terms.iter() {
                let b = ABlock { infos: cur.clone(), term: t.clone() };
                if b.infos.is_empty() && b.term.is_none() {
                    continue;
                }
                run_abstract(run, &[b], "exh");
            }
        }
        if cur.len() == max {
            return;
        }
        for a in alpha.iter() {
            cur.push(a.clone());
            rec(run, alpha, terms, cur, max, min_report);
            cur.pop();
        }
    }
    rec(run, &base, &terms, &mut vec![], full_len, 0);
    if sub_len > full_len {
        let sub: Vec<Info> = [1usize, 3, 5, 6, 7, 8, 10, 12].iter().map(|k| base[*k].clone()).collect();
        rec(run, &sub, &terms, &mut vec![], sub_len, full_len + 1);
    }
    // error outcomes: every position of an error-producing instruction in blocks up to the given length
    let mut small: Vec<Info> = vec![base[1].clone(), base[5].clone(), base[7].clone()];
    small.extend(errs);
    rec(run, &small, &terms[..2], &mut vec![], err_len, 0);
}

fn subset(rng: &mut Rng, n: u64, p_num: usize, p_den: usize) -> Vec<u64> {
    (0..n).filter(|_| rng.chance(p_num, p_den)).collect()
}

pub fn random_info(rng: &mut Rng, nregions: u64, rf_bias: usize) -> Info {
    let r = rng.below(100);
    let role = if r < rf_bias { 1 } else if r < 96 { 0 } else if r < 98 { 2 } else { 3 };
    let mut info = Info::classical(&[], &[]);
    info.role = role;
    info.memerr = rng.chance(1, 150);
    // memory: RF instructions mostly read parameters / capture; classical read+write
    let dens = if role == 1 { 5 } else { 3 };
    info.reads = subset(rng, nregions, 1, dens);
    info.writes = if role == 1 { vec![] } else { subset(rng, nregions, 1, dens) };
    info.caps = if role == 1 && rng.chance(1, 4) { subset(rng, nregions, 1, 2) } else { vec![] };
    if role == 1 {
        info.sched = rng.chance(4, 5);
        let shape = rng.below(10);
        match shape {
            0 => {} // matches no frame
            1 | 2 => info.blocked = subset(rng, NFRAMES, 2, 3), // fence-like
            _ => {
                info.used = subset(rng, NFRAMES, 2, 5);
                if info.used.is_empty() {
                    info.used.push(rng.below(NFRAMES as usize) as u64);
                }
                if rng.chance(1, 2) {
                    // blocking: block the rest (or part of it)
                    info.blocked = (0..NFRAMES).filter(|f| !info.used.contains(f) && rng.chance(3, 4)).collect();
                }
                if rng.chance(1, 40) {
                    // not well-formed: overlap
                    info.blocked.push(info.used[0]);
                }
            }
        }
    } else if rng.chance(1, 30) {
        // sets the handler would not consult for this role
        info.sched = true;
        info.used = subset(rng, NFRAMES, 1, 2);
    }
    info
}

pub fn random_term(rng: &mut Rng, nregions: u64) -> Option<(u8, Info)> {
    let k = rng.below(5) as u8;
    if k == 0 {
        return None;
    }
    let mut info = Info::control(&[]);
    if k == 2 || k == 3 || rng.chance(1, 4) {
        info.reads = subset(rng, nregions, 1, 2);
    }
    if rng.chance(1, 10) {
        info.writes = subset(rng, nregions, 1, 2);
    }
    if rng.chance(1, 40) {
        info.role = rng.below(4) as u8;
        if info.role == 1 {
            info.used = subset(rng, NFRAMES, 1, 2);
            info.sched = rng.chance(1, 2);
        }
    }
    Some((k, info))
}

pub fn random_blocks(run: &mut Run, rng: &mut Rng, count: usize, rf_bias: usize) {
    for _ in 0..count {
        let nblocks = if rng.chance(1, 4) { rng.range(2, 4) } else { 1 };
        let nregions = rng.range(1, 3) as u64;
        let mut blocks = vec![];
        let mut halt: Option<Info> = None;
        for _ in 0..nblocks {
            let len = if rng.chance(1, 12) { 0 } else { rng.range(1, 12) };
            let infos = (0..len).map(|_| random_info(rng, nregions, rf_bias)).collect();
            let mut term = random_term(rng, nregions);
            if let Some((4, i)) = &term {
                match &halt {
                    None => halt = Some(i.clone()),
                    Some(h) => term = Some((4, h.clone())),
                }
            }
            blocks.push(ABlock { infos, term });
        }
        // a single block must not be completely empty (the program would have no block)
        if blocks.len() == 1 && blocks[0].infos.is_empty() && blocks[0].term.is_none() {
            blocks[0].term = Some((1, Info::control(&[])));
        }
        // an unlabelled empty first block without terminator does not exist either
        if blocks.len() > 1 && blocks[0].infos.is_empty() && blocks[0].term.is_none() {
            blocks[0].infos.push(Info::classical(&[], &[]));
        }
        run_abstract(run, &blocks, "rnd");
    }
}

// ---------------------------------------------------------------------------------------------
// end-to-end: real Quil-T text, DefaultHandler; the info fed to the model is what the handler
// reports for each instruction.

pub const E2E_HEADER: &str = "DECLARE ro BIT[4]\nDECLARE th REAL[2]\nDECLARE n INTEGER[2]\nDECLARE raw REAL[8]\n\
DEFFRAME 0 \"a\":\n    SAMPLE-RATE: 1.0\nDEFFRAME 1 \"a\":\n    SAMPLE-RATE: 1.0\nDEFFRAME 0 1 \"ab\":\n    SAMPLE-RATE: 1.0\n\
DEFFRAME 0 \"b\":\n    SAMPLE-RATE: 1.0\nDEFFRAME 2 \"c\":\n    SAMPLE-RATE: 1.0\n";

pub const E2E_RF: &[&str] = &[
    "PULSE 0 \"a\" flat(duration: 2.0, iq: 1.0)",
    "NONBLOCKING PULSE 0 \"a\" flat(duration: 1.0, iq: 1.0)",
    "PULSE 1 \"a\" flat(duration: 0.5, iq: 1.0)",
    "NONBLOCKING PULSE 1 \"a\" flat(duration: 4.0, iq: 1.0)",
    "PULSE 0 1 \"ab\" flat(duration: 1.5, iq: 1.0)",
    "NONBLOCKING PULSE 0 1 \"ab\" flat(duration: 0.25, iq: 1.0)",
    "PULSE 0 \"b\" flat(duration: 1.0, iq: 1.0)",
    "PULSE 2 \"c\" flat(duration: 3.0, iq: 1.0)",
    "PULSE 0 \"a\" flat(duration: th[0], iq: 1.0)",
    "CAPTURE 0 \"b\" flat(duration: 1.0, iq: 1.0) ro[0]",
    "NONBLOCKING CAPTURE 0 \"b\" flat(duration: 2.0, iq: 1.0) ro[1]",
    "CAPTURE 2 \"c\" flat(duration: 0.5, iq: 1.0) ro[2]",
    "RAW-CAPTURE 0 \"b\" 1.0 raw",
    "NONBLOCKING RAW-CAPTURE 2 \"c\" 2.0 raw",
    "DELAY 0 1.0",
    "DELAY 0 \"a\" 0.5",
    "DELAY 0 1 2.0",
    "DELAY 2 0.25",
    "DELAY 0 \"a\" \"b\" 1.0",
    "FENCE",
    "FENCE 0",
    "FENCE 0 1",
    "FENCE 2",
    "FENCE 1 2",
    "SET-FREQUENCY 0 \"a\" 1.0",
    "SET-PHASE 0 \"a\" th[0]",
    "SHIFT-PHASE 1 \"a\" th[1]",
    "SET-SCALE 0 1 \"ab\" 0.5",
    "SHIFT-FREQUENCY 0 \"b\" 2.0",
    "SHIFT-PHASE 2 \"c\" 2*th[0]",
    "SWAP-PHASES 0 \"a\" 0 \"b\"",
    "SWAP-PHASES 0 \"a\" 1 \"a\"",
    "RESET",
    "RESET 0",
    "RESET 2",
    "PULSE 3 \"zz\" flat(duration: 1.0, iq: 1.0)",
    "SET-PHASE 1 \"b\" 0.0",
];

pub const E2E_CLASSICAL: &[&str] = &[
    "MOVE th[0] 1.0",
    "MOVE n[0] n[1]",
    "ADD n[0] n[1]",
    "ADD n[0] 1",
    "SUB th[1] th[0]",
    "MUL th[0] 2.0",
    "LOAD th[0] th n[0]",
    "LOAD n[1] n n[0]",
    "STORE th n[0] th[1]",
    "STORE raw n[1] 1.0",
    "AND ro[0] ro[1]",
    "IOR ro[2] 1",
    "NOT ro[0]",
    "NEG n[0]",
    "EXCHANGE n[0] n[1]",
    "EXCHANGE th[0] th[1]",
    "CONVERT th[0] n[0]",
    "EQ ro[0] n[0] n[1]",
    "LT ro[1] th[0] 1.0",
    "NOP",
    "PRAGMA foo",
    "MOVE ro[3] ro[0]",
];

pub const E2E_BAD: &[&str] = &["WAIT", "X 0", "MEASURE 0 ro[0]", "CZ 0 1", "CALL foo th[0]"];

pub struct E2eBlock {
    pub infos: Vec<Info>,
    pub term: Option<Info>,
    pub obs: Obs,
}

pub struct Interner {
    names: BTreeMap<String, u64>,
}
impl Interner {
    pub fn new() -> Self {
        Interner { names: BTreeMap::new() }
    }
    pub fn id(&mut self, s: &str) -> u64 {
        let n = self.names.len() as u64;
        *self.names.entry(s.to_string()).or_insert(n)
    }
}

/// What the DefaultHandler reports for one instruction.
pub fn default_info(program: &Program, ext: &ExternSignatureMap, frames: &mut Interner, regions: &mut Interner, instruction: &Instruction) -> Info {
    let h = DefaultHandler;
    let role = match h.role(instruction) {
        InstructionRole::ClassicalCompute => 0,
        InstructionRole::RFControl => 1,
        InstructionRole::ControlFlow => 2,
        InstructionRole::ProgramComposition => 3,
    };
    let mut info = Info::classical(&[], &[]);
    info.role = role;
    info.sched = h.is_scheduled(instruction);
    match h.memory_accesses(ext, instruction) {
        Err(_) => info.memerr = true,
        Ok(m) => {
            let mut ids = |s: &HashSet<String>| {
                let mut v: Vec<u64> = s.iter().map(|r| regions.id(r)).collect();
                v.sort();
                v
            };
            info.reads = ids(&m.reads);
            info.writes = ids(&m.writes);
            info.caps = ids(&m.captures);
        }
    }
    if let Some(mf) = h.matching_frames(program, instruction) {
        let mut ids = |s: &HashSet<&FrameIdentifier>| {
            let mut v: Vec<u64> = s.iter().map(|f| frames.id(&f.to_quil_or_debug())).collect();
            v.sort();
            v
        };
        info.used = ids(&mf.used);
        info.blocked = ids(&mf.blocked);
    }
    info
}

/// Build every block of `program` with the DefaultHandler; returns per block the handler-reported
/// infos and the observed graph.
pub fn e2e_blocks(program: &Program) -> Vec<E2eBlock> {
    let ext = ExternSignatureMap::try_from(program.extern_pragma_map.clone()).unwrap_or_default();
    let mut frames = Interner::new();
    let mut regions = Interner::new();
    // stable ids: sorted frame names first
    let mut keys: Vec<String> = program.frames.get_keys().iter().map(|k| k.to_quil_or_debug()).collect();
    keys.sort();
    for k in keys {
        frames.id(&k);
    }
    let mut out = vec![];
    for bb in ControlFlowGraph::from(program).into_blocks() {
        let infos: Vec<Info> = bb.instructions().iter().map(|i| default_info(program, &ext, &mut frames, &mut regions, i)).collect();
        let term = bb.terminator().clone().into_instruction().map(|i| default_info(program, &ext, &mut frames, &mut regions, &i));
        let (obs, _) = observe(bb, program, &DefaultHandler);
        out.push(E2eBlock { infos, term, obs });
    }
    out
}

pub fn run_e2e_text(run: &mut Run, text: &str, tag: &str) {
    run_e2e_text_with(run, text, tag, &|i, t, o| Some(case_coq(i, t, o)));
}

pub fn run_e2e_text_with(run: &mut Run, text: &str, tag: &str, fmt: CaseFmt) {
    let program = match Program::from_str(text) {
        Ok(p) => p,
        Err(e) => {
            run.process_failure("generated program does not parse", &format!("{text} :: {e}"), None);
            return;
        }
    };
    let blocks = match qv::catch(std::panic::AssertUnwindSafe(|| e2e_blocks(&program))) {
        Ok(b) => b,
        Err(msg) => {
            run.process_failure(&format!("build panicked: {msg}"), text, None);
            return;
        }
    };
    let nb = blocks.len();
    let body = text.strip_prefix(E2E_HEADER).unwrap_or(text).replace('\n', "; ");
    for (bi, mut b) in blocks.into_iter().enumerate() {
        let len = b.infos.len();
        mutate(&mut b.obs, len);
        let coq = match fmt(&b.infos, b.term.as_ref(), &b.obs) {
            Some(c) => c,
            None => continue,
        };
        run.count(&format!("{tag}:len={}", len.min(9)));
        run.count(match &b.obs {
            Obs::Ok(_) => "result:ok",
            Obs::Err(v, _) => v,
        });
        let nontrivial = len >= 2 && matches!(b.obs, Obs::Ok(_));
        run.case(coq, &format!("Q block {bi}/{nb} of: {body}"), nontrivial, None);
    }
}

pub fn random_e2e(run: &mut Run, rng: &mut Rng, count: usize, rf_bias: usize) {
    for _ in 0..count {
        let mut text = String::from(E2E_HEADER);
        let nblocks = if rng.chance(1, 3) { rng.range(2, 3) } else { 1 };
        for bi in 0..nblocks {
            if bi > 0 || rng.chance(1, 5) {
                text.push_str(&format!("LABEL @b{bi}\n"));
            }
            let len = if rng.chance(1, 15) { 0 } else { rng.range(1, 10) };
            for _ in 0..len {
                let r = rng.below(100);
                let line = if r < rf_bias {
                    *rng.pick(E2E_RF)
                } else if r < 98 {
                    *rng.pick(E2E_CLASSICAL)
                } else {
                    *rng.pick(E2E_BAD)
                };
                text.push_str(line);
                text.push('\n');
            }
            match rng.below(6) {
                0 => text.push_str(&format!("JUMP @b{}\n", rng.below(nblocks))),
                1 => text.push_str(&format!("JUMP-WHEN @b{} ro[{}]\n", rng.below(nblocks), rng.below(4))),
                2 => text.push_str(&format!("JUMP-UNLESS @b{} ro[{}]\n", rng.below(nblocks), rng.below(4))),
                3 => text.push_str("HALT\n"),
                _ => {}
            }
        }
        run_e2e_text(run, &text, "e2e");
    }
}

/// A few fixed programs (from the crate's own snapshot tests and the property text).
pub const FIXED_E2E: &[&str] = &[
    "PULSE 0 \"a\" flat(duration: 1.0, iq: 1.0)\nPULSE 1 \"a\" flat(duration: 1.0, iq: 1.0)\nPULSE 0 1 \"ab\" flat(duration: 1.0, iq: 1.0)\n",
    "NONBLOCKING PULSE 0 \"a\" flat(duration: 1.0, iq: 1.0)\nNONBLOCKING PULSE 0 \"b\" flat(duration: 10.0, iq: 1.0)\nFENCE\nPULSE 0 \"a\" flat(duration: 1.0, iq: 1.0)\nFENCE\nPULSE 0 \"a\" flat(duration: 1.0, iq: 1.0)\n",
    "NONBLOCKING CAPTURE 0 \"b\" flat(duration: 2.0, iq: 1.0) ro[0]\nMOVE ro[1] ro[0]\nJUMP @eq\nLABEL @eq\nPULSE 0 \"a\" flat(duration: 1.0, iq: 1.0)\n",
    "NONBLOCKING CAPTURE 0 \"b\" flat(duration: 2.0, iq: 1.0) ro[0]\nJUMP-WHEN @eq ro[0]\nLABEL @eq\nPULSE 0 \"a\" flat(duration: 1.0, iq: 1.0)\n",
    "DELAY 0 1.0\nMOVE th[0] 0.1\nSET-PHASE 0 \"a\" 2*pi*th[0]\nSET-PHASE 1 \"a\" 2*pi*th[0]\nPULSE 0 \"a\" flat(iq: 1, duration: 4.0)\nPULSE 1 \"a\" flat(iq: 1, duration: 4.0)\n",
    "LOAD th[0] th n[0]\nSHIFT-PHASE 0 \"a\" th[0]\nLOAD th[0] th n[1]\nSHIFT-PHASE 1 \"a\" th[0]\n",
    "ADD n[0] n[0]\nMUL n[0] 2\n",
    "HALT\n",
    "LABEL @x\n",
    "LABEL @x\nJUMP @x\n",
    "PRAGMA example\n",
    "RESET\nPULSE 0 \"a\" flat(duration: 1.0, iq: 1.0)\nRESET 0\nFENCE\n",
    "FENCE 0\nFENCE 0\nFENCE 1\nPULSE 0 \"a\" flat(duration: 1.0, iq: 1.0)\n",
    "PULSE 3 \"zz\" flat(duration: 1.0, iq: 1.0)\nMOVE th[0] 1.0\n",
    "WAIT\n",
    "X 0\n",
    "MOVE th[0] 1.0\nWAIT\nMOVE th[0] 1.0\n",
];
